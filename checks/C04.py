"""C04 - decoded numeric wrappers never violate their declared ranges.

spec/cbor/NumRanges.tla  PositiveCoin / NonZeroInt decoders and the Conway shapes embedding them
                         (Value, Mint, TransactionBody fields 22, 9, 1) as token trees over CborTok
  MC : MCNumRanges - every case of the bounded domain; "never holds a zero", "a zero is an error",
       "all or nothing" as invariants of the specified decoders
  M1 : GenNumRanges prints one vector per case (bytes, must-fail flag, expected denotations);
       pv-cbor numranges-replay decodes them with the real types and reads the amounts back.
Verdict: a decode that succeeds on a vector containing an integer zero amount, or whose read-back
amounts contain a zero, violates the property.  Acceptance of the other vectors and the exact values
are design-model knowledge (DRIFT notes only).
"""
import json
import os
import vlib

SPEC_DIR = "cbor"
ZERO = {"neg": False, "m": []}


def hexs(b):
    return "".join("%02x" % x for x in b)


def wrapper_of(ctx):
    return "PositiveCoin" if ctx in ("PositiveCoin", "Value", "Body.donation", "Body.output") else "NonZeroInt"


def judge(row, res):
    vio, drift = [], []
    ctx = row["ctx"]
    inp = hexs(row["bytes"])
    if res["dec"] == "ok":
        holds_zero = any(a == ZERO for a in res["amounts"])
        if row["zero"] or holds_zero:
            vio.append(("%s/zero-accepted/%s" % (wrapper_of(ctx), ctx),
                        "decoding %s as %s succeeds although an amount is zero (read back: %s)"
                        % (inp, ctx, json.dumps(res["amounts"]))))
        elif not row["acc"]:
            drift.append("%s accepts %s which the design model rejects" % (ctx, inp))
        elif res["amounts"] != row["amounts"]:
            drift.append("%s decodes %s to %s, design model %s" % (ctx, inp, json.dumps(res["amounts"]), json.dumps(row["amounts"])))
    else:
        if res["dec"] == "panic":
            drift.append("%s panics on %s: %s" % (ctx, inp, res.get("msg")))
        if row["acc"]:
            drift.append("%s rejects %s which the design model accepts (%s)" % (ctx, inp, res.get("msg")))
    return vio, drift


def run(ctx):
    binary = ctx.build("pv-cbor")
    tier = 2 if ctx.thorough else 1
    ctx.assume("container vectors use one 28-byte policy id, asset names 'A','BC','D', a 29-byte address and the three "
               "mandatory body fields; the amounts vary")

    cfg = ctx.path("MCNumRanges.cfg")
    src = open(os.path.join(vlib.SPEC, SPEC_DIR, "MCNumRanges.cfg")).read()
    open(cfg, "w").write(src.replace("Tier = 1", "Tier = %d" % tier))
    ctx.tlc_mc(SPEC_DIR, "MCNumRanges", cfg, workers=2,
               required_actions=["DecodePositiveCoin", "DecodeNonZeroInt", "DecodeValue", "DecodeMint",
                                 "DecodeBodyDonation", "DecodeBodyMint", "DecodeBodyOutput", "Drop"])

    gcfg = ctx.path("GenNumRanges.cfg")
    open(gcfg, "w").write("CONSTANTS\n  Tier = %d\n" % tier)
    vec = ctx.path("vectors.ndjson")
    n = ctx.tlc_gen(SPEC_DIR, "GenNumRanges", gcfg, vec, workers=1)
    out = ctx.path("results.ndjson")
    ctx.run_bin(binary, ["numranges-replay", "--in", vec, "--out", out])
    rows = vlib.read_ndjson(vec)
    results = vlib.read_ndjson(out)
    if len(rows) != len(results) or n != len(rows):
        raise vlib.ToolError("replay produced %d results for %d vectors" % (len(results), len(rows)))
    ctx.cov["traces_validated_against_impl"] += len(rows)
    ctx.cov["evaluations"] += len(rows)
    ctx.cov["zero_vectors"] = sum(1 for r in rows if r["zero"])
    ctx.cov["accepted_by_impl"] = sum(1 for r in results if r["dec"] == "ok")
    ctx.cov["vectors_by_context"] = {}
    for r in rows:
        ctx.cov["vectors_by_context"][r["ctx"]] = ctx.cov["vectors_by_context"].get(r["ctx"], 0) + 1
    drifts = []
    nbad = 0
    for row, res in zip(rows, results):
        vio, dr = judge(row, res)
        drifts += dr
        for key, what in vio:
            nbad += 1
            ctx.report(key, what, payload={"vector": row, "observed": res})
    ctx.cov["failing_vectors"] = nbad
    ctx.cov["drift_count"] = len(drifts)
    for d in drifts[:12]:
        ctx.notes.append("DRIFT " + d)
    for want in ("Body.donation", "Value"):
        i = next(k for k, r in enumerate(rows) if r["ctx"] == want and r["zero"])
        ctx.sample({"vector": rows[i], "observed": results[i]})

    # binding self-test: an observation that claims success on a zero vector / shows a zero must be flagged,
    # and the expected-reject flag must matter
    if not ctx.violations:
        i = next(k for k, r in enumerate(rows) if r["zero"] and r["ctx"] == "Mint")
        ctx.selftest("pretend vector %d (zero mint amount) decoded" % i,
                     len(judge(rows[i], {"dec": "ok", "amounts": [ZERO]})[0]) == 1)
        j = next(k for k, (r, s) in enumerate(zip(rows, results)) if not r["zero"] and s["dec"] == "ok" and s["amounts"])
        obs = dict(results[j], amounts=[ZERO] + results[j]["amounts"][1:])
        ctx.selftest("read-back zero in vector %d" % j, len(judge(rows[j], obs)[0]) == 1)
        flip = dict(rows[j], zero=True)
        ctx.selftest("flip must-fail flag of vector %d" % j, len(judge(flip, results[j])[0]) == 1)

    return ctx.finish(
        rule="MC: specified decoders over magnitudes {0,1,2^63-1,2^63,2^64-1} x sign x every head width in every position "
             "of 1-2 entry containers (7 decode contexts); M1: the same cases decoded by the real PositiveCoin, NonZeroInt, "
             "conway::Value, conway::Mint, conway::TransactionBody; zero => decode error, accepted => no zero read back",
        exhaustive=False)
