"""C24 - P2P stack protocol state machines (State::apply) implement the specification.

spec/proto/MiniProtocols.tla  transition tables (network spec; leios from the module docs)
spec/proto/Apply.tla          tables lifted to the data-carrying states of pallas-network2
  MC   : MCMiniProtocols (tables well-formed; two-party session model) + MCApply (Apply total, well-shaped)
  M1   : GenApply -> every (state, message) pair over payload tokens, and every message sequence
         (valid prefix + one arbitrary message, length <= 8; 10 and a second token phase in thorough),
         each with TLC's verdict; pv-proto apply-replay calls the real State::apply and compares
         Ok/Err, next state class, payload variant and carried payload.
"""
import json
import os
import vlib


def _gen_cfg(ctx, name, tok, maxlen, phase, mode):
    cfg = ctx.path(name)
    with open(cfg, "w") as f:
        f.write("CONSTANTS\n  Tok = {%s}\n  MaxLen = %d\n  Phase = %d\n  Mode = \"%s\"\n"
                "INIT GInit\nNEXT GNext\nINVARIANT Emit\nCHECK_DEADLOCK FALSE\n"
                % (", ".join(str(t) for t in tok), maxlen, phase, mode))
    return cfg


def _key(r):
    return "%s/%s/%s" % (r["proto"], r["st"]["cls"], r["msg"]["tag"])


def _describe(r):
    exp, got = r["exp"], r["got"]
    def show(x):
        if x is got and r.get("detail"):
            return r["detail"]["got"]
        if x is exp and r.get("detail") and x.get("ok"):
            return "Ok(%s%s %s) = %s" % (x["cls"], ("/" + x["sub"]) if x.get("sub") else "", x.get("data"), r["detail"]["want"])
        if "panic" in x:
            return "panic(%s)" % x["panic"][:80]
        if x.get("ok") is False:
            return "Err" + ("(%s)" % x["err"] if "err" in x else "")
        sub = ("/" + x["sub"]) if x.get("sub") else ""
        return "Ok(%s%s %s)" % (x["cls"], sub, x.get("data"))
    return "%s: state %s%s %s, message %s%s: specification says %s, State::apply returned %s" % (
        r["proto"], r["st"]["cls"], ("/" + r["st"]["sub"]) if r["st"].get("sub") else "", r["st"].get("data"),
        r["msg"]["tag"], r["msg"].get("data", []), show(exp), show(got))


def run(ctx):
    binary = ctx.build("pv-proto")
    ctx.assume("tokens also vary payload SIZE: lists are empty / 2 / 3 elements for tokens 1 / 2 / 3, requested amounts "
               "0 / 2 / 5, so replies shorter than, equal to and longer than an earlier request (and amount 0 with a "
               "non-empty reply) are all enumerated; the projection compares the whole carried value (length and elements)")
    ctx.assume("payload tokens are mapped to concrete values by injective per-slot constructors in "
               "harness/pv-proto/src/apply.rs (trusted); acceptance depends on the state class and message variant only")
    ctx.assume("tables transcribed by hand from the network spec (DESIGN 3.5); leios-notify/-fetch from the module docs "
               "of pallas-network2/src/protocol/leios*.rs")

    # 1. the tables and the lifted Apply, exhaustively
    ctx.tlc_mc("proto", "MCMiniProtocols", "MCMiniProtocols.cfg", workers=2,
               required_actions=["ClientSend", "ServerSend", "Recv"])
    mcfg = "MCApply.cfg"
    if ctx.thorough:
        mcfg = ctx.path("MCApply3.cfg")
        src = open(os.path.join(vlib.SPEC, "proto", "MCApply.cfg")).read()
        open(mcfg, "w").write(src.replace("Tok = {1, 2, 3}", "Tok = {1, 2, 3, 4}"))
    ctx.tlc_mc("proto", "MCApply", mcfg, workers=2, required_actions=["ClientMsg", "ServerMsg"])

    # 2. M1: TLC's vectors -> the real State::apply
    runs = [("GenApply.cfg", None)]
    if ctx.thorough:
        runs = [(_gen_cfg(ctx, "GenPairs4.cfg", (1, 2, 3, 4), 0, 0, "pairs"), "pairs4"),
                (_gen_cfg(ctx, "GenSeq10a.cfg", (1, 2, 3), 10, 0, "seq"), "seq10a"),
                (_gen_cfg(ctx, "GenSeq10b.cfg", (1, 2, 3), 10, 1, "seq"), "seq10b"),
                (_gen_cfg(ctx, "GenSeq10c.cfg", (1, 2, 3), 10, 2, "seq"), "seq10c")]
    rows_all, nvec, nsteps = [], 0, 0
    for i, (cfg, tag) in enumerate(runs):
        vec = ctx.path("vectors_%s.ndjson" % (tag or "quick"))
        n = ctx.tlc_gen("proto", "GenApply", cfg, vec, workers=1, count_states=True, timeout=1500)
        res = ctx.path("results_%s.ndjson" % (tag or "quick"))
        out = ctx.run_bin(binary, ["apply-replay", "--in", vec, "--out", res])
        summ = json.loads(out.strip().splitlines()[-1])
        if summ["vectors"] != n:
            raise vlib.ToolError("replayed %d of %d vectors" % (summ["vectors"], n))
        nvec += n
        nsteps += summ["steps"]
        rows = vlib.read_ndjson(res)
        rows_all += rows
        if i == 0:
            with open(vec) as f:
                lines = [json.loads(next(f)) for _ in range(3)]
            ctx.sample({"tlc_vector": lines[1]})
            seq = next((r for r in rows if r["kind"] == "seq" and r["ok"]), None)
            if seq:
                ctx.sample({"replayed_sequence_last_step": seq})
    ctx.cov["traces_validated_against_impl"] += nvec
    ctx.cov["evaluations"] += nsteps
    ctx.cov["vectors"] = nvec
    ctx.cov["apply_calls"] = nsteps
    kinds = {}
    for r in rows_all:
        kinds[r["kind"]] = kinds.get(r["kind"], 0) + 1
    ctx.cov["result_rows_by_kind"] = kinds
    protos = sorted({r["proto"] for r in rows_all})
    if len(protos) != 8:
        raise vlib.ToolError("expected 8 protocols in the replay, got %s" % protos)

    bad = [r for r in rows_all if not r["ok"]]
    seen = {}
    for r in bad:
        k = _key(r) if r["kind"] != "init" else "%s/default" % r["proto"]
        seen.setdefault(k, []).append(r)
    for k in sorted(seen):
        rs = seen[k]
        r = next((x for x in rs if x["kind"] == "pair"), rs[0])
        ctx.report(k, _describe(r) + " (%d failing vectors/steps)" % len(rs),
                   payload={"first": r, "count": len(rs), "kinds": sorted({x["kind"] for x in rs})})
    ctx.cov["mismatching_rows"] = len(bad)

    # 3. binding self-test: a corrupted expected value / a flipped verdict must be noticed by the comparator
    if not ctx.violations:
        src = vlib.read_ndjson(ctx.path("vectors_%s.ndjson" % (runs[0][1] or "quick")))
        good = [v for v in src if v["kind"] == "pair" and v["exp"]["ok"] and v["exp"]["data"]]
        okrows = {r["idx"] for r in rows_all if r["kind"] == "pair" and r["ok"]}
        idx_of = {json.dumps(v, sort_keys=True): i for i, v in enumerate(src)}
        pick = next(v for v in good if idx_of[json.dumps(v, sort_keys=True)] in okrows and v["exp"]["data"][0] > 0)
        c1 = json.loads(json.dumps(pick))
        c1["exp"]["data"][0] = c1["exp"]["data"][0] % 3 + 1
        rej = next(v for v in src if v["kind"] == "pair" and not v["exp"]["ok"]
                   and idx_of[json.dumps(v, sort_keys=True)] in okrows)
        c2 = json.loads(json.dumps(rej))
        c2["exp"] = {"ok": True, "cls": c2["st"]["cls"], "sub": c2["st"]["sub"], "data": c2["st"]["data"]}
        c3 = json.loads(json.dumps(pick))
        c3["exp"] = {"ok": False}
        p = ctx.path("selftest_vectors.ndjson")
        vlib.write_ndjson(p, [c1, c2, c3, pick])
        pr = ctx.path("selftest_results.ndjson")
        ctx.run_bin(binary, ["apply-replay", "--in", p, "--out", pr])
        rr = vlib.read_ndjson(pr)
        ctx.selftest("corrupted carried payload token in an expected state", not rr[0]["ok"])
        ctx.selftest("expected Ok where the table rejects", not rr[1]["ok"])
        ctx.selftest("expected Err where the table accepts", not rr[2]["ok"])
        ctx.selftest("uncorrupted control vector still agrees", rr[3]["ok"])

    return ctx.finish(
        rule="MC: tables well-formed, session model, Apply total/well-shaped; M1: every (state shape x payload tokens, "
             "message variant x payload tokens) pair and every message sequence (valid prefix + 1 arbitrary message, "
             "length <= %d) of the 8 P2P protocols, expected result computed by TLC, replayed into State::apply "
             "comparing Ok/Err, class, payload variant and payload" % (10 if ctx.thorough else 8),
        exhaustive=True)
