"""C22 - Mini-protocol messages are single well-formed CBOR items and round-trip.

spec/proto/WellFormed.tla   pushdown well-formedness machine over CBOR head tokens
  MC  : the machine accepts exactly the well-formed token strings (vs. the recursive grammar definition),
        all strings of length <= 4 (5 in thorough) over a 16-token alphabet with every head class
  M3  : seeded message values of every variant of every mini-protocol of both stacks (+ the values decoded from the
        reject-reason corpus of the localtxsubmission unit tests) are encoded with the real codecs; a small strict
        tokenizer turns the bytes into head tokens; TraceWF runs the machine over each message and demands
        encode ok /\\ exactly one well-formed item /\\ decode(encode(m)) = m.
"""
import json
import os
import re
import vlib

MIN_VARIANTS = 140       # (stack, proto, variant) triples the harness is expected to cover


def _key(e):
    return "%s.%s.%s/%s" % (e["stack"], e["proto"], e["variant"], e["class"])


def validate(ctx, events, name, count=True):
    """Run TraceWF over `events` (one TLC run). TraceWF consumes every event and collects the ones the property
    rejects; returns [(index, event, mode, machine_phase)] with mode in enc | wf | rt | wf+rt."""
    p = ctx.path(name + ".ndjson")
    vlib.write_ndjson(p, events)
    ok, matched, total, first = ctx.tlc_trace("proto", "TraceWF", "TraceWF.cfg", p, count=count)
    if not ok:
        raise vlib.ToolError("TraceWF could not read event %d of %s: %s" % (matched + 1, p, json.dumps(first)[:300]))
    tag = "tr_TraceWF_" + os.path.basename(p).replace(".", "_")
    out = open(ctx.path("tlc_%s.out" % tag)).read()
    n = re.search(r'<<\s*"REJECTED",\s*(\d+)\s*>>', out)
    rows = re.findall(r'<<\s*"REJ",\s*(\d+),\s*(TRUE|FALSE),\s*(TRUE|FALSE),\s*(TRUE|FALSE),\s*"(\w+)"\s*>>', out)
    if not n or int(n.group(1)) != len(rows):
        raise vlib.ToolError("TraceWF verdict unreadable (%s rejected, %d rows)" % (n.group(1) if n else "?", len(rows)))
    if count:
        ctx.cov["evaluations"] += total
    failures = []
    for k, enc, one, rt, phase in rows:
        enc, one, rt = enc == "TRUE", one == "TRUE", rt == "TRUE"
        mode = "enc" if not enc else "+".join(x for x, good in (("wf", one), ("rt", rt)) if not good)
        failures.append((int(k) - 1, events[int(k) - 1], mode, phase))
    return failures


def run(ctx):
    binary = ctx.build("pv-msgs")
    ctx.assume("message values are generated with wire-representable field combinations only: n2n version data has "
               "peer_sharing and query both present or both absent; chain-sync header content has a byron prefix "
               "exactly for variant 0; AnyUInt values use their minimal width; AnyCbor payloads hold one encoded item")
    ctx.assume("message equality is equality of the Debug rendering (most Message types have no PartialEq), "
               "version tables rendered in key order")

    # 1. the machine accepts exactly the well-formed token strings
    cfg = ctx.path("MCWellFormed.cfg")
    src = open(os.path.join(vlib.SPEC, "proto", "MCWellFormed.cfg")).read()
    open(cfg, "w").write(src.replace("MaxLen = 4", "MaxLen = %d" % (5 if ctx.thorough else 4)))
    ctx.tlc_mc("proto", "MCWellFormed", cfg, workers=4, timeout=3000,
               required_actions=["NLeaf", "NOpenDef", "NOpenIndef", "NChunk", "NBreak", "NReject"])

    # 2. M3: real codecs -> tokens -> TraceWF
    rounds = 40 if ctx.thorough else 3
    tr = ctx.path("trace.ndjson")
    info = json.loads(ctx.run_bin(binary, ["wf-trace", "--seed", ctx.seed, "--rounds", rounds, "--out", tr]).strip().splitlines()[-1])
    events = vlib.read_ndjson(tr)
    variants = sorted({(e["stack"], e["proto"], e["variant"]) for e in events})
    ctx.cov["messages_generated"] = len(events)
    ctx.cov["message_variants_covered"] = len(variants)
    ctx.cov["protocols_covered"] = sorted({"%s.%s" % (s, p) for s, p, _ in variants})
    ctx.cov["reject_corpus_values"] = info.get("corpus", 0)
    if len(variants) < MIN_VARIANTS:
        raise vlib.ToolError("harness covered only %d message variants (expected >= %d)" % (len(variants), MIN_VARIANTS))
    if info.get("corpus", 0) == 0:
        ctx.notes.append("reject-reason corpus not found in the localtxsubmission unit tests; generated reject reasons only")

    failures = validate(ctx, events, "trace")
    ctx.cov["traces_validated_against_impl"] += len(events) - len(failures)
    good = [e for e in events if e["enc"] == "ok" and e["rt"]]
    for e in (good[0], good[len(good) // 2]):
        ctx.sample({k: e[k] for k in ("stack", "proto", "variant", "class", "hex", "toks", "rt")} if len(e["toks"]) < 40 else
                   {k: e[k] for k in ("stack", "proto", "variant", "class", "len", "rt")})
    what = {"enc": "does not encode (%s)", "wf": "encodes to bytes that are not exactly one well-formed CBOR item (machine ends in phase %s)",
            "rt": "does not decode back to an equal message (%s)", "wf+rt": "is not one well-formed item and does not round-trip (%s)"}
    for idx, e, mode, state in failures:
        detail = e.get("why", "") if mode in ("enc", "rt") else state
        ctx.report("%s:%s" % (_key(e), mode),
                   "%s %s %s [class %s] %s; bytes %s.." % (e["stack"], e["proto"], e["variant"], e["class"], what[mode] % detail, e["hex"][:48]),
                   payload={"event_index": idx + 1, "event": e, "mode": mode, "machine": state})
    drift = [e for e in events if e["rt"] and not e["reenc"]]
    if drift:
        ctx.notes.append("DRIFT: %d message(s) round-trip to an equal value whose re-encoding differs, e.g. %s" % (len(drift), _key(drift[0])))

    # 3. binding self-test (skipped when real violations were found): four corruptions in one trace prefix, one TLC
    #    run; TraceWF must reject exactly those four events, each for the right clause
    if not ctx.violations:
        base = [json.loads(json.dumps(e)) for e in good if 3 <= len(e["toks"]) <= 30][:40]
        idx = [k for k, e in enumerate(base) if k > 5 and any(t[0] in (4, 5) and t[2] == 0 and t[1] > 0 for t in e["toks"])][:4]

        def bump(e):
            t = next(t for t in e["toks"] if t[0] in (4, 5) and t[2] == 0 and t[1] > 0)
            t[1] += 1

        tests = (("flip the round-trip flag", lambda e: e.update(rt=False), "rt"),
                 ("declare one more item in a container header", bump, "wf"),
                 ("drop the last token of a message", lambda e: e["toks"].pop(), "wf"),
                 ("append a second item after the message", lambda e: e["toks"].append([0, 1, 0]), "wf"))
        for i, (name, f, want) in zip(idx, tests):
            f(base[i])
        fs = {a: m for a, _, m, _ in validate(ctx, base, "selftest", count=False)}
        for i, (name, f, want) in zip(idx, tests):
            ctx.selftest("%s in event %d" % (name, i + 1), fs.get(i) == want and len(fs) == 4, "rejections: %s" % sorted(fs.items()))

    return ctx.finish(
        rule="MC: pushdown machine == recursive definition of one well-formed item on all token strings up to the bound; "
             "M3: every generated message value of every variant (both stacks, payload types included) must encode, "
             "tokenize to a string the machine accepts, and decode back to an equal value",
        exhaustive=False)
