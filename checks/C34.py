"""C34 - Accepted transactions conserve value exactly

Shares the machinery of C33 (checks/C33.py: spec/ledger/Phase1.tla, MCPhase1, TracePhase1, pv-ledger phase1-trace).
Demand on every run: accepted and no certificates/withdrawals/treasury/donation => Phase1!Conserved(T)
(ada and every asset: spent + minted = produced + fee, BigNat arithmetic in TLC; Byron: inputs >= outputs + min fee).
"""
import importlib.util
import os

_spec = importlib.util.spec_from_file_location("check_C33_shared", os.path.join(os.path.dirname(os.path.abspath(__file__)), "C33.py"))
shared = importlib.util.module_from_spec(_spec)
_spec.loader.exec_module(shared)


def run(ctx):
    return shared.run_phase1(ctx, "C34",
                             'MC: Accept => Conserved on tiny abstract transactions; M3: accepted fixtures of all eras x quantity mutators (output/fee/spent +-1, moves, outputs exceeding inputs, sums equal modulo 2^64, mint/burn with an always-true native policy: balanced, unbalanced, burns of absent assets, quantities at 2^63 / 2^64-1 exercising sign conversion), verdict vs exact balance decided by TLC')
