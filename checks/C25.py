"""C25 - Handshake responders accept only the highest common version.

spec/proto/Handshake.tla   property predicate RepliesOk(C, S, replies) + responder design model
  MC  : every pair of tables over 3 versions x 2 magics x 2 data variants; every reply of the design model satisfies
        the predicate; the predicate rejects the classic wrong negotiators (ASSUMEs in MCHandshake)
  M1  : every (C, S) pair TLC enumerates (GenHandshake) is replayed into the three real responders
        (original stack Server<n2n>, Server<n2c> behind a plexer pair; P2P stack ResponderBehavior)
  M3  : seeded tables of 0..16 versions (overlapping / disjoint, equal / different data and magics), same drivers
  verdict: TraceHandshake accepts an event iff the replies the responder sent satisfy RepliesOk.
"""
import json
import os
import vlib

MAX_ROUNDS = 8


def _sig(e):
    kinds = ",".join(r["t"] if r["t"] != "refuse" else r["why"] for r in e["replies"]) or "silent"
    return e["impl"], kinds


def _case(e):
    cv, sv = {r[0] for r in e["c"]}, {r[0] for r in e["s"]}
    common = cv & sv
    if not common:
        return "disjoint"
    b = max(common)
    ce, se = next(r for r in e["c"] if r[0] == b), next(r for r in e["s"] if r[0] == b)
    return "same-data" if ce == se else ("same-magic" if ce[1] == se[1] else "magic-differs")


def validate(ctx, events, name, count=True, resume=True):
    """TraceHandshake stops at the first event the property does not allow; report it, drop the later events with
    the same (impl, reply kinds, table relation) signature and go on, so that independent defects are all listed."""
    failures, rest, offset = [], events, 0
    for rnd in range(MAX_ROUNDS):
        if not rest:
            break
        p = ctx.path("%s.%d.ndjson" % (name, rnd))
        vlib.write_ndjson(p, rest)
        ok, matched, total, first = ctx.tlc_trace("proto", "TraceHandshake", "TraceHandshake.cfg", p, count=count)
        if count:
            ctx.cov["evaluations"] += matched
        if ok:
            break
        failures.append((offset + matched, first))
        if not resume:
            break
        sig = _sig(first) + (_case(first),)
        rest = [e for e in rest[matched + 1:] if e["ev"] != "hs" or _sig(e) + (_case(e),) != sig]
        offset += matched + 1
    return failures


def report(ctx, failures, src):
    for idx, e in failures:
        impl, kinds = _sig(e)
        ctx.report("%s/%s/%s" % (impl, _case(e), kinds),
                   "%s responder, proposal C=%s own table S=%s (%s): sent %s, which the property forbids" % (
                       impl, json.dumps(e["c"]), json.dumps(e["s"]), _case(e), json.dumps(e["replies"])),
                   payload={"origin": e.get("origin"), "event_index": idx + 1, "event": e}, src_file=src)


def run(ctx):
    binary = ctx.build("pv-msgs")
    ctx.assume("version data is projected to (magic, rest): n2n rest = diffusion mode + peer-sharing flag, n2c rest = "
               "query flag; the data a responder accepts with is identified by equality with an entry of C or S")
    ctx.assume("version numbers are kept below 2^31 (TLC integers); network magics are logged as abstract ids 1..10 standing for "
               "764824073, 764824073+2^32, 1097911063, 1097911063+2^63, 1, 1+2^32, 2, 4, 2^32, 2^64-1 (ids 1/2 of the TLC-enumerated "
               "pairs differ only above bit 31)")

    # 1. property vs design model, exhaustively
    ctx.tlc_mc("proto", "MCHandshake", "MCHandshake.cfg", workers=4, timeout=1800,
               required_actions=["RecvPropose", "Accept", "RefuseParams", "RefuseMismatch"])

    # 2. M1: TLC-enumerated table pairs -> the three real responders -> TraceHandshake
    traces = []
    domains = [("{1, 2, 3}", "{1, 2}", "{0}"), ("{1, 2}", "{1, 2}", "{0, 1}")]
    if ctx.thorough:
        domains = [("{1, 2, 3}", "{1, 2}", "{0, 1}")]
    src = open(os.path.join(vlib.SPEC, "proto", "GenHandshake.cfg")).read()
    for k, (vs, ms, xs) in enumerate(domains):
        cfg = ctx.path("GenHandshake%d.cfg" % k)
        open(cfg, "w").write(src.replace("Versions = {1, 2, 3}", "Versions = " + vs).replace("Magics = {1, 2}", "Magics = " + ms)
                             .replace("Rests = {0}", "Rests = " + xs))
        vec = ctx.path("pairs%d.ndjson" % k)
        n = ctx.tlc_gen("proto", "GenHandshake", cfg, vec, workers=1, timeout=1800)
        tr = ctx.path("replay%d.ndjson" % k)
        ctx.run_bin(binary, ["hs-replay", "--in", vec, "--out", tr])
        events = vlib.read_ndjson(tr)
        if len(events) != 3 * n:
            raise vlib.ToolError("hs-replay logged %d events for %d pairs" % (len(events), n))
        # DRIFT only: reply kind outside the design model's Negotiate(C, S)
        model = {(json.dumps(sorted(v["c"])), json.dumps(sorted(v["s"]))): set(v["model"]) for v in vlib.read_ndjson(vec)}
        for e in events:
            kinds = _sig(e)[1]
            want = model.get((json.dumps(sorted(e["c"])), json.dumps(sorted(e["s"]))))
            if want is not None and kinds not in want and len(ctx.notes) < 5:
                ctx.notes.append("DRIFT: %s answers %s where the design model has %s (C=%s S=%s)" % (
                    e["impl"], kinds, sorted(want), e["c"], e["s"]))
        traces.append(("tlc-pairs-%d" % k, tr, events))
        ctx.cov["pairs_replayed"] = ctx.cov.get("pairs_replayed", 0) + n

    # 3. M3: seeded big tables
    n = 4000 if ctx.thorough else 250
    tr = ctx.path("seeded.ndjson")
    ctx.run_bin(binary, ["hs-trace", "--seed", ctx.seed, "--n", n, "--out", tr])
    traces.append(("seeded", tr, vlib.read_ndjson(tr)))

    # one trace, one TLC run: the three sources separated by reset events
    allev = []
    merged = []
    for origin, tr, events in traces:
        merged.append({"ev": "reset", "origin": origin})
        for e in events:
            e["origin"] = origin
        merged += events
        allev += events
    mp = ctx.path("handshakes.ndjson")
    vlib.write_ndjson(mp, merged)
    fs = validate(ctx, merged, "handshakes")
    report(ctx, fs, mp)
    ctx.cov["traces_validated_against_impl"] += len(allev) - len(fs)
    ctx.cov["handshakes_run"] = len(allev)
    ctx.cov["outcomes"] = {}
    for e in allev:
        k = "%s/%s/%s" % (e["impl"], _case(e), _sig(e)[1])
        ctx.cov["outcomes"][k] = ctx.cov["outcomes"].get(k, 0) + 1
    for impl in ("n1-n2n", "n1-n2c", "n2"):
        for case, kind in (("same-data", "accept"), ("disjoint", "mismatch"), ("magic-differs", "refused")):
            if not any(k.startswith("%s/%s/" % (impl, case)) for k in ctx.cov["outcomes"]):
                raise vlib.ToolError("no %s case was exercised for %s" % (case, impl))
    ctx.sample(next(e for e in allev if e["replies"] and e["replies"][0]["t"] == "accept" and len(e["c"]) > 2))
    ctx.sample(next(e for e in allev if _case(e) == "disjoint" and len(e["s"]) > 1 and e["impl"] != "n2"))

    # 4. binding self-test on a prefix of the seeded trace
    if not ctx.violations:
        seeded = traces[-1][2]
        ea = next(e for e in seeded if e["replies"] and e["replies"][0]["t"] == "accept"
                  and len({r[0] for r in e["c"]} & {r[0] for r in e["s"]}) > 1)
        em = next(e for e in seeded if _case(e) == "disjoint" and len(e["s"]) > 1 and e["replies"])
        base = seeded[:20] + [ea, em] + seeded[20:30]
        ia, im = 20, 21

        def mutated(i, f):
            rows = [json.loads(json.dumps(e)) for e in base]
            f(rows[i])
            return rows

        def lower(e):
            common = sorted({r[0] for r in e["c"]} & {r[0] for r in e["s"]})
            e["replies"][0]["v"] = common[0]

        tests = (("accepted version replaced by the lowest common one", ia, lower),
                 ("accepted magic corrupted", ia, lambda e: e["replies"][0].update(m=e["replies"][0]["m"] + 1)),
                 ("one version dropped from the mismatch list", im, lambda e: e["replies"][0]["vs"].pop()),
                 ("reply of a disjoint handshake dropped", im, lambda e: e["replies"].clear()))
        for name, i, f in tests:
            fs = validate(ctx, mutated(i, f), "selftest%d" % len(ctx.selftests), count=False, resume=False)
            ctx.selftest("%s in event %d" % (name, i + 1), len(fs) == 1 and fs[0][0] == i, "rejected at %s" % [a + 1 for a, _ in fs])

    return ctx.finish(
        rule="MC: design model of both responders satisfies the property on all table pairs of the bounded domain; "
             "M1: every TLC-enumerated (C, S) pair replayed into Server<n2n>, Server<n2c> and ResponderBehavior; M3: seeded "
             "tables of 0..16 versions; each run's replies validated by the property predicate in TraceHandshake",
        exhaustive=False)
