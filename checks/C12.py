"""C12 - KES keys sign verifiably for exactly their current period.

spec/crypto/Kes.tla  (binary-sum KES as a tree model: period, live seed set, symbolic public keys / signatures)
  MC : every evolution history for depths 1..4 (5 in thorough), sum and compact, signatures made at any period
       and verified at every in-range period: period counts updates, root key constant, update refused exactly
       at the last period, verify(t') <=> t' = signing period
  M3 : real Sum{1..7}Kes / Sum{1..7}CompactKes driven through keygen / sign / verify(t') / byte round trip /
       update until refusal (all periods signed and cross-verified for depth <= 4, sampled for 5..7);
       TraceKes (JudgeC12) validates every event
(C13 re-uses the helpers below on the same kind of trace with the other reader.)
"""
import json
import os
import vlib

MC_ACTIONS = ["FirstKeyGen", "UpdateOk", "UpdateFail", "Sign", "Verify"]


def model_check(ctx):
    cfg = "MCKes.cfg"
    if ctx.thorough:
        cfg = ctx.path("MCthorough.cfg")
        src = open(os.path.join(vlib.SPEC, "crypto", "MCKes.cfg")).read()
        open(cfg, "w").write(src.replace("Depths = {1, 2, 3, 4}", "Depths = {1, 2, 3, 4, 5}").replace('Msgs = {"a"}', 'Msgs = {"a", "b"}'))
    ctx.tlc_mc("crypto", "MCKes", cfg, workers=4, required_actions=MC_ACTIONS, timeout=1500)


def kes_trace(ctx, binary):
    tr = ctx.path("kes_trace.ndjson")
    if ctx.thorough:
        args = ["--runs", 8, "--full", 5, "--samples", 12]
    else:
        args = ["--runs", 1, "--full", 4, "--samples", 3]
    ctx.run_bin(binary, ["kes-trace", "--seed", ctx.seed, "--out", tr] + args)
    return vlib.read_ndjson(tr)


def segments(events):
    """split at keygen events (one key per segment); a panic event stays with its key"""
    segs = []
    for e in events:
        if e["ev"] == "keygen" or not segs:
            segs.append([])
        segs[-1].append(e)
    return segs


def seg_name(seg):
    k = seg[0]
    if k.get("ev") != "keygen":
        return "nokey"
    return "%s/depth%d" % ("compact" if k["compact"] else "sum", k["depth"])


def validate(ctx, cfg, segs, tag, count=True, max_rounds=6):
    """Validate the concatenated segments; on a rejection yield (segment, index in segment, event),
    drop that key and validate the rest again (so that several distinct failures are all seen)."""
    fails = []
    segs = list(segs)
    total_ok = 0
    for rnd in range(max_rounds):
        flat = [e for s in segs for e in s]
        if not flat:
            break
        p = ctx.path("%s_%d.ndjson" % (tag, rnd))
        vlib.write_ndjson(p, flat)
        ok, matched, total, first = ctx.tlc_trace("crypto", "TraceKes", cfg, p, count=count and rnd == 0, timeout=1500)
        if ok:
            total_ok += total
            break
        n = 0
        for si, s in enumerate(segs):
            if matched < n + len(s):
                fails.append((s, matched - n, first, p))
                total_ok += n
                segs = segs[si + 1:]
                break
            n += len(s)
    return fails, total_ok


def run(ctx):
    binary = ctx.build("pv-crypto")
    ctx.assume("Blake2b-256 of a key pair and Ed25519 are modelled as collision-free / unforgeable free terms (Kes.tla)")
    ctx.assume("verification is exercised under the key's own public key and the signature's own message (what the property states)")
    model_check(ctx)

    events = kes_trace(ctx, binary)
    segs = segments(events)
    ctx.cov["keys_driven"] = len(segs)
    ctx.cov["events"] = len(events)
    ctx.sample({"impl_trace_events": [e for e in events[:40] if e["ev"] in ("keygen", "sign", "verify", "update")][:4]})
    for e in events:
        if e["ev"] == "panic":
            ctx.report("panic/%s/depth%d" % ("compact" if e["compact"] else "sum", e["depth"]),
                       "KES driver panicked inside pallas-crypto: %s" % e["panic"], payload=e)
    c12 = [[{k: v for k, v in e.items() if k != "found"} for e in s] for s in segs]
    fails, nok = validate(ctx, "TraceKesC12.cfg", c12, "c12")
    ctx.cov["traces_validated_against_impl"] += len(segs) - len(fails)
    ctx.cov["evaluations"] += nok
    for seg, idx, ev, path in fails:
        ctx.report("%s/%s" % (ev.get("ev"), seg_name(seg)),
                   "event %d of key %s is not allowed by Kes.tla (C12 reader): %s" % (idx + 1, seg_name(seg), json.dumps(ev)),
                   payload={"key": seg[0], "event_index_in_key": idx, "event": ev, "preceding": seg[max(0, idx - 5):idx]},
                   src_file=path)

    # binding self-tests on one depth-3 compact key: flip a verify result, drop an update
    if not fails:
        seg = next(s for s in c12 if s[0]["ev"] == "keygen" and s[0]["depth"] == 3 and s[0]["compact"])
        iv = next(i for i, e in enumerate(seg) if e["ev"] == "verify" and i > 30)
        c = [dict(e) for e in seg]
        c[iv]["ok"] = not c[iv]["ok"]
        p1 = ctx.path("selftest_verify.ndjson")
        vlib.write_ndjson(p1, c)
        ok1, m1, _, _ = ctx.tlc_trace("crypto", "TraceKes", "TraceKesC12.cfg", p1, count=False)
        ctx.selftest("flip the result of verify event %d" % (iv + 1), (not ok1) and m1 == iv)
        iu = next(i for i, e in enumerate(seg) if e["ev"] == "update" and i > 30)
        p2 = ctx.path("selftest_drop.ndjson")
        vlib.write_ndjson(p2, [e for i, e in enumerate(seg) if i != iu])
        ok2, m2, _, _ = ctx.tlc_trace("crypto", "TraceKes", "TraceKesC12.cfg", p2, count=False)
        ctx.selftest("drop update event %d" % (iu + 1), not ok2, "matched %d" % m2)
        c = [dict(e) for e in seg]
        isg = next(i for i, e in enumerate(seg) if e["ev"] == "sign")
        c[isg]["len"] += 32
        p3 = ctx.path("selftest_len.ndjson")
        vlib.write_ndjson(p3, c)
        ok3, m3, _, _ = ctx.tlc_trace("crypto", "TraceKes", "TraceKesC12.cfg", p3, count=False)
        ctx.selftest("corrupt the signature length of sign event %d" % (isg + 1), (not ok3) and m3 == isg)

    return ctx.finish(
        rule="MC: all evolution/sign/verify histories of the tree model for depths 1..4 (5), sum and compact; M3: one (five) "
             "seeded key(s) per construction and depth 1..7 driven to exhaustion, every period signed and verified at every "
             "in-range period for depth <= 4 (5), sampled periods for deeper trees, older signatures re-verified after "
             "evolution, byte round trip and size of every signature; all events validated by TraceKes",
        exhaustive=False)
