"""C08 - script integrity hash follows the ledger formula.

spec/ledger/ScriptIntegrity.tla  pre-image = redeemers | datums (as they appeared) | language views (canonical key
                                 order V2, V3, V1; V1 key 41 00, value bytes-wrapped indefinite list); hash uninterpreted
  MC : MCScriptIntegrity - build_for / hash over redeemer forms x datum wires x every subset of {V1,V2,V3} with
       cost vectors incl. negative / 2^31-1 / i64 extremes; key-order canonicity and pre-image structure as invariants
  M1 : GenScriptIntegrity prints, per case, the witness-set bytes, the language views and the acceptable pre-images;
       pv-cbor scriptdata-replay decodes the witness set, calls ScriptData::build_for(..).hash() and compares with
       Hasher::<256>::hash(pre-image).  The five real transactions: TLC assembles the pre-image from their raw parts;
       the result must also be the hash recorded in the transaction body.
       pallas-txbuilder call site: transactions staged with 0..8 spend/mint redeemers, datums and language views are
       built several times (fresh HashMaps each); TLC assembles the pre-image from the redeemer / datum bytes AS EMITTED
       in the built witness set; it must hash to the script_data_hash of the built body.
"""
import json
import os
import re
import vlib

SPEC_DIR = "ledger"
LANG = {0: "V1", 1: "V2", 2: "V3"}


def case_key(row):
    langs = "+".join(LANG.get(l["lang"], str(l["lang"])) for l in row["langs"]) or "none"
    return "redeemers=%s/datums=%s/views=%s" % (row["rform"], "yes" if row["has_d"] else "no", langs)


def judge(row, res):
    vio, drift = [], []
    got = res["got"]
    if row["kind"] == "real" and row["name"].startswith("txb/"):
        # a transaction built by pallas-txbuilder: the script_data_hash of its body against the formula
        # applied to the redeemer / datum bytes of its own witness set
        part = res.get("part") or {}
        if "panic" in part or "error" in part:
            drift.append("txbuilder %s: build fails: %s" % (row["name"], part.get("panic") or part.get("error")))
        elif got["st"] == "nohash":
            if res["want"]:
                drift.append("txbuilder %s: no script_data_hash in the body although the witness set has redeemers or datums "
                             "(language views %s)" % (row["name"], "set" if part.get("views_set") else "not set"))
        elif not res["want"]:
            vio.append(("txbuilder/hash-without-redeemers-and-datums",
                        "%s: built body carries script_data_hash %s although the emitted witness set has neither redeemers nor datums"
                        % (row["name"], got["h"])))
        elif got["h"] not in res["want"]:
            if not part.get("r"):
                vio.append(("txbuilder/datums-without-redeemers",
                            "%s: script_data_hash %s of the built body is not the hash of A0|datums|A0 (%s) for the emitted witness set, "
                            "which has datums and no redeemers" % (row["name"], got["h"], res["want"])))
            else:
                vio.append(("txbuilder/hash-mismatch/redeemers=%s" % part.get("n_redeemers"),
                            "%s: script_data_hash %s of the built body is not the hash %s of redeemers|datums|views as emitted in its "
                            "witness set %s (redeemers emitted in (tag,index) order: %s)"
                            % (row["name"], got["h"], res["want"], bytes(part["r"]).hex()[:100], part.get("sorted"))))
        return vio, drift
    if row["kind"] == "real":
        if got["st"] != "hash" or got["h"] not in res["want"]:
            vio.append(("hash/real/%s" % row["name"], "%s: ScriptData hash %s, hash of the specified pre-image %s (body: %s)"
                        % (row["name"], got.get("h", got["st"]), res["want"], res.get("body"))))
        return vio, drift
    outcomes = [("Some(views)", got)] + ([("None", res["got_none"])] if res.get("got_none") else [])
    for how, g in outcomes:
        if g["st"] in ("ws-decode-error", "panic"):
            (drift if g["st"] == "ws-decode-error" else vio).append(
                ("hash/panic/" + case_key(row), "build_for/hash panics: %s" % g.get("msg")) if g["st"] == "panic"
                else "witness set %s does not decode: %s" % (bytes(row["ws"]).hex(), g.get("msg")))
            continue
        if row["nohash"]:
            if g["st"] != "nohash":
                vio.append(("build_for/hash-without-redeemers-and-datums", "a hash is produced for a witness set with neither redeemers nor datums (%s)" % how))
        elif g["st"] != "hash":
            vio.append(("build_for/no-hash/" + case_key(row), "no hash produced (%s) for witness set %s" % (how, bytes(row["ws"]).hex())))
        elif g["h"] not in res["want"]:
            msg = "witness set %s, views %s (%s): ScriptData hash %s is not the hash of the specified pre-image %s" % (
                bytes(row["ws"]).hex()[:120], json.dumps(row["langs"])[:160], how, g["h"], [bytes(p).hex()[:160] for p in row["pre"]])
            if row["rcanon"]:
                vio.append(("hash/" + case_key(row), msg))
            else:
                drift.append("redeemers in a non-canonical encoding are hashed re-encoded, not as they appeared: " + msg[:200])
    return vio, drift


def cost_models(ctx):
    """the protocol's cost models as pallas' own test lists them (data, read from the source file)"""
    root = os.environ.get("PV_REPO", "/repo")
    try:
        src = open(os.path.join(root, "pallas-primitives/src/conway/script_data.rs")).read()
        out = {}
        for v, body in re.findall(r"static COST_MODEL_PLUTUS_V(\d).*?vec!\[(.*?)\]", src, re.S):
            out[str(int(v) - 1)] = [int(x) for x in re.findall(r"-?\d+", body)]
        if sorted(out) == ["0", "1", "2"] and all(len(v) > 100 for v in out.values()):
            return out
    except OSError:
        pass
    return None


def run(ctx):
    binary = ctx.build("pv-cbor")
    tier = 2 if ctx.thorough else 1
    ctx.assume("Blake2b-256 is uninterpreted: the harness hashes the specification's pre-image with Hasher::<256> (C10 covers the hash itself)")
    ctx.assume("a witness set without redeemers runs no script: its view part is the empty map (CDDL: A0 | datums | A0) whatever cost models are supplied")

    ctx.assume("pallas-txbuilder keeps staged redeemers in a std HashMap (RandomState): the emitted order, and so the number of distinct "
               "built outcomes, varies from run to run; the verdict does not depend on it")
    cfg = ctx.path("MCScriptIntegrity.cfg")
    src = open(os.path.join(vlib.SPEC, SPEC_DIR, "MCScriptIntegrity.cfg")).read()
    open(cfg, "w").write(src.replace("Tier = 1", "Tier = %d" % tier))
    ctx.tlc_mc(SPEC_DIR, "MCScriptIntegrity", cfg, workers=4,
               required_actions=["BuildForNeither", "BuildForRedeemersOnly", "BuildForDatumsOnly", "BuildForBoth", "Hash", "Drop"])

    # raw parts of the real transactions
    parts = ""
    cm = cost_models(ctx)
    if cm:
        cj = ctx.path("costs.json")
        json.dump(cm, open(cj, "w"))
        parts = ctx.path("parts.ndjson")
        ctx.run_bin(binary, ["scriptdata-parts", "--costs", cj, "--out", parts, "--txb", "thorough" if ctx.thorough else "quick"])
    else:
        ctx.notes.append("cost models not found in script_data.rs: real-transaction vectors skipped")

    gcfg = ctx.path("GenScriptIntegrity.cfg")
    open(gcfg, "w").write("CONSTANTS\n  Tier = %d\n" % tier)
    vec = ctx.path("vectors.ndjson")
    n = ctx.tlc_gen(SPEC_DIR, "GenScriptIntegrity", gcfg, vec, env={"PARTS": parts})
    out = ctx.path("results.ndjson")
    ctx.run_bin(binary, ["scriptdata-replay", "--in", vec, "--out", out] + (["--parts", parts] if parts else []))
    rows, results = vlib.read_ndjson(vec), vlib.read_ndjson(out)
    if len(rows) != len(results) or n != len(rows):
        raise vlib.ToolError("replay produced %d results for %d vectors" % (len(results), len(rows)))
    pmap = {p["name"]: p for p in vlib.read_ndjson(parts)} if parts else {}
    for r, s in zip(rows, results):
        if r["kind"] == "real":
            s["part"] = pmap.get(r["name"])
    txb = [(r, s) for r, s in zip(rows, results) if r["kind"] == "real" and r["name"].startswith("txb/")]
    real = [(r, s) for r, s in zip(rows, results) if r["kind"] == "real" and not r["name"].startswith("txb/")]
    ctx.cov["txbuilder_outcomes"] = len(txb)
    ctx.cov["txbuilder_builds"] = sum(s["part"].get("builds", 0) for _, s in txb)
    ctx.cov["txbuilder_unsorted_redeemer_lists"] = sum(1 for _, s in txb if s["part"].get("sorted") is False)
    for r, s in real:
        if s.get("body") and s["body"] not in s["want"]:
            raise vlib.ToolError("specification pre-image for %s does not hash to the on-chain script_data_hash" % r["name"])
    ctx.cov["traces_validated_against_impl"] += len(rows)
    ctx.cov["evaluations"] += len(rows)
    ctx.cov["real_transactions"] = len(real)
    ctx.cov["no_hash_cases"] = sum(1 for r in rows if r.get("nohash"))
    drifts = []
    nbad = 0
    for row, res in zip(rows, results):
        vio, dr = judge(row, res)
        drifts += dr
        for key, what in vio:
            nbad += 1
            ctx.report(key, what, payload={"vector": row, "observed": res})
    ctx.cov["failing_vectors"] = nbad
    ctx.cov["drift_count"] = len(drifts)
    for d in drifts[:8]:
        ctx.notes.append("DRIFT " + d)
    k = next(i for i, r in enumerate(rows) if r["kind"] == "gen" and r["has_r"] and r["has_d"] and len(r["langs"]) == 3)
    ctx.sample({"vector": rows[k], "observed": results[k]})
    if real:
        ctx.sample({"real": real[-1][0]["name"], "observed": {x: real[-1][1][x] for x in ("got", "body", "want")}})

    # binding self-test: corrupt one byte of an expected pre-image (views part) and one of the datum part
    if not ctx.violations:
        pick = [i for i, r in enumerate(rows) if r["kind"] == "gen" and r["has_r"] and r["has_d"] and r["rcanon"] and r["langs"]][:2]
        bad = []
        for m, i in enumerate(pick):
            r = json.loads(json.dumps(rows[i]))
            pos = -2 if m == 0 else len(r["pre"][0]) // 2
            r["pre"] = [p[:] for p in r["pre"]]
            r["pre"][0][pos] ^= 1
            bad.append(r)
        bv, bo = ctx.path("selftest_vectors.ndjson"), ctx.path("selftest_results.ndjson")
        vlib.write_ndjson(bv, bad)
        ctx.run_bin(binary, ["scriptdata-replay", "--in", bv, "--out", bo])
        for r, s in zip(bad, vlib.read_ndjson(bo)):
            ctx.selftest("corrupt one byte of the expected pre-image (%s)" % case_key(r), len(judge(r, s)[0]) > 0)
        if txb:
            r0, s0 = next((r, s) for r, s in txb if s["got"]["st"] == "hash" and s["want"] and s["got"]["h"] in s["want"] and s["part"].get("n_redeemers", 0) >= 2)
            ctx.selftest("pretend the built body of %s carries another hash" % r0["name"],
                         any(k.startswith("txbuilder/hash-mismatch") for k, _ in judge(r0, dict(s0, got={"st": "hash", "h": "00" * 32}))[0]))
        nh = next(i for i, r in enumerate(rows) if r["kind"] == "gen" and r["nohash"])
        ctx.selftest("pretend a hash was produced for the empty witness set",
                     len(judge(rows[nh], dict(results[nh], got={"st": "hash", "h": "00"}))[0]) > 0)

    return ctx.finish(
        rule="MC: pre-image structure and key-order canonicity over 8 redeemer forms x 7 datum wires x every subset of {V1,V2,V3} "
             "with rotating cost vectors; M1: every case decoded as a real WitnessSet, ScriptData::build_for(..).hash() compared with "
             "Hasher::<256>::hash(specified pre-image); 5 real transactions: pre-image assembled by TLC from raw parts, equal to "
             "the library's hash and to the on-chain script_data_hash; pallas-txbuilder: staged transactions (0..8 redeemers x datums x "
             "language views, several builds each) - script_data_hash of the built body = hash of the pre-image TLC assembles from "
             "the emitted witness set",
        exhaustive=False)


# ---------------------------------------------------------------------------------------------------
# Validator binding (added by the ledger builder; add-only section): the C08 formula checked on the real
# Conway validator (pallas_validate::phase1::conway::check_script_data_hash) through pv-ledger.
#   pv-ledger c08-validator : fully valid signed transactions derived from accepted Conway fixtures in the
#       script-data shapes datum-only (correct / flipped / absent hash) and Plutus fixture (correct / flipped),
#       run through validate_tx; logs the byte strings of the pre-image parts, Blake2b-256 of their
#       concatenation and the verdict.
#   spec/ledger/TraceC08Validator.tla decides every event: hash = H[(redeemers | A0) || datums || views]
#       => not rejected with ScriptIntegrityHash; another hash => rejected; absent hash => either.
def validator_section(ctx):
    binary = ctx.build("pv-ledger")
    tr = ctx.path("c08_validator.ndjson")
    ctx.run_bin(binary, ["c08-validator", "--out", tr])
    events = vlib.read_ndjson(tr)
    per_era = {}
    for e in events:
        if e["shape"].startswith("datum-only") and e["shape"].endswith("correct-hash") and e["verdict"] == "accept":
            per_era[e["era"]] = per_era.get(e["era"], 0) + 1
    for era in sorted({e["era"] for e in events}):
        if per_era.get(era, 0) < 1:
            # not necessarily a tool problem: a validator that rejects every correct datum-only hash is exactly what the
            # trace spec reports below; it is vacuity only if TLC accepts the trace
            ctx.notes.append("validator binding: no datum-only transaction with the correct hash is accepted in era %s" % era)
    cur = list(events)
    rounds = 0
    while cur and rounds < 12:
        rounds += 1
        path = ctx.path("c08_validator_%d.ndjson" % rounds)
        vlib.write_ndjson(path, [dict(e, seq=i + 1) for i, e in enumerate(cur)])
        ok, matched, total, first = ctx.tlc_trace("ledger", "TraceC08Validator", "TraceC08Validator.cfg", path)
        if ok:
            break
        e = cur[matched]
        shape = e["shape"].split("/")
        what = "%s-%s" % (e["verdict"], e.get("error") or "ok")
        ctx.report("validator/%s/%s/%s/%s" % (e["era"], shape[0].rstrip("-0123456789"), shape[-1], what),
                   "validate_tx verdict %s %s for a %s transaction whose script_data_hash %s the hash of the specified pre-image "
                   "(redeemers %s, datums %s, views %s)" % (
                       e["verdict"], e.get("detail", ""), e["shape"],
                       "IS" if e["body_hash"] == e["expected_hash"] else "is NOT",
                       e["redeemer_bytes"][:24], e["datum_bytes"][:24], e["views_bytes"][:12]),
                   payload={"event": e})
        cur = [x for x in cur[matched + 1:]]
    if not ctx.violations and any(per_era.get(era, 0) < 1 for era in {e["era"] for e in events}):
        raise vlib.ToolError("validator binding is vacuous: no accepted datum-only transaction per era (%s)" % per_era)
    ctx.cov["traces_validated_against_impl"] += len(events)
    ctx.cov["evaluations"] += len(events)
    ctx.cov["validator_events"] = len(events)
    ctx.sample({"validator_event": {k: (v[:40] if isinstance(v, str) else v) for k, v in events[0].items()}})


_run_without_validator = run


def run(ctx):  # noqa: F811  (wraps the check above: the validator section runs right before the evidence is written)
    finish = ctx.finish

    def finish_with_validator(*a, **kw):
        validator_section(ctx)
        return finish(*a, **kw)

    ctx.finish = finish_with_validator
    return _run_without_validator(ctx)
