"""C10 - Blake2b hashing, hash values and nonce derivations match the reference.

spec/crypto/HashApi.tla (+ HashKats.tla): Blake2b is an uninterpreted, *learned* function H seeded with frozen RFC 7693
answers (python hashlib, 5 inputs x 160/224/256); the specification fixes the structure around it - streaming hasher =
H of the concatenation however it is split, tagged / CBOR variants, epoch and rolling nonce compositions, Hash<N>
hex / CBOR forms accepting exactly N bytes.
  MC : toy domain (two hashers, zero-byte chunks, two candidate digests) - split independence, learning never
       overwrites, KAT inputs only get their frozen digest
  M3 : pv-crypto hash-trace drives the real Hasher / Hash<N> / nonce functions (KAT inputs, random inputs <= 4 KiB split
       at random points over interleaved hashers, all 256 tag bytes, random CBOR values, nonce inputs with 32/64-byte VRF
       outputs with and without extra entropy, right- and wrong-length hex / CBOR hash values); TLC validates every event
"""
import json
import vlib

CFG = "TraceHashApi.cfg"


def cases(events):
    cs = []
    for e in events:
        if e["ev"] == "reset" or not cs:
            cs.append([])
        cs[-1].append(e)
    return cs


def key_of(ev):
    k = ev.get("ev", "?")
    if "bits" in ev:
        return "%s/%s" % (k, ev["bits"])
    if "n" in ev:
        return "%s/n%s" % (k, ev["n"])
    return k


def run(ctx):
    binary = ctx.build("pv-crypto")
    ctx.assume("Blake2b is uninterpreted: equality with RFC 7693 is decided on the 15 frozen known answers only; everything "
               "structural is decided on all traced inputs")
    ctx.assume("learned H is required to be collision free (two different traced inputs never share a digest)")
    ctx.assume("Ser(x) of hash_cbor is the minicbor encoding of x produced by the harness with the same codec")
    ctx.tlc_mc("crypto", "MCHashApi", "MCHashApi.cfg", workers=4,
               required_actions=["New", "Input", "FinalizeAt", "Hash", "Derived", "EpochNonce"])

    tr = ctx.path("hash_trace.ndjson")
    if ctx.thorough:
        args = ["--splits", 1500, "--tagrounds", 6, "--cbors", 1000, "--nonces", 800, "--values", 10]
    else:
        args = ["--splits", 60, "--tagrounds", 1, "--cbors", 40, "--nonces", 30, "--values", 1]
    ctx.run_bin(binary, ["hash-trace", "--seed", ctx.seed, "--maxlen", 4096, "--out", tr] + args)
    events = vlib.read_ndjson(tr)
    cs = cases(events)
    nkat = sum(1 for e in events if e["ev"] == "kat")
    if nkat != 15:
        raise vlib.ToolError("expected 15 KAT events, got %d" % nkat)
    ctx.cov["cases"] = len(cs)
    ctx.cov["events"] = len(events)
    ctx.cov["max_input_bytes"] = max(len(e.get("input", "")) // 2 for e in events)
    for name in ("finalize", "hash_tagged", "hash_cbor", "hash_tagged_cbor", "epoch_nonce", "rolling_nonce", "from_hex", "from_cbor", "to_cbor"):
        ctx.cov["n_" + name] = sum(1 for e in events if e["ev"] == name)
    ctx.sample({"impl_trace_events": [dict((k, (v[:64] + "..") if isinstance(v, str) and len(v) > 66 else v) for k, v in e.items())
                                      for e in events if e["ev"] in ("kat", "hash_tagged", "epoch_nonce", "from_cbor")][:4]})
    for e in events:
        if e["ev"] == "panic":
            ctx.report("panic", "hash driver panicked inside pallas-crypto: %s" % e["panic"], payload=e)

    fails = 0
    rest = list(cs)
    for rnd in range(6):
        flat = [e for c in rest for e in c]
        if not flat:
            break
        p = ctx.path("hash_trace_%d.ndjson" % rnd)
        vlib.write_ndjson(p, flat)
        ok, matched, total, first = ctx.tlc_trace("crypto", "TraceHashApi", CFG, p, count=(rnd == 0))
        ctx.cov["evaluations"] += matched
        if ok:
            break
        fails += 1
        n = 0
        for ci, c in enumerate(rest):
            if matched < n + len(c):
                short = dict((k, (v[:80] + "..") if isinstance(v, str) and len(v) > 82 else v) for k, v in first.items())
                ctx.report(key_of(first), "event not allowed by HashApi.tla (learned H inconsistent, KAT mismatch or structure rule broken): %s"
                           % json.dumps(short), payload={"case": c, "event_index_in_case": matched - n, "event": first}, src_file=p)
                rest = rest[ci + 1:]
                break
            n += len(c)
    ctx.cov["traces_validated_against_impl"] += len(cs) - fails

    if not fails:
        def check(name, evs, expect_at):
            p = ctx.path("selftest_%s.ndjson" % name.split()[0])
            vlib.write_ndjson(p, evs)
            ok, m, _, _ = ctx.tlc_trace("crypto", "TraceHashApi", CFG, p, count=False)
            ctx.selftest(name, (not ok) and (expect_at is None or m == expect_at), "matched %d" % m)
        flip = lambda h: ("1" if h[0] != "1" else "2") + h[1:]
        # 1. corrupt the digest of a KAT event
        c = [dict(e) for e in cs[1]]
        i = next(i for i, e in enumerate(c) if e["ev"] == "kat")
        c[i]["digest"] = flip(c[i]["digest"])
        check("kat-digest corrupted", c, i)
        # 2. drop one non-empty input chunk of a streaming hasher => its finalize disagrees with the learned value
        c = next(c for c in cs if any(e["ev"] == "input" and e["chunk"] for e in c) and any(e["ev"] == "hash" for e in c)
                 and c[1]["ev"] == "hash")
        i = next(i for i, e in enumerate(c) if e["ev"] == "input" and e["chunk"])
        check("input-chunk dropped", [e for j, e in enumerate(c) if j != i], None)
        # 3. derived operation without the plain hash it is specified over => rejected (no vacuous acceptance)
        c = next(c for c in cs if any(e["ev"] == "hash_tagged" for e in c))
        i = next(i for i, e in enumerate(c) if e["ev"] == "hash")
        check("plain-hash dropped before hash_tagged", [e for j, e in enumerate(c) if j != i], i)
        # 4. corrupt a nonce digest, a tag byte and a from_cbor verdict
        c = [dict(e) for e in next(c for c in cs if any(e["ev"] == "rolling_nonce" for e in c))]
        i = next(i for i, e in enumerate(c) if e["ev"] == "rolling_nonce")
        c[i]["digest"] = flip(c[i]["digest"])
        check("rolling-nonce digest corrupted", c, i)
        c = [dict(e) for e in next(c for c in cs if any(e["ev"] == "hash_tagged" for e in c))]
        i = next(i for i, e in enumerate(c) if e["ev"] == "hash_tagged")
        c[i]["tag"] = (c[i]["tag"] + 1) % 256
        check("tag byte changed", c, i)
        c = [dict(e) for e in next(c for c in cs if any(e["ev"] == "from_cbor" for e in c))]
        i = next(i for i, e in enumerate(c) if e["ev"] == "from_cbor" and not e["ok"])
        c[i]["ok"] = True
        check("from_cbor wrong length accepted", c, i)

    return ctx.finish(
        rule="MC: HashApi machine on a toy domain (split independence, learning, KAT freezing); M3: every Hasher / Hash<N> / nonce "
             "call of seeded random cases (inputs <= 4 KiB, random splits over 2-3 interleaved hashers, all 256 tags, CBOR values, "
             "nonce compositions, Hash<20/28/32> hex/CBOR lengths 0..300) validated by TLC against the learned H and the 15 frozen KATs",
        exhaustive=False)
