"""C40 - Built transactions encode the staged content with a correct id.

spec/txbuilder/TxBuilder.tla  (design layer Build(st); property layer Conforms(st, out))
  MC   : every staging state reachable with <= N builder calls, five scenario configs (all methods; inputs +
         spend redeemers; mint + mint redeemers; outputs/collateral/bounds/aux; scripts/datums):
         Conforms(st, Build(st)), pointer/mint/sorting lemmas, MCNext refines Next
  M2   : every builder call from every distinct staging state (one call sequence per model transition), executed
         on the real StagingTransaction,
         build_conway_raw (caught), MultiEraTx::decode, projected; equal to Build(st) => accepted (MC proved it
         conforms); anything else is decided by TLC with Conforms (TraceTxBuilder)
  M3   : seeded long call sequences with a build every few calls, validated by TraceTxBuilder
"""
import json
import os
import re
import vlib

SCENARIOS = [  # (cfg, quick MaxOps, thorough MaxOps)
    ("MCTxBuilder.cfg", 2, 3),
    ("GenTxBuilder_inputs.cfg", 4, 6),
    ("GenTxBuilder_mint.cfg", 3, 4),
    ("GenTxBuilder_outputs.cfg", 2, 3),
    ("GenTxBuilder_witness.cfg", 3, 5),
]
ALL_OPS = {
    "input", "remove_input", "reference_input", "remove_reference_input", "collateral_input",
    "remove_collateral_input", "output", "remove_output", "collateral_output", "clear_collateral_output", "fee",
    "clear_fee", "mint_asset", "remove_mint_asset", "valid_from_slot", "clear_valid_from_slot", "invalid_from_slot",
    "clear_invalid_from_slot", "network_id", "clear_network_id", "disclosed_signer", "remove_disclosed_signer",
    "script", "remove_script_by_hash", "datum", "remove_datum", "remove_datum_by_hash", "add_spend_redeemer",
    "remove_spend_redeemer", "add_mint_redeemer", "remove_mint_redeemer", "add_auxiliary_data",
    "clear_auxiliary_data", "add_language"}
REJECT_RE = re.compile(r'<<\s*"REJECT",\s*(\d+),\s*"([^"]*)"\s*>>')


def validate(ctx, trace_file, count=True):
    """TLC decides every build event of the trace with Conforms; returns (all events matched, [(index, clause)])."""
    ok, matched, total, first = ctx.tlc_trace("txbuilder", "TraceTxBuilder", "TraceTxBuilder.cfg", trace_file, count=count)
    tag = "tr_TraceTxBuilder_" + os.path.basename(trace_file).replace(".", "_")
    out = open(ctx.path("tlc_%s.out" % tag)).read()
    rejects = sorted(set((int(a), b) for a, b in REJECT_RE.findall(out)))
    if not ok:
        raise vlib.ToolError("trace %s: event %d matches no builder action of the specification: %s" % (
            os.path.basename(trace_file), matched + 1, json.dumps(first)[:300]))
    return total, rejects


def report_rejects(ctx, events, rejects, origin, trace_file):
    seen = set()
    for idx, clause in rejects:
        ev = events[idx - 1]
        key = "build/%s" % (clause if clause.startswith("panic") else "mismatch/" + clause)
        if key in seen:
            continue
        seen.add(key)
        start = max(i for i in range(idx) if events[i]["ev"] == "reset")
        calls = [e for e in events[start + 1: idx - 1] if e["ev"] != "build"]
        out = ev["out"]
        brief = {k: out[k] for k in ("res", "msg", "err", "id", "body_hash", "undecodable") if k in out}
        ctx.report(key, "%s: build_conway_raw outcome rejected by Conforms (%s) after %d calls: %s; last calls %s" % (
            origin, clause, len(calls), json.dumps(brief)[:300], json.dumps(calls[-4:])[:500]),
            payload={"calls": calls, "outcome": out, "clause": clause, "event_index": idx}, src_file=trace_file)


def run(ctx):
    binary = ctx.build("pv-txb")
    ctx.assume("byte strings are abstracted to labels (hashes, policies, names, datums, scripts, aux data); the "
               "harness maps labels to bytes and projects decoded transactions back (unknown bytes -> label 0)")
    ctx.assume("H = Blake2b-256 is uninterpreted: the harness supplies Hasher::<256>::hash of the body bytes cut out "
               "of tx_bytes by its own CBOR skipper; TLC checks equality with the reported id")
    ctx.assume("a build that returns Err is accepted (C40 speaks of staged transactions the builder accepts); "
               "remove_output beyond the end panics while staging (Vec::remove) and is not offered")

    # 1+2. per scenario: exhaustive MC of the bounded staging space, vectors printed by the same run, replay
    ops_seen = set()
    n_vec = n_same = n_doubt = 0
    drift = {}
    for cfg_name, q, t in SCENARIOS:
        src = open(os.path.join(vlib.SPEC, "txbuilder", cfg_name)).read()
        cfg = ctx.path(cfg_name)
        open(cfg, "w").write(re.sub(r"MaxOps = \d+", "MaxOps = %d" % (t if ctx.thorough else q), src))
        res = ctx.tlc_mc("txbuilder", "MCTxBuilder", cfg, workers=1, required_actions=["MCNext"], timeout=2400)
        sc = cfg_name.replace(".cfg", "")
        vec = ctx.path("vectors_%s.ndjson" % sc)
        vs = []
        for m in ctx.VEC_RE.finditer(res["out"]):
            vs.append(json.loads(json.loads(m.group(2).replace("\n", ""))))
        if len(vs) != res["generated"] - 1:      # one vector per explored transition
            raise vlib.ToolError("%s: %d vectors for %d transitions" % (cfg_name, len(vs), res["generated"] - 1))
        vlib.write_ndjson(vec, vs)
        for v in vs:
            ops_seen.update(o["op"] for o in v["ops"])
        if n_vec == 0:
            ctx.sample({"tlc_vector": vs[len(vs) // 2]})
        out, doubt = ctx.path("replay_%s.ndjson" % sc), ctx.path("doubt_%s.ndjson" % sc)
        ctx.run_bin(binary, ["builder-replay", "--in", vec, "--out", out, "--doubt", doubt])
        rows = vlib.read_ndjson(out)
        n_vec += len(rows)
        n_same += sum(1 for r in rows if r["same"])
        for r in rows:
            if "staging_panic" in r:
                raise vlib.ToolError("a staging call panicked (outside C40, not offered by the spec): %s" % json.dumps(r)[:300])
        devents = vlib.read_ndjson(doubt)
        if devents:
            total, rejects = validate(ctx, doubt)
            n_doubt += sum(1 for e in devents if e["ev"] == "build")
            report_rejects(ctx, devents, rejects, "M2 %s" % sc, doubt)
            rej = set(i for i, _ in rejects)
            for i, e in enumerate(devents):
                if e["ev"] == "build" and (i + 1) not in rej:
                    r = rows[e["vector"]]
                    k = "%s->%s" % (r["want"]["res"], r["got"]["res"])
                    drift.setdefault(k, []).append(r)
    missing = ALL_OPS - ops_seen
    if missing:
        raise vlib.ToolError("vacuous generation: builder methods never called: %s" % sorted(missing))
    ctx.cov["traces_validated_against_impl"] += n_vec
    ctx.cov["evaluations"] += n_vec
    ctx.cov["vectors_replayed"] = n_vec
    ctx.cov["vectors_equal_to_design"] = n_same
    ctx.cov["vectors_decided_by_conforms"] = n_doubt
    for k, rs in sorted(drift.items()):
        ctx.notes.append("DRIFT: %d outcomes differ from the design layer (%s) but conform to C40, e.g. ops %s -> %s" % (
            len(rs), k, json.dumps(rs[0]["ops"])[:300], json.dumps(rs[0]["got"])[:200]))

    # 3. M3: seeded long sequences on the real builder -> trace spec
    runs, ops = (60, 80) if ctx.thorough else (12, 60)
    tr = ctx.path("trace.ndjson")
    ctx.run_bin(binary, ["builder-trace", "--seed", ctx.seed, "--runs", runs, "--ops", ops, "--out", tr])
    events = vlib.read_ndjson(tr)
    total, rejects = validate(ctx, tr)
    builds = [e for e in events if e["ev"] == "build"]
    ctx.cov["traces_validated_against_impl"] += runs
    ctx.cov["evaluations"] += total
    ctx.cov["m3_builds"] = len(builds)
    ctx.cov["m3_builds_ok"] = sum(1 for e in builds if e["out"]["res"] == "ok")
    ctx.cov["m3_builds_error"] = sum(1 for e in builds if e["out"]["res"] == "error")
    n_sp = sum(1 for e in events if "staging_panic" in e)
    if n_sp:
        ctx.notes.append("staging calls panicked %d times in the seeded runs (outside C40)" % n_sp)
    if ctx.cov["m3_builds_ok"] * 5 < len(builds):
        raise vlib.ToolError("fewer than 20%% of the traced builds succeeded (%d of %d): binding is vacuous" % (
            ctx.cov["m3_builds_ok"], len(builds)))
    report_rejects(ctx, events, rejects, "M3 seeded run", tr)
    okb = next((e for e in builds if e["out"]["res"] == "ok" and e["out"]["tx"]["redeemers"]), None)
    if okb:
        ctx.sample({"impl_build_event": okb})

    # 4. binding self-test
    if not ctx.violations:
        rej = set(i for i, _ in rejects)
        # (a) corrupt one logged field: a redeemer pointer
        ia = next(i for i, e in enumerate(events) if e["ev"] == "build" and e["out"]["res"] == "ok"
                  and e["out"]["tx"]["redeemers"] and (i + 1) not in rej
                  and len(set(map(tuple, e["out"]["tx"]["inputs"]))) == len(e["out"]["tx"]["inputs"]))
        ca = json.loads(json.dumps(events[: ia + 1]))
        ca[ia]["out"]["tx"]["redeemers"][0]["idx"] += 1
        pa = ctx.path("trace_pointer.ndjson")
        vlib.write_ndjson(pa, ca)
        _, ra = validate(ctx, pa, count=False)
        ctx.selftest("shift a redeemer pointer in build event %d" % (ia + 1), (ia + 1, "redeemers") in ra, str(ra[-3:]))
        # (b) corrupt the reported id
        cb = json.loads(json.dumps(events[: ia + 1]))
        cb[ia]["out"]["id"] = ("0" if cb[ia]["out"]["id"][0] != "0" else "1") + cb[ia]["out"]["id"][1:]
        pb = ctx.path("trace_id.ndjson")
        vlib.write_ndjson(pb, cb)
        _, rb = validate(ctx, pb, count=False)
        ctx.selftest("corrupt the id of build event %d" % (ia + 1), (ia + 1, "id") in rb, str(rb[-3:]))
        # (c) drop one event: the first call that stages an input of a successful build
        ic = next(i for i, e in enumerate(events) if e["ev"] == "build" and e["out"]["res"] == "ok"
                  and e["out"]["tx"]["inputs"] and (i + 1) not in rej)
        start = max(i for i in range(ic) if events[i]["ev"] == "reset")
        h, x = events[ic]["out"]["tx"]["inputs"][0]
        drop = [i for i in range(start, ic) if events[i]["ev"] == "input" and events[i]["h"] == h and events[i]["i"] == x]
        cc = [e for i, e in enumerate(events[: ic + 1]) if i not in drop]
        pc = ctx.path("trace_dropped.ndjson")
        vlib.write_ndjson(pc, cc)
        _, rc = validate(ctx, pc, count=False)
        ctx.selftest("drop the input(%d,%d) calls before build event %d" % (h, x, ic + 1),
                     any(c == "inputs" for _, c in rc), str(rc[-3:]))
        # (d) expected-value side of M2: a corrupted expectation must be noticed and sent to TLC, which accepts
        #     the (correct) implementation outcome
        vs = vlib.read_ndjson(ctx.path("vectors_GenTxBuilder_mint.ndjson"))
        k = next(i for i, v in enumerate(vs) if v["expect"]["res"] == "ok" and v["expect"]["tx"]["mint"])
        vs[k]["expect"]["tx"]["mint"][0][2] += 1
        pv, po, pd = ctx.path("selftest_vec.ndjson"), ctx.path("selftest_out.ndjson"), ctx.path("selftest_doubt.ndjson")
        vlib.write_ndjson(pv, vs[: k + 1])
        ctx.run_bin(binary, ["builder-replay", "--in", pv, "--out", po, "--doubt", pd])
        rr = vlib.read_ndjson(po)
        noticed = (not rr[k]["same"]) and all(r["same"] or r["got"]["res"] != "ok" or i == k for i, r in enumerate(rr))
        _, rd = validate(ctx, pd, count=False)
        dev = vlib.read_ndjson(pd)
        last_build = max(i for i, e in enumerate(dev) if e["ev"] == "build") + 1
        ctx.selftest("corrupt the expected mint of vector %d" % k, noticed and all(i != last_build for i, _ in rd), str(rd[-3:]))

    return ctx.finish(
        rule="MC: every staging state within N builder calls per scenario, Conforms(st, Build(st)) and lemmas; M2: one "
             "call sequence per model transition executed on the real builder, built, decoded, projected and "
             "compared with Build(st), differences decided by TLC with Conforms; M3: seeded call sequences with "
             "interleaved builds, every build outcome decided by TLC with Conforms",
        exhaustive=False)
