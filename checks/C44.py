"""C44 - UTxO RPC mapping preserves ledger content; Plutus integers exact.

spec/u5c/UtxoRpc.tla (BigNat integers)
  MC : design model of map_plutus_bigint / u64_to_bigint / map_plutus_datum / map_tx over all boundary
       integers (2^k +- 2 for k in 0..128, both signs, both CBOR encodings), datum trees and transactions
       built from them: Exact, IntClass, MinimalBytes, DatumPreserved, TxPreserved
  M1 : TLC's integer and datum vectors -> CBOR -> PlutusData -> v1alpha and v1beta mappers (map_plutus_datum
       directly and map_tx_output of an output with that inline datum)
  M3 : what the mappers returned is validated by TraceUtxoRpc (Exact / SameDatum), and every block and
       transaction of test_data mapped by both mappers is validated against Preserve (hash, inputs, outputs:
       address, coin, assets, datum hash and tree; fee; validity) with independent projections of both sides
"""
import json
import os
import re
import vlib

SPEC = "u5c"


def _validate(ctx, tr, label, count):
    """validate a trace; on rejection report the event, drop the events of the same class, go on"""
    found = []
    cur = tr
    for rnd in range(20):
        ok, matched, total, first = ctx.tlc_trace(SPEC, "TraceUtxoRpc", "TraceUtxoRpc.cfg", cur, timeout=2400, count=(rnd == 0 and count))
        if ok:
            break
        ev = first["ev"]
        if ev == "panic":
            key = "%s/%s/panic" % (first["op"], first["ver"])
            what = "%s panicked on %s (%s): %s" % (first["op"], first["src"], first["hash"], first["msg"][:200])
            same = lambda e: e["ev"] == "panic" and e["op"] == first["op"] and e["ver"] == first["ver"]
        elif ev == "int":
            l, r = first["l"], first["rpc"]
            rng = "int-outside-i64" if l["cls"] == "int" else l["cls"]
            fn = "u64_to_bigint/" + first["via"] if first["via"] in ("coin", "asset") else "map_plutus_bigint"
            key = "%s/%s/%s/%s" % (fn, first["ver"], rng, "panic" if first.get("panic") else "inexact")
            what = "%s %s mapped to %s (%s, via %s)" % ("quantity" if first["via"] in ("coin", "asset") else "Plutus integer", json.dumps(l), json.dumps(r), first["ver"], first["via"])
            same = lambda e: (e["ev"] == "int" and e["ver"] == first["ver"] and e["l"]["cls"] == l["cls"] and e["rpc"] != e.get("want")
                              and (e["via"] in ("coin", "asset")) == (first["via"] in ("coin", "asset")))
        elif ev == "datum":
            key = "map_plutus_datum/%s/tree-differs" % first["ver"]
            what = "datum tree not preserved (%s, via %s): %s" % (first["ver"], first["via"], json.dumps(first)[:300])
            same = lambda e: e["ev"] == "datum" and e["ver"] == first["ver"] and e["l"] != e["rpc"]
        elif ev == "tx":
            l, r = first["l"], first["r"]
            field, detail = _tx_field(first), ""
            if field and field.startswith("outputs."):
                sub = field.split(".", 1)[1]
                for i, (a, b) in enumerate(zip(l["outputs"], r["outputs"])):
                    if a[sub] != b.get(sub):
                        detail = "output %d: %s vs %s" % (i, json.dumps(a[sub])[:160], json.dumps(b[sub])[:160])
                        break
            key = "map_tx/%s/%s" % (first["ver"], field)
            what = "tx %s of %s: %s not preserved %s" % (l["hash"], first["src"], field, detail)
            same = lambda e, f=field: e["ev"] == "tx" and e["ver"] == first["ver"] and _tx_field(e) == f
        elif ev == "out":
            l, r = first["l"], first["r"]
            field = _out_field(l, r)
            key = "map_tx_output/%s/%s/noncanonical-datum" % (first["ver"], field) if first["enc"] != "canon" else \
                "map_tx_output/%s/%s" % (first["ver"], field)
            what = "generated output with an inline datum (%s wire encoding): %s not preserved: %s vs %s" % (
                first["enc"], field, json.dumps(l.get(field))[:160], json.dumps(r.get(field))[:160])
            same = lambda e, f=field: e["ev"] == "out" and e["ver"] == first["ver"] and \
                (e["enc"] == "canon") == (first["enc"] == "canon") and _out_field(e["l"], e["r"]) == f
        else:
            key = "map_block/%s/header" % first["ver"]
            what = "block header / tx list not preserved: %s" % json.dumps(first)[:300]
            same = lambda e: e["ev"] == "block" and e["ver"] == first["ver"] and e["l"] != e["r"]
        ctx.report(key, what, payload={"event_index": matched + 1, "event": first})
        found.append(key)
        evs = vlib.read_ndjson(cur)
        rest = [e for i, e in enumerate(evs) if i != matched and not same(e)]
        cur = ctx.path("%s_rest%d.ndjson" % (label, rnd))
        vlib.write_ndjson(cur, rest)
    else:
        raise vlib.ToolError("more than 20 distinct failure classes in %s" % label)
    return found


def _out_field(a, b):
    """first differing field of an output projection; byte-exact fields first, because a ledger integer
    and its rpc form may differ textually while being exact (labels only; TLC decided the rejection)"""
    for k in ("addr", "dhash", "dwire", "assets", "coin", "datum"):
        if a.get(k) != b.get(k):
            return k
    return "other"


def _tx_field(e):
    """which projected field differs (labels the finding key only; TLC decided the rejection)"""
    l, r = e["l"], e["r"]
    for k in ("hash", "start", "ttl"):
        if l[k] != r.get(k):
            return k
    if sorted(set(l["inputs"])) != sorted(r.get("inputs", [])):
        return "inputs"
    if len(l["outputs"]) != len(r.get("outputs", [])):
        return "outputs"
    subs = [_out_field(a, b) for a, b in zip(l["outputs"], r["outputs"])]
    for want in ("addr", "dhash", "dwire", "assets", "coin", "datum"):
        if want in subs:
            return "outputs." + want
    for k in ("wdatums", "fee"):
        if l[k] != r.get(k):
            return k
    return "other"


def run(ctx):
    binary = ctx.build("pv-u5c")
    ctx.assume("ledger side of a transaction = pallas-traverse accessors (inputs, outputs, value, fee, validity); datum trees and "
               "integers straight from pallas-primitives PlutusData; datum hashes recomputed (blake2b-256 of the raw CBOR)")
    ctx.assume("inputs are compared as a set (the mapper emits them sorted); outputs and assets in order")
    ctx.assume("a bignum-encoded (tag 2/3) integer may stay big-integer bytes whatever its size: exactness is the verdict")

    # 1. exhaustive: design model of the mapper's numeric conversions and tree / tx mapping
    mc_cfg, gen_cfg = "MCUtxoRpc.cfg", "GenUtxoRpc.cfg"
    if ctx.thorough:
        # every exponent up to 2^80 and the 2^128 neighbourhood instead of the hand-picked boundaries
        ks = "{%s}" % ", ".join(str(k) for k in list(range(0, 81)) + [127, 128, 129])
        for name in ("MCUtxoRpc.cfg", "GenUtxoRpc.cfg"):
            src = open(os.path.join(vlib.SPEC, SPEC, name)).read()
            open(ctx.path(name), "w").write(re.sub(r"Ks = \{[^}]*\}", "Ks = " + ks, src))
        mc_cfg, gen_cfg = ctx.path("MCUtxoRpc.cfg"), ctx.path("GenUtxoRpc.cfg")
    ctx.tlc_mc(SPEC, "MCUtxoRpc", mc_cfg, workers=4 if ctx.thorough else 2, timeout=2400,
               required_actions=["CallMapPlutusBigInt", "CallMapPlutusDatum", "CallMapTx"])

    # 2. M1: TLC vectors -> both mappers
    vec = ctx.path("vec.ndjson")
    n = ctx.tlc_gen(SPEC, "GenUtxoRpc", gen_cfg, vec, timeout=2400)
    tr1 = ctx.path("ints.ndjson")
    info = json.loads(ctx.run_bin(binary, ["u5c-ints", "--vec", vec, "--out", tr1]).strip().splitlines()[-1])
    with open(vec) as f:
        lines = f.readlines()
    ctx.sample({"tlc_vector": json.loads(next(x for x in lines if '"buint"' in x and '"int"' in x))})
    ctx.cov["int_and_datum_vectors"] = n
    found = _validate(ctx, tr1, "ints", True)
    ctx.cov["traces_validated_against_impl"] += n
    ctx.cov["evaluations"] += info["events"]
    out1 = open(ctx.path("tlc_tr_TraceUtxoRpc_ints_ndjson.out")).read()
    drifts = re.findall(r'<<\s*"DRIFT",\s*(\d+)', out1)
    ctx.cov["design_model_drift"] = len(drifts)
    evs1 = vlib.read_ndjson(tr1)
    for d in drifts[:4]:
        e = evs1[int(d) - 1]
        ctx.notes.append("DRIFT (%s): %s mapped to %s, the design model gives %s" % (e["ver"], json.dumps(e["l"]), json.dumps(e["rpc"]), json.dumps(e.get("want", e["l"]))))

    # 3. M3: all blocks / transactions of test_data
    tr2 = ctx.path("blocks.ndjson")
    args = ["u5c-blocks", "--tier", "thorough" if ctx.thorough else "quick", "--seed", ctx.seed, "--out", tr2]
    info2 = json.loads(ctx.run_bin(binary, args).strip().splitlines()[-1])
    ctx.cov["test_data_blocks"] = info2["blocks"]
    ctx.cov["test_data_txs"] = info2["txs"]
    ctx.cov["test_data_skipped_undecodable"] = info2["skipped"]
    found += _validate(ctx, tr2, "blocks", True)
    ctx.cov["traces_validated_against_impl"] += info2["blocks"] + info2["txs"]
    ctx.cov["evaluations"] += info2["events"]
    evs2 = vlib.read_ndjson(tr2)
    e = next(x for x in evs2 if x["ev"] == "tx" and x["l"]["outputs"])
    ctx.sample({"impl_trace_tx": {"src": e["src"], "ver": e["ver"], "hash": e["l"]["hash"], "fee": [e["l"]["fee"], e["r"]["fee"]],
                                  "output0_ledger": {k: (v if k != "datum" else "...") for k, v in e["l"]["outputs"][0].items()}}})

    # 4. binding self-test
    if not found:
        idx = next(i for i, x in enumerate(evs1) if x["ev"] == "int" and x["rpc"]["cls"] == "buint" and x["rpc"]["bytes"])
        t = [json.loads(json.dumps(x)) for x in evs1[: idx + 5]]
        t[idx]["rpc"]["bytes"][-1] ^= 1
        p1 = ctx.path("ints_corrupt.ndjson")
        vlib.write_ndjson(p1, t)
        ok1, m1, _, _ = ctx.tlc_trace(SPEC, "TraceUtxoRpc", "TraceUtxoRpc.cfg", p1, count=False)
        ctx.selftest("last byte of a mapped big integer flipped (event %d)" % (idx + 1), (not ok1) and m1 == idx)
        idx2 = next(i for i, x in enumerate(evs2) if x["ev"] == "tx" and len(x["r"]["outputs"]) > 1)
        t2 = [json.loads(json.dumps(x)) for x in evs2[: idx2 + 3]]
        t2[idx2]["r"]["outputs"][1]["coin"] = t2[idx2]["r"]["outputs"][0]["coin"] if t2[idx2]["r"]["outputs"][0]["coin"] != t2[idx2]["r"]["outputs"][1]["coin"] else {"cls": "int", "v": {"neg": False, "mag": [7]}}
        p2 = ctx.path("blocks_corrupt.ndjson")
        vlib.write_ndjson(p2, t2)
        ok2, m2, _, _ = ctx.tlc_trace(SPEC, "TraceUtxoRpc", "TraceUtxoRpc.cfg", p2, count=False)
        ctx.selftest("coin of the second output replaced (event %d)" % (idx2 + 1), (not ok2) and m2 == idx2)
        idx4 = next(i for i, x in enumerate(evs1) if x["ev"] == "out" and x["enc"] == "wide")
        t4 = [json.loads(json.dumps(x)) for x in evs1[max(0, idx4 - 3): idx4 + 3]]
        k4 = idx4 - max(0, idx4 - 3)
        t4[k4]["r"]["dhash"] = t4[k4]["r"]["dhash"][:-1] + ("0" if t4[k4]["r"]["dhash"][-1] != "0" else "1")
        p4 = ctx.path("out_corrupt.ndjson")
        vlib.write_ndjson(p4, t4)
        ok4, m4, _, _ = ctx.tlc_trace(SPEC, "TraceUtxoRpc", "TraceUtxoRpc.cfg", p4, count=False)
        ctx.selftest("datum hash of a mapped output (non-minimal wire encoding) altered", (not ok4) and m4 == k4)
        t3 = [json.loads(json.dumps(x)) for x in evs2[: idx2 + 3]]
        t3[idx2]["r"]["inputs"] = t3[idx2]["r"]["inputs"][1:]
        p3 = ctx.path("blocks_dropped.ndjson")
        vlib.write_ndjson(p3, t3)
        ok3, m3, _, _ = ctx.tlc_trace(SPEC, "TraceUtxoRpc", "TraceUtxoRpc.cfg", p3, count=False)
        ctx.selftest("one mapped input dropped (event %d)" % (idx2 + 1), (not ok3) and m3 == idx2)

    return ctx.finish(
        rule="MC: boundary integers 2^k+-2 (k<=128, both signs, both encodings), datum trees, transactions with u64 edge "
             "coins: mapper model exact and structure-preserving; M1/M3: %d TLC vectors through both real mappers "
             "(datum and inline-datum output) validated for exactness, and %d blocks / %d transactions of test_data "
             "validated against Preserve" % (n, info2["blocks"], info2["txs"]),
        exhaustive=False)
