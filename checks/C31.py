"""C31 - UTxO effects of a transaction follow the phase-2 validity rule.

spec/traverse/UtxoEffects.tla
  MC : MCUtxoEffects - every projected transaction over a 3-reference alphabet (inputs <= 3 with duplicates,
       collateral <= 2, 0..2 outputs, both flags, with/without collateral return, Alonzo/Babbage in MC, + Conway in M1); laws of the
       observers and uniqueness of the sorted set
  M1 : GenUtxoEffects - expected consumes / produces / produces_at / sorted set for each of them -> synthetic
       transactions encoded by the harness, decoded by MultiEraTx::decode_for_era, observers compared
  M3 : every transaction of the test_data blocks and .tx files (thorough: + immutable-DB chunk blocks), re-assembled
       from the wire bytes under both validity flags, projected from the raw CBOR; the observers' results validated by
       TraceUtxoEffects
"""
import json
import os
import vlib

SPEC_DIR = "traverse"


def run(ctx):
    binary = ctx.build("pv-traverse")
    ctx.assume("transaction ids are interned order-preservingly (rank among the ids of the transaction); outputs are "
               "identified by (address bytes, lovelace) fingerprints read from the wire bytes")
    ctx.assume("scripts failed <=> the transaction's validity flag is false (the flag is set by the harness when it "
               "re-assembles [body, witnesses, flag, aux])")

    refs = "Refs4" if ctx.thorough else "Refs3"
    # 1. exhaustive model check
    cfg = ctx.path("MC.cfg")
    src = open(os.path.join(vlib.SPEC, SPEC_DIR, "MCUtxoEffects.cfg")).read()
    if ctx.thorough:
        src = src.replace("MaxOut = 2", "MaxOut = 3")
    open(cfg, "w").write(src.replace("Refs3", refs))
    ctx.tlc_mc(SPEC_DIR, "MCUtxoEffects", cfg, workers=4, timeout=1700,
               required_actions=["CallConsumes", "CallProduces", "CallProducesAt", "CallSortedSet"])

    # 2. M1: TLC vectors -> synthetic transactions -> real observers
    gcfg = ctx.path("Gen.cfg")
    src = open(os.path.join(vlib.SPEC, SPEC_DIR, "GenUtxoEffects.cfg")).read()
    if ctx.thorough:
        src = src.replace("MaxOut = 2", "MaxOut = 3")
    open(gcfg, "w").write(src.replace("Refs3", refs))
    vec = ctx.path("vectors.ndjson")
    n = ctx.tlc_gen(SPEC_DIR, "GenUtxoEffects", gcfg, vec, timeout=1700)
    res = ctx.path("replay_results.ndjson")
    ctx.run_bin(binary, ["utxo-replay", "--in", vec, "--out", res])
    rows = vlib.read_ndjson(res)
    if len(rows) != n:
        raise vlib.ToolError("replay returned %d results for %d vectors" % (len(rows), n))
    ctx.cov["traces_validated_against_impl"] += len(rows)
    ctx.cov["evaluations"] += len(rows)
    ctx.cov["m1_vectors"] = len(rows)
    with open(vec) as f:
        for i, line in enumerate(f):
            if i == 5000:
                ctx.sample({"tlc_vector": json.loads(line)})
                break
    seen = set()
    for r in rows:
        if r["ok"]:
            continue
        if r["why"] in ("decode", "panic"):
            key = "m1/%s/%s" % (r["why"], r["tx"]["era"])
        else:
            key = "m1/%s/%s/%s" % (r["why"][0], r["era"], "valid" if r["valid"] else "invalid")
        if key in seen:
            continue
        seen.add(key)
        ctx.report(key, "MultiEraTx observers differ from UtxoEffects on a generated transaction: %s" % json.dumps(r)[:700], payload=r)
    drift = [r for r in rows if r.get("drift")]
    ctx.cov["m1_order_drift"] = len(drift)
    for r in drift[:2]:
        ctx.notes.append("DRIFT (order only, not part of C31): %s on %s" % (r["drift"], json.dumps(r.get("want", {}).get("tx"))))

    # 3. M3: corpus transactions under both flags -> trace spec
    tr_all = ctx.path("trace_all.ndjson")
    args = ["utxo-trace", "--seed", ctx.seed, "--out", tr_all]
    if ctx.thorough:
        args += ["--chunk-blocks", 2000, "--per-block", 40]
    ctx.run_bin(binary, args)
    allev = vlib.read_ndjson(tr_all)
    events = [e for e in allev if e["ev"] in ("tx", "panic")]
    stats = [e for e in allev if e["ev"] == "stats"][0]
    skips = [e for e in allev if e["ev"] == "skip"]
    if len(events) < 500:
        raise vlib.ToolError("corpus trace too small: %d events" % len(events))
    txs = [e for e in events if e["ev"] == "tx"]
    ctx.cov["m3_events"] = len(events)
    ctx.cov["m3_transactions"] = stats["txs"]
    ctx.cov["m3_skipped"] = [{"src": e["src"], "why": e["why"]} for e in skips][:10]
    ctx.cov["m3_with_collateral"] = sum(1 for e in txs if e["tx"]["collateral"])
    ctx.cov["m3_with_collateral_return"] = sum(1 for e in txs if e["tx"]["collret"])
    ctx.cov["m3_with_duplicate_inputs"] = sum(1 for e in txs if len(set(map(tuple, e["tx"]["inputs"]))) < len(e["tx"]["inputs"]))
    ctx.cov["m3_invalid_flag"] = sum(1 for e in txs if not e["tx"]["valid"])
    ctx.cov["m3_eras"] = sorted(set(e["tx"]["era"] for e in txs))
    tr = ctx.path("trace.ndjson")
    vlib.write_ndjson(tr, events)
    # Strict = TRUE only adds conjuncts: acceptance there implies acceptance by the verdict configuration
    ok_s, m_s, total, first_s = ctx.tlc_trace(SPEC_DIR, "TraceUtxoEffects", "TraceUtxoEffectsStrict.cfg", tr)
    ctx.cov["traces_validated_against_impl"] += len(events)
    ctx.cov["evaluations"] += len(events)
    ctx.sample({"impl_trace_event": next(e for e in txs if e["tx"]["collateral"] and not e["tx"]["valid"])})
    if not ok_s:
        # resume after each rejected event (events are independent but numbered: renumber the rest)
        cur = events
        rounds = 0
        while rounds < 6:
            p = ctx.path("verdict_%d.ndjson" % rounds)
            vlib.write_ndjson(p, cur)
            ok, m, _, first = ctx.tlc_trace(SPEC_DIR, "TraceUtxoEffects", "TraceUtxoEffects.cfg", p, count=False)
            if ok:
                break
            tx = first.get("tx", {})
            key = "trace/%s/%s/%s" % (first.get("ev"), tx.get("era", "?"), "valid" if tx.get("valid") else "invalid")
            ctx.report(key, "observers of %s (%s) not allowed by UtxoEffects: %s" % (first.get("src"), first.get("flag"), json.dumps(first)[:600]),
                       payload={"event": first})
            rest = [dict(e) for e in cur[m + 1:]]
            for k, e in enumerate(rest):
                e["seq"] = k + 1
            cur = rest
            rounds += 1
            if not cur:
                break
        if not ctx.violations and not ctx.known_hits:
            ctx.notes.append("DRIFT design model (order of consumes / produces) rejects event %d: %s" % (m_s + 1, json.dumps(first_s)[:400]))

    # 4. binding self-test
    if not ctx.violations:
        head = [json.loads(json.dumps(e)) for e in events[:120]]
        idx = next(i for i, e in enumerate(head) if i > 30 and e["ev"] == "tx" and e["consumes"])
        c1 = [json.loads(json.dumps(e)) for e in head]
        c1[idx]["produces_at"][0] = c1[idx]["produces_at"][0] + 1
        p1 = ctx.path("selftest_at.ndjson")
        vlib.write_ndjson(p1, c1)
        ok1, m1, _, _ = ctx.tlc_trace(SPEC_DIR, "TraceUtxoEffects", "TraceUtxoEffects.cfg", p1, count=False)
        ctx.selftest("corrupt produces_at[0] of event %d" % (idx + 1), (not ok1) and m1 == idx)
        c2 = [json.loads(json.dumps(e)) for e in head]
        c2[idx]["consumes"] = c2[idx]["consumes"] + c2[idx]["consumes"][:1]
        p2 = ctx.path("selftest_dup.ndjson")
        vlib.write_ndjson(p2, c2)
        ok2, m2, _, _ = ctx.tlc_trace(SPEC_DIR, "TraceUtxoEffects", "TraceUtxoEffects.cfg", p2, count=False)
        ctx.selftest("duplicate a consumed input in event %d" % (idx + 1), (not ok2) and m2 == idx)
        c3 = [e for i, e in enumerate(head) if i != idx]
        p3 = ctx.path("selftest_drop.ndjson")
        vlib.write_ndjson(p3, c3)
        ok3, m3, _, _ = ctx.tlc_trace(SPEC_DIR, "TraceUtxoEffects", "TraceUtxoEffects.cfg", p3, count=False)
        ctx.selftest("drop event %d" % (idx + 1), (not ok3) and m3 == idx)

    return ctx.finish(
        rule="MC: all projected transactions over %s (inputs<=3, collateral<=2, outputs<=%d, both flags, +-collateral "
             "return, 3 eras); M1: each of them built as CBOR, decoded and observed through MultiEraTx; M3: every corpus "
             "transaction under both validity flags, projection from the wire bytes, observers validated by "
             "TraceUtxoEffects" % (refs, 3 if ctx.thorough else 2),
        exhaustive=False)
