"""C29 - P2P behaviours never panic on peer-driven input.

spec/p2p/Initiator.tla, Responder.tla (design models, total: every command / interface event has a successor in
                                        every state)
  MC   : MCInitiator slices with an UNCONSTRAINED environment (any event, any message of the slice protocols,
         valid or not, in any state); the only modelled panics are the Rust assertions / unsigned subtractions;
         invariant  pan \\subseteq known C29 classes,  NoUnderflow;  MCResponder: all events, all message kinds of all
         protocols and all commands in every state (2 peers behind one IP, per-IP limit 1)
  M2   : TLC's panic schedules + a behaviour cover replayed into the real InitiatorBehavior; a behaviour cover of
         MCResponder replayed into the real ResponderBehavior
  M3   : seeded random event sequences (<= 300 events, arbitrary messages of all protocols, errors, disconnects)
         on the real Initiator- and ResponderBehavior under catch_unwind; verdict = TraceNoPanic (TLC);
         small runs are also compared step by step with the design model (TraceInitiator; mismatch = DRIFT note)
"""
import json
import os
import re
import sys

import vlib

sys.path.insert(0, os.path.join(vlib.SPEC, "p2p"))
import p2pcheck as pc  # noqa: E402


def panic_key(events, line, payload):
    reset, _ = pc.run_of(events, line)
    beh = "responder" if reset.get("cfg", {}).get("responder") else "initiator"
    msg = payload.get("msg", "")
    if "state.handshake" in msg:
        slug = "propose_handshake-assert"
    elif "subtract with overflow" in msg:
        slug = "subtract-overflow"
    elif "add with overflow" in msg:
        slug = "add-overflow"
    else:
        slug = re.sub(r"[^A-Za-z0-9]+", "-", msg).strip("-")[:48] or "panic"
    a = payload.get("a", "?")
    if a == "connected" and payload.get("pre_conn") in ("Connected", "Initialized"):
        a = "connected-dup"
    return "%s/%s/%s" % (beh, a, slug)


def judge(ctx, trace, what):
    """TraceNoPanic on one implementation trace; reports every panic TLC rejected."""
    ok, matched, total, first, marks = pc.validate(ctx, "TraceNoPanic", trace)
    events = vlib.read_ndjson(trace)
    if not ok:
        raise vlib.ToolError("malformed trace %s at event %d: %s" % (trace, matched + 1, json.dumps(first)[:300]))
    n = 0
    for tag, line, payload in marks:
        if tag != "BAD":
            continue
        n += 1
        key = panic_key(events, line, payload)
        runfile, _ = pc.save_run(ctx, events, line, "panic_run_%d" % line)
        ctx.report(key, "%s: the real behaviour panicked on event %s (peer %s) after %d steps of the run: %s" % (
            what, payload.get("a"), events[line - 1].get("p"), payload.get("after_steps", -1), payload.get("msg")),
            payload={"panic": payload, "event": pc.slim(events[line - 1])}, src_file=runfile)
    ctx.cov["evaluations"] += total
    return n, total


def drift(ctx, trace, what, module="TraceInitiator"):
    ok, matched, total, first, marks = pc.validate(ctx, module, trace, count=False)
    d = [(line, p) for tag, line, p in marks if tag == "DRIFT"]
    if not ok:
        ctx.notes.append("DRIFT(%s): design-model comparison stopped at event %d: %s" % (what, matched + 1, json.dumps(first)[:200]))
    for line, p in d[:5]:
        ctx.notes.append("DRIFT(%s): implementation step %d not reproduced by the design model (%s): %s" % (
            what, line, module, json.dumps(p)[:200]))
    ctx.count("design_model_steps_compared", total)
    ctx.count("design_model_drift", len(d) + (0 if ok else 1))
    return len(d)


def run(ctx):
    binary = ctx.build("pv-p2p")
    ctx.assume("interface events are delivered one at a time (Recv carries one message; handle_io loops over the vector, "
               "so a k-message Recv equals k single ones)")
    ctx.assume("peer n is PeerId 10.0.0.n:3000; payloads are canned per message kind")

    # 1. exhaustive: design model, unconstrained environment, all events in all reachable states
    slices = [("MCInitiatorC29.cfg", "C29a", {})]
    if ctx.thorough:
        slices = [("MCInitiatorC29.cfg", "C29a", {"MaxDepth": "7"}),
                  ("MCInitiatorC29.cfg", "C29b", {"SliceProtos": '{"handshake", "blockfetch", "chainsync"}', "MaxDepth": "6",
                                                  "Cmds": '{"include", "hk", "startsync", "contsync", "reqblocks", "demote"}'}),
                  ("MCInitiatorC29.cfg", "C29c", {"SliceProtos": '{"handshake", "leiosnotify", "leiosfetch", "txsubmission"}',
                                                  "Versions": "{13, 15}", "MaxDepth": "6",
                                                  "Cmds": '{"include", "hk", "fetcheb", "fetchebtxs", "ban"}'})]
    else:
        slices.append(("MCInitiatorC29.cfg", "C29b", {"SliceProtos": '{"handshake", "blockfetch", "chainsync", "leiosnotify", "leiosfetch", "txsubmission"}',
                                                      "Versions": "{13, 15}", "MaxDepth": "5", "Peers": "{1}", "MaxPeers": "1",
                                                      "Cmds": '{"include", "hk", "startsync", "contsync", "reqblocks", "fetcheb", "fetchebtxs"}'}))
    rows, model_classes = [], set()
    for base, name, ov in slices:
        scheds, classes, consts = pc.mc_slice(ctx, base, name, ov)
        model_classes |= classes["c29"]
        find, cover = pc.select(ctx, scheds, 400 if ctx.thorough else 150)
        cfg = pc.run_cfg_from_consts(consts, strict=False)
        for i, s in enumerate(find + cover):
            rows.append({"id": "%s-%s%d" % (name, s["kind"][0], i), "cfg": cfg, "sched": s["sched"],
                         "expect": s["c29"] if s["kind"] == "finding" else []})

    # responder design model: totality (all events / messages / commands in all states within the bound)
    rcfg = ctx.path("MCResponder.cfg")
    src = open(os.path.join(vlib.SPEC, "p2p", "MCResponder.cfg")).read()
    open(rcfg, "w").write(src.replace("RMaxDepth = 4", "RMaxDepth = %d" % (4 if ctx.thorough else 3)))
    rres = ctx.tlc_mc("p2p", "MCResponder", rcfg, workers=4,
                      required_actions=["RIoConnected", "RIoDisconnected", "RIoError", "RIoRecv", "RIoSent", "RCmdHousekeeping",
                                        "RCmdBan", "RCmdDisconnect", "RCmdProvide"])
    rscheds, seen = [], set()
    for m in ctx.VEC_RE.finditer(rres["out"]):
        t = json.loads(m.group(2).replace("\n", ""))
        if t not in seen:
            seen.add(t)
            rscheds.append(json.loads(t))
    _, rcover = pc.select(ctx, rscheds, 4000 if ctx.thorough else 1200)
    rin, rtrace = ctx.path("m2resp.sched.ndjson"), ctx.path("m2resp.trace.ndjson")
    pc.write_schedules(rin, [{"id": "resp-c%d" % i, "sched": s["sched"]} for i, s in enumerate(rcover)])
    ctx.run_bin(binary, ["resp-run", "--in", rin, "--out", rtrace])
    ctx.cov["traces_validated_against_impl"] += len(rcover)
    ctx.cov["responder_schedules_replayed"] = len(rcover)
    judge(ctx, rtrace, "TLC schedule replay (responder)")
    drift(ctx, rtrace, "M2-responder", module="TraceResponder")

    # 2. M2: TLC schedules -> real InitiatorBehavior
    trace, res = pc.replay(ctx, binary, rows, "m2")
    ctx.cov["traces_validated_against_impl"] += len(rows)
    ctx.cov["schedules_replayed"] = len(rows)
    ctx.sample({"tlc_schedule": rows[0]["sched"][:6]})
    n_m2, _ = judge(ctx, trace, "TLC schedule replay")
    drift(ctx, trace, "M2")
    # (whether model and code agree on WHICH steps panic is part of the TraceInitiator comparison above)
    ctx.cov["schedules_ending_in_a_panic_on_the_real_code"] = sum(1 for r in res if r["panicked"])
    ctx.cov["model_panic_classes"] = sorted(model_classes)

    # 3. M3: seeded random runs, initiator and responder
    runs = 40 if ctx.thorough else 10
    tr_i = ctx.path("rand_init.ndjson")
    out = ctx.run_bin(binary, ["init-random", "--mode", "c29", "--seed", ctx.seed, "--runs", runs, "--events", 300,
                               "--peers", 6, "--out", tr_i])
    ctx.sample({"initiator_random_driver": json.loads(out)["stats"]})
    tr_r = ctx.path("rand_resp.ndjson")
    out = ctx.run_bin(binary, ["resp-random", "--seed", ctx.seed, "--runs", runs, "--events", 300, "--peers", 6, "--out", tr_r])
    ctx.sample({"responder_random_driver": json.loads(out)["stats"]})
    n_i, _ = judge(ctx, tr_i, "random initiator run")
    n_r, _ = judge(ctx, tr_r, "random responder run")
    drift(ctx, tr_r, "M3-responder", module="TraceResponder")
    ctx.cov["traces_validated_against_impl"] += 2 * runs
    ctx.sample({"impl_trace_event": pc.slim(vlib.read_ndjson(tr_i)[3])})
    # small runs compared with the design model step by step (arbitrary input included)
    tr_s = ctx.path("rand_small.ndjson")
    sruns = 24 if ctx.thorough else 8
    ctx.run_bin(binary, ["init-random", "--mode", "c29", "--seed", int(ctx.seed) + 1000, "--runs", sruns, "--events", 150,
                         "--peers", 4, "--snap", 1, "--out", tr_s])
    judge(ctx, tr_s, "random initiator run (small)")
    drift(ctx, tr_s, "M3-small")
    ctx.cov["traces_validated_against_impl"] += sruns

    # 4. binding self-test: a panic event must be rejected; a malformed event must not be consumed
    if not ctx.violations:
        ev = vlib.read_ndjson(tr_r)[:60]
        idx = 30
        bad = [dict(e) for e in ev]
        bad[idx] = {"ev": "panic", "a": bad[idx].get("ev"), "p": bad[idx].get("p", 0), "m": bad[idx].get("m"),
                    "msg": "selftest", "pre_conn": "-", "pre_hs": "-"}
        p1 = ctx.path("selftest_panic.ndjson")
        vlib.write_ndjson(p1, bad)
        _, _, _, _, marks = pc.validate(ctx, "TraceNoPanic", p1, count=False)
        ctx.selftest("event %d replaced by a panic event" % (idx + 1), any(t == "BAD" and l == idx + 1 for t, l, _ in marks))
        mal = [dict(e) for e in ev]
        del mal[idx]["out"]
        p2 = ctx.path("selftest_malformed.ndjson")
        vlib.write_ndjson(p2, mal)
        ok2, m2, _, _, _ = pc.validate(ctx, "TraceNoPanic", p2, count=False)
        ctx.selftest("event %d without outputs" % (idx + 1), (not ok2) and m2 == idx)
        # the design-model comparison must notice a corrupted snapshot field
        ci = next(i for i, e in enumerate(ev) if i > 20 and e.get("ev") == "recv" and e.get("peers"))
        cor = json.loads(json.dumps(ev[:ci + 5]))
        cor[ci]["peers"][0]["ka"] = "Server" if cor[ci]["peers"][0]["ka"] != "Server" else "Client"
        p3 = ctx.path("selftest_snapshot.ndjson")
        vlib.write_ndjson(p3, cor)
        _, _, _, _, marks = pc.validate(ctx, "TraceResponder", p3, count=False)
        ctx.selftest("keep-alive state class of a peer flipped at event %d" % (ci + 1),
                     any(t == "DRIFT" and l == ci + 1 for t, l, _ in marks))

    return ctx.finish(
        rule="MC: Initiator.tla with an unconstrained environment (2 peers, every event and every message kind of the "
             "slice protocols in every state reachable within the depth bound) - the only panics are the known classes; "
             "M2: TLC's panic schedules and a behaviour cover replayed into InitiatorBehavior; M3: seeded random runs "
             "(<= 300 events, 6 peers, arbitrary messages of all 8 protocols, errors, disconnects, unsolicited Connected) on "
             "Initiator- and ResponderBehavior under catch_unwind, judged by TraceNoPanic; small runs compared step by "
             "step with the design model",
        exhaustive=False)
