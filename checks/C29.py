"""C29 - P2P behaviours never panic on peer-driven input.

spec/p2p/Initiator.tla, Responder.tla (design models, total: every command / interface event has a successor in
                                        every state)
  MC   : MCInitiator slices with an UNCONSTRAINED environment (any event, any message of the slice protocols,
         valid or not, in any state); the only modelled panics are the Rust assertions / unsigned subtractions;
         invariant  pan \\subseteq known C29 classes,  NoUnderflow;  MCResponder: all events, all message kinds of all
         protocols and all commands in every state (2 peers behind one IP, per-IP limit 1)
  M2   : TLC's panic schedules + a behaviour cover replayed into the real InitiatorBehavior; a behaviour cover of
         MCResponder replayed into the real ResponderBehavior
  M3   : seeded random event sequences (<= 300 events, arbitrary messages of all protocols, errors, disconnects)
         on the real Initiator- and ResponderBehavior under catch_unwind; verdict = TraceNoPanic (TLC);
         small runs are also compared step by step with the design model (TraceInitiator; mismatch = DRIFT note)
"""
import json
import os
import re
import sys

import vlib

sys.path.insert(0, os.path.join(vlib.SPEC, "p2p"))
import p2pcheck as pc  # noqa: E402


def panic_key(events, line, payload):
    reset, _ = pc.run_of(events, line)
    beh = "responder" if reset.get("cfg", {}).get("responder") else "initiator"
    msg = payload.get("msg", "")
    if "state.handshake" in msg:
        slug = "propose_handshake-assert"
    elif "subtract with overflow" in msg:
        slug = "subtract-overflow"
    elif "add with overflow" in msg:
        slug = "add-overflow"
    else:
        slug = re.sub(r"[^A-Za-z0-9]+", "-", msg).strip("-")[:48] or "panic"
    a = payload.get("a", "?")
    if a == "connected" and payload.get("pre_conn") in ("Connected", "Initialized"):
        a = "connected-dup"
    # TLC (TraceNoPanic + Lifecycle.tla) says whether the run up to the panic respected the connection lifecycle a
    # TcpInterface guarantees; a panic reached by an impossible event sequence is a different class
    suffix = "" if payload.get("lifecycle_ok") else "/lifecycle-violating"
    return "%s/%s/%s%s" % (beh, a, slug, suffix)


def judge(ctx, bundle, marks):
    """TraceNoPanic verdict over the bundled real runs: every panic TLC rejected (self-test parts excluded)."""
    events = bundle.events
    n = 0
    for tag, line, payload in marks:
        label, local = bundle.part_of(line)
        if tag != "BAD" or label.startswith("selftest"):
            continue
        n += 1
        key = panic_key(events, line, payload)
        runfile, _ = pc.save_run(ctx, events, line, "panic_run_%d" % line)
        ctx.report(key, "%s: the real behaviour panicked on event %s (peer %s) after %d steps of the run: %s" % (
            label, payload.get("a"), events[line - 1].get("p"), payload.get("after_steps", -1), payload.get("msg")),
            payload={"panic": payload, "event": pc.slim(events[line - 1])}, src_file=runfile)
    return n


def drift_notes(ctx, bundle, module, ok, matched, total, first, marks):
    d = [(line, p) for tag, line, p in marks if tag == "DRIFT" and not bundle.part_of(line)[0].startswith("selftest")]
    if not ok:
        ctx.notes.append("DRIFT(%s): design-model comparison stopped at event %d: %s" % (module, matched + 1, json.dumps(first)[:200]))
    for line, p in d[:5]:
        ctx.notes.append("DRIFT(%s): implementation step %d not reproduced by the design model (%s): %s" % (
            bundle.part_of(line)[0], line, module, json.dumps(p)[:200]))
    ctx.count("design_model_steps_compared", total)
    ctx.count("design_model_drift", len(d) + (0 if ok else 1))
    return d


def responder_mc(ctx, name, depth, protos=None, cmds=None):
    src = open(os.path.join(vlib.SPEC, "p2p", "MCResponder.cfg")).read()
    src = src.replace("RMaxDepth = 4", "RMaxDepth = %d" % depth)
    if protos:
        src = re.sub(r"RProtos = .*", "RProtos = " + protos, src)
    if cmds:
        src = re.sub(r"RCmds = .*", "RCmds = " + cmds, src)
    cfg = ctx.path(name + ".cfg")
    open(cfg, "w").write(src)
    offered = re.findall(r'"([\w-]+)"', re.search(r"RCmds = (.*)", src).group(1))
    req = ["RIoConnected", "RIoDisconnected", "RIoError", "RIoRecv", "RIoSent"]
    opt = {"hk": "RCmdHousekeeping", "ban": "RCmdBan", "disconnect-peer": "RCmdDisconnect", "provide": "RCmdProvide"}
    req += [a for k, a in opt.items() if k in offered]
    res = ctx.tlc_mc("p2p", "MCResponder", cfg, workers=4, required_actions=req,
                     allow_zero=[a for k, a in opt.items() if k not in offered])
    out, seen = [], set()
    for m in ctx.VEC_RE.finditer(res["out"]):
        t = json.loads(m.group(2).replace("\n", ""))
        if t not in seen:
            seen.add(t)
            out.append(json.loads(t))
    return out


def run(ctx):
    binary = ctx.build("pv-p2p")
    ctx.assume("interface events are delivered one at a time (Recv carries one message; handle_io loops over the vector, "
               "so a k-message Recv equals k single ones)")
    ctx.assume("peer n is PeerId 10.0.0.n:3000; payloads are canned per message kind")

    t = ctx.thorough
    # 1. exhaustive: design models, unconstrained environment, all events in all reachable states
    slices = [("MCInitiatorC29.cfg", "C29a", {"MaxDepth": "7" if t else "6"})]
    if t:
        slices += [("MCInitiatorC29.cfg", "C29b", {"SliceProtos": '{"handshake", "blockfetch", "chainsync"}', "MaxDepth": "6",
                                                   "Cmds": '{"include", "hk", "startsync", "contsync", "reqblocks", "demote"}'}),
                   ("MCInitiatorC29.cfg", "C29c", {"SliceProtos": '{"handshake", "leiosnotify", "leiosfetch", "txsubmission"}',
                                                   "Versions": "{13, 15}", "MaxDepth": "6",
                                                   "Cmds": '{"include", "hk", "fetcheb", "fetchebtxs", "ban"}'})]
    rows, model_classes = [], set()
    for base, name, ov in slices:
        scheds, classes, consts = pc.mc_slice(ctx, base, name, ov)
        model_classes |= classes["c29"]
        find, cover = pc.select(ctx, scheds, None, prefix_free=False)
        cfg = pc.run_cfg_from_consts(consts, strict=False)
        for i, s in enumerate(find + cover):
            rows.append({"id": "%s-%s%d" % (name, s["kind"][0], i), "cfg": cfg, "sched": s["sched"], "exp": s.get("exp"),
                         "must": s["kind"] == "finding" and bool(s["c29"])})
    ctx.cov["model_panic_classes"] = sorted(model_classes)
    # responder: all protocols' messages + all commands (shallow), and the connection lifecycle (deep)
    rscheds = responder_mc(ctx, "MCResponderAll", 4 if t else 3)
    rscheds += responder_mc(ctx, "MCResponderLife", 7 if t else 6, protos='{"handshake"}', cmds='{"hk", "ban"}')
    _, rcover = pc.select(ctx, rscheds, 6000 if t else 1500)

    # 2. M2: TLC schedules -> real behaviours; 3. M3: seeded random runs, initiator and responder
    trace, res, rows = pc.replay(ctx, binary, rows, "m2", sample=1500 if t else 250)
    ctx.cov["schedules_replayed"] = len(rows)
    ctx.cov["schedules_ending_in_a_panic_on_the_real_code"] = sum(1 for r in res if r["panicked"])
    ctx.sample({"tlc_schedule": rows[0]["sched"][:6]})
    rin, rtrace = ctx.path("m2resp.sched.ndjson"), ctx.path("m2resp.trace.ndjson")
    pc.write_schedules(rin, [{"id": "resp-c%d" % i, "sched": s["sched"]} for i, s in enumerate(rcover)])
    ctx.run_bin(binary, ["resp-run", "--in", rin, "--out", rtrace])
    ctx.cov["responder_schedules_replayed"] = len(rcover)
    runs = 40 if t else 10
    tr_i = ctx.path("rand_init.ndjson")
    out = ctx.run_bin(binary, ["init-random", "--mode", "c29", "--seed", ctx.seed, "--runs", runs, "--events", 300,
                               "--peers", 6, "--out", tr_i])
    ctx.sample({"initiator_random_driver": json.loads(out)["stats"]})
    tr_r = ctx.path("rand_resp.ndjson")
    out = ctx.run_bin(binary, ["resp-random", "--seed", ctx.seed, "--runs", runs, "--events", 300, "--peers", 6, "--out", tr_r])
    ctx.sample({"responder_random_driver": json.loads(out)["stats"]})
    sruns = 24 if t else 8
    tr_s = ctx.path("rand_small.ndjson")
    ctx.run_bin(binary, ["init-random", "--mode", "c29", "--seed", int(ctx.seed) + 1000, "--runs", sruns, "--events", 150,
                         "--peers", 4, "--snap", 1, "--out", tr_s])
    ctx.cov["traces_validated_against_impl"] += len(rows) + len(rcover) + 2 * runs + sruns
    m2, m2r = vlib.read_ndjson(trace), vlib.read_ndjson(rtrace)
    ri, rr, rs = vlib.read_ndjson(tr_i), vlib.read_ndjson(tr_r), vlib.read_ndjson(tr_s)
    ctx.sample({"impl_trace_event": pc.slim(ri[3])})

    # verdict: TraceNoPanic over every real run, one TLC start; self-tests ride along as extra runs
    A = (pc.Bundle().add("TLC schedule replay", m2).add("TLC schedule replay (responder)", m2r)
         .add("random initiator run", ri).add("random responder run", rr).add("random initiator run (small)", rs))
    si = next(i for i in range(30, len(rr)) if "out" in rr[i])
    c1, s1 = pc.run_containing(rr, si, si + 5)
    c1[s1] = {"ev": "panic", "a": c1[s1].get("ev"), "p": c1[s1].get("p", 0), "m": c1[s1].get("m"),
              "msg": "selftest", "pre_conn": "-", "pre_hs": "-"}
    A.add("selftest-panic", c1[:s1 + 1])
    c2, _ = pc.run_containing(rr, si, si + 5)
    del c2[s1]["out"]
    A.add("selftest-malformed", c2)        # must stay last: TLC stops consuming at the malformed event
    pa = A.write(ctx.path("all_runs.ndjson"))
    ok, matched, total, first, marks = pc.validate(ctx, "TraceNoPanic", pa)
    mal = A.first_line("selftest-malformed") + s1
    if matched < mal - 1:
        raise vlib.ToolError("malformed trace at event %d: %s" % (matched + 1, json.dumps(first)[:300]))
    ctx.cov["evaluations"] += matched
    judge(ctx, A, marks)
    if not ctx.violations:
        lp = A.first_line("selftest-panic") + s1
        ctx.selftest("event replaced by a panic event", any(tg == "BAD" and l == lp for tg, l, _ in marks))
        ctx.selftest("event without outputs is not consumed", (not ok) and matched == mal - 1)

    # design-model comparisons (DRIFT only): initiator, responder (with a corrupted snapshot as self-test)
    B = pc.Bundle().add("M2", m2).add("M3-small", rs)
    okb, mb, tb, fb, marksb = pc.validate(ctx, "TraceInitiator", B.write(ctx.path("model_init.ndjson")), count=False)
    drift_notes(ctx, B, "TraceInitiator", okb, mb, tb, fb, marksb)
    C = pc.Bundle().add("M2-responder", m2r).add("M3-responder", rr)
    ci = next(i for i, e in enumerate(rr) if i > 20 and e.get("ev") == "recv" and e.get("peers"))
    c3, k3 = pc.run_containing(rr, ci, ci)
    c3[k3]["peers"][0]["ka"] = "Server" if c3[k3]["peers"][0]["ka"] != "Server" else "Client"
    C.add("selftest-snapshot", c3)
    okc, mc, tc, fc, marksc = pc.validate(ctx, "TraceResponder", C.write(ctx.path("model_resp.ndjson")), count=False)
    drift_notes(ctx, C, "TraceResponder", okc, mc, tc, fc, marksc)
    if not ctx.violations:
        l3 = C.first_line("selftest-snapshot") + k3
        ctx.selftest("keep-alive state class of a responder peer flipped", any(tg == "DRIFT" and l == l3 for tg, l, _ in marksc))

    return ctx.finish(
        rule="MC: Initiator.tla with an unconstrained environment (2 peers, every event and every message kind of the "
             "slice protocols in every state reachable within the depth bound) - the only panics are the known classes; "
             "M2: TLC's panic schedules and a behaviour cover replayed into InitiatorBehavior; M3: seeded random runs "
             "(<= 300 events, 6 peers, arbitrary messages of all 8 protocols, errors, disconnects, unsolicited Connected) on "
             "Initiator- and ResponderBehavior under catch_unwind, judged by TraceNoPanic; small runs compared step by "
             "step with the design model",
        exhaustive=False)
