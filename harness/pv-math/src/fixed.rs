//! C17 — pallas-math `Decimal` against spec/math/FixedPoint.tla.
//!
//! The harness never computes with big numbers: operands are decimal strings
//! handed to `Decimal::from_str(raw, p)` (raw = the scaled integer), results
//! are read back from the printed form and *confirmed* with
//! `Decimal::from_str(candidate, p) == result` (PartialEq compares the raw
//! integer). A result that cannot be confirmed is logged as "unreadable".
use dashu_base::Abs;
use pallas_math::math::{FixedDecimal, FixedPrecision};
use pv_core::serde_json::Value;
use pv_core::*;
use std::cmp::Ordering;

type Dec = FixedDecimal;

fn norm(s: &str) -> String {
    let (neg, d) = match s.strip_prefix('-') {
        Some(d) => (true, d),
        None => (false, s),
    };
    let d = d.trim_start_matches('0');
    if d.is_empty() {
        "0".to_string()
    } else if neg {
        format!("-{d}")
    } else {
        d.to_string()
    }
}

fn mk(raw: &str, p: u64) -> Dec {
    Dec::from_str(raw, p).unwrap_or_else(|_| die(&format!("from_str rejected {raw}")))
}

/// Raw scaled integer of `d`, read from its printed form and confirmed by equality.
fn extract(d: &Dec) -> Option<String> {
    let p = d.precision() as usize;
    let s = d.to_string();
    let (neg, body) = match s.strip_prefix('-') {
        Some(b) => (true, b),
        None => (false, s.as_str()),
    };
    let (ip, fp) = match body.split_once('.') {
        Some((a, b)) => (a, b),
        None => (body, ""),
    };
    if ip.is_empty() || !ip.bytes().all(|c| c.is_ascii_digit()) || !fp.bytes().all(|c| c.is_ascii_digit()) {
        return None;
    }
    let mut digits = String::from(ip);
    if fp.len() <= p {
        digits.push_str(fp);
        digits.push_str(&"0".repeat(p - fp.len()));
    } else {
        let (keep, extra) = fp.split_at(p);
        if !extra.bytes().all(|c| c == b'0') {
            return None;
        }
        digits.push_str(keep);
    }
    let cand = norm(&format!("{}{}", if neg { "-" } else { "" }, digits));
    if mk(&cand, p as u64) == *d {
        Some(cand)
    } else {
        None
    }
}

fn chars_json(s: &str) -> Value {
    Value::Array(s.chars().map(|c| json!(c.to_string())).collect())
}

fn rand_digits(rng: &mut Rng, n: usize) -> String {
    let mut s = String::new();
    for i in 0..n {
        let d = if i == 0 { rng.range(1, 9) } else { rng.below(10) };
        s.push((b'0' + d as u8) as char);
    }
    s
}

fn signed(rng: &mut Rng, mag: String) -> String {
    norm(&if rng.bool() { format!("-{mag}") } else { mag })
}

/// A raw value of one of the interesting classes relative to precision `p`.
fn gen_raw(rng: &mut Rng, p: usize) -> String {
    let zeros = |n: usize| "0".repeat(n);
    let class = rng.below(12);
    let mag = match class {
        0 => "0".to_string(),
        1 => rng.below(1000).to_string(),
        2 => format!("{}{}", rng.below(1_000_000_000), zeros(rng.below(41) as usize)),
        3 | 4 => {
            let k = rng.range(1, 45) as usize;
            rand_digits(rng, k)
        }
        5 => {
            // integral
            let k = rng.range(1, 12) as usize;
            format!("{}{}", rand_digits(rng, k), zeros(p))
        }
        6 if p >= 1 => format!("{}5{}", rng.below(1_000_000), zeros(p - 1)), // exactly half-way
        7 if p >= 1 => {
            // one ulp below / above half-way
            let n = rng.below(1000);
            if rng.bool() {
                format!("{}4{}", n, "9".repeat(p - 1))
            } else if p >= 2 {
                format!("{}5{}1", n, zeros(p - 2))
            } else {
                format!("{}6", n)
            }
        }
        8 if p >= 1 => {
            // one ulp away from an integer
            let n = rng.range(1, 1000);
            if rng.bool() {
                format!("{}{}1", n, zeros(p - 1))
            } else {
                format!("{}{}", n - 1, "9".repeat(p))
            }
        }
        9 if p >= 1 => {
            // pure fraction
            let k = rng.range(1, p as u64) as usize;
            rand_digits(rng, k)
        }
        10 => format!("1{}", zeros(p)), // one
        _ => {
            let k = rng.range(1, 70) as usize;
            rand_digits(rng, k)
        }
    };
    signed(rng, mag)
}

fn ord(o: Option<Ordering>) -> Value {
    match o {
        Some(Ordering::Less) => json!(-1),
        Some(Ordering::Equal) => json!(0),
        Some(Ordering::Greater) => json!(1),
        None => json!("none"),
    }
}

/// M1: vectors from GenFixedPoint: {"p","x","floor","ceil","trunc","round":[..],"print":[chars]} (small ints).
pub fn replay(args: &Args) {
    let vecs = read_ndjson(args.get("in"));
    let mut out = Ndjson::create(args.get("out"));
    for (i, v) in vecs.iter().enumerate() {
        let p = jint(&v["p"]) as u64;
        let x = jint(&v["x"]);
        let d = mk(&x.to_string(), p);
        let mut row = json!({"i": i, "ok": true});
        let raw = |r: Result<Dec, String>| -> Value {
            match r {
                Ok(d) => match extract(&d) {
                    Some(s) => json!(s.parse::<i64>().unwrap_or(i64::MIN)),
                    None => json!({"unreadable": d.to_string()}),
                },
                Err(m) => json!({"panic": m}),
            }
        };
        let checks: [(&str, Value); 4] = [
            ("floor", raw(catch(|| d.floor()))),
            ("ceil", raw(catch(|| d.ceil()))),
            ("trunc", raw(catch(|| d.trunc()))),
            ("round", raw(catch(|| d.round()))),
        ];
        for (name, got) in checks {
            let ok = if name == "round" { jarr(&v["round"]).contains(&got) } else { v[name] == got };
            if !ok && row["ok"] == true {
                row = json!({"i": i, "ok": false, "at": name, "p": p, "x": x, "got": got, "want": v[name]});
            }
        }
        let printed = catch(|| d.to_string());
        let want: String = jarr(&v["print"]).iter().map(|c| jstr(c).to_string()).collect();
        match printed {
            Ok(s) if s == want => {}
            Ok(s) => {
                if row["ok"] == true {
                    row = json!({"i": i, "ok": false, "at": "print", "p": p, "x": x, "got": s, "want": want});
                }
            }
            Err(m) => row = json!({"i": i, "ok": false, "at": "print", "p": p, "x": x, "got": {"panic": m}, "want": want}),
        }
        out.ev(row);
    }
    out.finish();
}

const PRECS: [u64; 10] = [0, 1, 2, 3, 5, 9, 18, 34, 35, 40];

/// M3: a Decimal accumulator driven through the operators, plus rounding and
/// printing of fresh values at several precisions; logged for TraceFixedPoint.
pub fn trace(args: &Args) {
    let mut rng = Rng::new(args.seed());
    let n = args.num("n", 500);
    let nround = args.num("rounds", 300);
    let mut out = Ndjson::create(args.get("out"));
    let p34 = 34u64;

    let mut acc_raw = gen_raw(&mut rng, 34);
    let mut acc = mk(&acc_raw, p34);
    out.ev(json!({"ev": "load", "r": big_json(&acc_raw), "via": "from_str"}));
    let mut i = 0;
    while i < n {
        i += 1;
        let choice = rng.below(20);
        if acc_raw.len() > 64 || choice == 0 {
            if rng.chance(1, 4) {
                let v = (rng.next_u64() >> rng.below(64)) as i64 * if rng.bool() { -1 } else { 1 };
                acc = Dec::from(v);
                match extract(&acc) {
                    Some(r) => {
                        acc_raw = r;
                        out.ev(json!({"ev": "load", "r": big_json(&acc_raw), "via": "from_i64", "n": v.to_string()}));
                    }
                    None => {
                        out.ev(json!({"ev": "unreadable", "at": "from_i64", "printed": acc.to_string()}));
                        acc_raw = "0".into();
                        acc = mk("0", p34);
                        out.ev(json!({"ev": "load", "r": big_json("0"), "via": "from_str"}));
                    }
                }
            } else {
                acc_raw = gen_raw(&mut rng, 34);
                acc = mk(&acc_raw, p34);
                out.ev(json!({"ev": "load", "r": big_json(&acc_raw), "via": "from_str"}));
            }
            continue;
        }
        let b_raw = match rng.below(8) {
            0 => acc_raw.clone(),
            1 => norm(&format!("-{}", acc_raw.trim_start_matches('-'))),
            _ => gen_raw(&mut rng, 34),
        };
        let b = mk(&b_raw, p34);
        let (name, via): (&str, u64) = match choice {
            1..=3 => ("add", rng.below(4)),
            4..=6 => ("sub", rng.below(4)),
            7..=10 => ("mul", rng.below(4)),
            11..=14 => ("div", rng.below(4)),
            15 => ("neg", rng.below(2)),
            16 => ("abs", rng.below(2)),
            _ => ("cmp", 0),
        };
        if name == "div" && b_raw == "0" {
            continue;
        }
        let vias = ["owned", "ref", "assign", "ref-assign"];
        if name == "cmp" {
            let r = catch(|| (acc.partial_cmp(&b), acc == b));
            match r {
                Ok((o, eq)) => out.ev(json!({"ev": "cmp", "a": big_json(&acc_raw), "b": big_json(&b_raw), "r": ord(o), "eq": eq})),
                Err(m) => out.ev(json!({"ev": "panic", "at": "cmp", "msg": m})),
            }
            continue;
        }
        let a0 = acc.clone();
        let res = catch(|| {
            let mut x = a0.clone();
            match (name, via) {
                ("add", 0) => x + b.clone(),
                ("add", 1) => &x + &b,
                ("add", 2) => { x += b.clone(); x }
                ("add", _) => { { let mut r = &mut x; r += &b; } x }
                ("sub", 0) => x - b.clone(),
                ("sub", 1) => &x - &b,
                ("sub", 2) => { x -= b.clone(); x }
                ("sub", _) => { { let mut r = &mut x; r -= &b; } x }
                ("mul", 0) => x * b.clone(),
                ("mul", 1) => &x * &b,
                ("mul", 2) => { x *= b.clone(); x }
                ("mul", _) => { { let mut r = &mut x; r *= &b; } x }
                ("div", 0) => x / b.clone(),
                ("div", 1) => &x / &b,
                ("div", 2) => { x /= b.clone(); x }
                ("div", _) => { { let mut r = &mut x; r /= &b; } x }
                ("neg", 0) => -x,
                ("neg", _) => -&x,
                ("abs", 0) => x.abs(),
                ("abs", _) => (&x).abs(),
                _ => die("bad op"),
            }
        });
        match res {
            Ok(r) => match extract(&r) {
                Some(r_raw) => {
                    let mut e = json!({"ev": name, "a": big_json(&acc_raw), "r": big_json(&r_raw), "via": vias[via as usize]});
                    if name != "neg" && name != "abs" {
                        e["b"] = big_json(&b_raw);
                    }
                    out.ev(e);
                    acc = r;
                    acc_raw = r_raw;
                }
                None => {
                    out.ev(json!({"ev": "unreadable", "at": name, "printed": r.to_string(), "a": big_json(&acc_raw), "b": big_json(&b_raw)}));
                    acc_raw = "0".into();
                    acc = mk("0", p34);
                    out.ev(json!({"ev": "load", "r": big_json("0"), "via": "from_str"}));
                }
            },
            Err(m) => {
                out.ev(json!({"ev": "panic", "at": name, "msg": m, "a": big_json(&acc_raw), "b": big_json(&b_raw)}));
                out.ev(json!({"ev": "load", "r": big_json(&acc_raw), "via": "from_str"}));
            }
        }
    }

    // rounding and printing of fresh values at several precisions
    for k in 0..nround {
        let p = PRECS[(k % PRECS.len() as u64) as usize];
        let x_raw = gen_raw(&mut rng, p as usize);
        let x = mk(&x_raw, p);
        for kind in ["floor", "ceil", "trunc", "round"] {
            let r = catch(|| match kind {
                "floor" => x.floor(),
                "ceil" => x.ceil(),
                "trunc" => x.trunc(),
                _ => x.round(),
            });
            out.ev(match r {
                Ok(r) => match extract(&r) {
                    Some(rr) => json!({"ev": kind, "p": p, "x": big_json(&x_raw), "r": big_json(&rr)}),
                    None => json!({"ev": "unreadable", "at": kind, "p": p, "printed": r.to_string(), "x": big_json(&x_raw)}),
                },
                Err(m) => json!({"ev": "panic", "at": kind, "p": p, "msg": m, "x": big_json(&x_raw)}),
            });
        }
        out.ev(match catch(|| x.to_string()) {
            Ok(s) => json!({"ev": "print", "p": p, "x": big_json(&x_raw), "chars": chars_json(&s)}),
            Err(m) => json!({"ev": "panic", "at": "print", "p": p, "msg": m, "x": big_json(&x_raw)}),
        });
    }
    out.finish();
}
