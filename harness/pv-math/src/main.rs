//! Conformance drivers (pv-math). Sub-commands are added per property.
mod fixed;

fn main() {
    let args = pv_core::Args::parse();
    match args.cmd.as_str() {
        "fixed-replay" => fixed::replay(&args),
        "fixed-trace" => fixed::trace(&args),
        other => pv_core::die(&format!("unknown sub-command {other}")),
    }
}
