//! Conformance drivers for the immutable-DB reader of pallas-hardano (C42, C43).
mod c42;
mod c43;
mod files;

#[global_allocator]
static ALLOC: c43::guard::Guard = c43::guard::Guard;

fn main() {
    let args = pv_core::Args::parse();
    match args.cmd.as_str() {
        "imm-prepare" => c42::prepare(&args),
        "imm-replay" => c42::replay(&args),
        "imm-fault" => c43::parent(&args),
        "imm-fault-child" => c43::child(&args),
        other => pv_core::die(&format!("unknown sub-command {other}")),
    }
}
