//! C42 — immutable-DB reads against spec/immutable/ImmutableDb.tla (M1).
//!
//! `imm-prepare`: copies every subset of the test database's chunk files into
//! scratch directories, extracts their abstract content independently
//! (files.rs), chooses the points to ask and writes the JSON handed to TLC.
//! `imm-replay`: takes TLC's vectors (expected All / Tip / start index per
//! point), runs read_blocks / read_blocks_from_point / get_tip of the real
//! reader and compares block by block (bytes of the independently sliced
//! blocks). Small databases enumerated by TLC are first materialised as files
//! made of real blocks.
use crate::files::*;
use pallas_hardano::storage::immutable::{get_tip, read_blocks, read_blocks_from_point, FallibleBlock, Point};
use pallas_traverse::MultiEraBlock;
use pv_core::*;
use serde_json::Value;
use std::collections::{BTreeSet, HashMap};
use std::path::{Path, PathBuf};

pub const REAL: [(&str, &str); 3] = [("A", "01285"), ("B", "01836"), ("C", "02019")];
/// `E` = an empty chunk file (zero-length .chunk / .secondary, all-zero .primary) at that position
const SUBSETS: [&str; 13] = ["A", "B", "C", "AB", "BC", "ABC", "AC", "EABC", "AEBC", "ABEC", "AEEBC", "EAB", "ABE"];

pub fn load_real(intern: &mut Interner) -> Vec<ChunkFile> {
    let td = test_data();
    let chunks: Vec<ChunkFile> = REAL.iter().map(|(l, n)| parse_chunk(&td, n, intern, *l != "C")).collect();
    // sanity of the independent extraction: every sliced block decodes to the indexed slot / hash
    for c in &chunks {
        for b in &c.blocks {
            let blk = MultiEraBlock::decode(&b.bytes).unwrap_or_else(|e| die(&format!("chunk {} block at {}: {e}", c.name, b.offset)));
            if blk.slot() != b.slot || blk.hash().as_ref() != b.hash {
                die(&format!("chunk {}: secondary entry and block content disagree at offset {}", c.name, b.offset));
            }
        }
    }
    chunks
}

/// the chunk files of a subset, in file-name order; empty ones get names that sort in place
fn subset_chunks(id: &str, chunks: &[ChunkFile]) -> Vec<ChunkFile> {
    let mut out: Vec<ChunkFile> = Vec::new();
    let mut last = 0u32;
    for ch in id.chars() {
        if ch == 'E' {
            last += 1;
            out.push(ChunkFile { name: format!("{:05}", last), blocks: vec![] });
        } else {
            let i = REAL.iter().position(|(l, _)| l.chars().next() == Some(ch)).unwrap_or_else(|| die("bad subset id"));
            last = chunks[i].name.parse().unwrap_or_else(|_| die("chunk name"));
            out.push(chunks[i].clone());
        }
    }
    out
}

pub fn real_dir(work: &Path, id: &str) -> PathBuf {
    work.join("real").join(id)
}

pub fn prepare(args: &Args) {
    let work = PathBuf::from(args.get("work"));
    let thorough = args.opt("tier") == Some("thorough");
    let mut rng = Rng::new(args.seed() ^ 0xC42);
    let mut intern = Interner::default();
    let chunks = load_real(&mut intern);
    let td = test_data();
    let mut dbs = Vec::new();
    for id in SUBSETS {
        let cs = subset_chunks(id, &chunks);
        let dir = real_dir(&work, id);
        for c in &cs {
            if c.blocks.is_empty() && !REAL.iter().any(|(_, n)| *n == c.name) {
                write_triple(&dir, &c.name, &[], &[]);
            } else {
                copy_triple(&td, &c.name, &dir, &c.name);
            }
        }
        let imm: Vec<&BlockRef> = cs[..cs.len() - 1].iter().flat_map(|c| c.blocks.iter()).collect();
        let dropped: Vec<&BlockRef> = cs[cs.len() - 1].blocks.iter().collect();
        let slots: BTreeSet<u64> = imm.iter().map(|b| b.slot).collect();
        let mut q: Vec<Value> = Vec::new();
        let exact = |b: &BlockRef| json!({"k": "exact", "s": b.slot, "h": b.hid});
        // which blocks are start points
        let mut picks: BTreeSet<usize> = BTreeSet::new();
        if thorough {
            picks.extend(0..imm.len());
        } else if !imm.is_empty() {
            let mut pos = 0;
            for c in &cs[..cs.len() - 1] {
                if c.blocks.len() >= 2 {
                    picks.extend([pos, pos + 1, pos + c.blocks.len() - 2, pos + c.blocks.len() - 1]);
                }
                pos += c.blocks.len();
            }
            for _ in 0..24 {
                picks.insert(rng.below(imm.len() as u64) as usize);
            }
        }
        for &i in &picks {
            let b = imm[i];
            q.push(exact(b));
            // absent: right slot, another block's hash
            let other = imm[(i + 1 + rng.below((imm.len() as u64).max(2) - 1) as usize) % imm.len()];
            if other.hid != b.hid {
                q.push(json!({"k": "exact", "s": b.slot, "h": other.hid}));
            }
            // absent: this block's hash one slot later (when no block lives there)
            if !slots.contains(&(b.slot + 1)) {
                q.push(json!({"k": "exact", "s": b.slot + 1, "h": b.hid}));
            }
            // run of fuzzy slots that ends on this block
            let lo = if i == 0 { b.slot } else { imm[i - 1].slot + 1 };
            q.push(json!({"k": "range", "lo": lo, "hi": b.slot}));
        }
        // blocks of the dropped chunk file: present on disk, not immutable
        for b in dropped.iter().take(if thorough { usize::MAX } else { 3 }) {
            q.push(exact(b));
            q.push(json!({"k": "fuzzy", "s": b.slot}));
        }
        if let (Some(first), Some(last)) = (imm.first(), imm.last()) {
            q.push(json!({"k": "exact", "s": last.slot + 1, "h": last.hid}));
            q.push(json!({"k": "exact", "s": last.slot + 1000, "h": first.hid}));
            q.push(json!({"k": "exact", "s": first.slot - 1, "h": first.hid}));
            q.push(json!({"k": "exact", "s": 0, "h": first.hid}));
            q.push(json!({"k": "range", "lo": last.slot + 1, "hi": last.slot + 500}));
            q.push(json!({"k": "range", "lo": first.slot - 500, "hi": first.slot - 1}));
            q.push(json!({"k": "fuzzy", "s": 0}));
        } else if let Some(b) = dropped.first() {
            q.push(exact(b));
            q.push(json!({"k": "fuzzy", "s": b.slot}));
            q.push(json!({"k": "fuzzy", "s": 0}));
        }
        let chunks_json: Vec<Value> = cs
            .iter()
            .map(|c| Value::Array(c.blocks.iter().map(|b| json!([b.slot, b.hid])).collect()))
            .collect();
        dbs.push(json!({"id": id, "chunks": chunks_json, "queries": q}));
    }
    std::fs::write(args.get("out"), serde_json::to_string(&json!({"dbs": dbs})).unwrap()).unwrap_or_else(|e| die(&format!("write: {e}")));
    println!("{}", json!({"dbs": SUBSETS.len(), "blocks": chunks.iter().map(|c| c.blocks.len()).collect::<Vec<_>>()}));
}

// ---------------------------------------------------------------- running the real reader
pub enum Item {
    Block(Vec<u8>),
    Err(String),
}
pub enum Outcome {
    Ok(Vec<Item>, bool), // items, runaway (cap hit)
    Err(String),
    Panic(String),
}

pub fn drain(it: impl Iterator<Item = FallibleBlock>, cap: usize) -> (Vec<Item>, bool) {
    let mut items = Vec::new();
    for x in it {
        if items.len() >= cap {
            return (items, true);
        }
        items.push(match x {
            Ok(b) => Item::Block(b),
            Err(e) => Item::Err(format!("{e:?}")),
        });
    }
    (items, false)
}

pub fn call_read_blocks(dir: &Path, cap: usize) -> Outcome {
    match catch(|| read_blocks(dir).map(|it| drain(it, cap)).map_err(|e| format!("{e:?}"))) {
        Ok(Ok((items, r))) => Outcome::Ok(items, r),
        Ok(Err(e)) => Outcome::Err(e),
        Err(p) => Outcome::Panic(p),
    }
}
pub fn call_read_from(dir: &Path, p: Point, cap: usize) -> Outcome {
    match catch(|| read_blocks_from_point(dir, p).map(|it| drain(it, cap)).map_err(|e| format!("{e:?}"))) {
        Ok(Ok((items, r))) => Outcome::Ok(items, r),
        Ok(Err(e)) => Outcome::Err(e),
        Err(p) => Outcome::Panic(p),
    }
}

fn short(s: &str) -> String {
    s.chars().take(80).collect()
}

/// Compare an outcome with "suffix of `all` from 1-based index `st`"
/// (st = 0: must fail; st = -1: anything but a panic). None = conforms.
fn judge(st: i64, all: &[&BlockRef], out: &Outcome) -> Option<(String, Value)> {
    match out {
        Outcome::Panic(p) => Some(("panic".into(), json!({"panic": short(p)}))),
        Outcome::Err(e) => {
            if st <= 0 {
                None
            } else {
                Some(("err".into(), json!({"err": short(e), "want_from": st, "want_len": all.len() as i64 + 1 - st})))
            }
        }
        Outcome::Ok(items, runaway) => {
            if *runaway {
                return Some(("runaway".into(), json!({"items": items.len()})));
            }
            if st == -1 {
                return None;
            }
            if st == 0 {
                let cls = if items.is_empty() { "ok-empty" } else { "ok-blocks" };
                return Some((cls.into(), json!({"got_items": items.len(), "want": "error"})));
            }
            let want: &[&BlockRef] = all.get((st - 1) as usize..).unwrap_or(&[]);
            for (i, it) in items.iter().enumerate() {
                match it {
                    Item::Err(e) => return Some(("item-err".into(), json!({"at": i, "err": short(e)}))),
                    Item::Block(b) => {
                        if i >= want.len() {
                            return Some(("too-many".into(), json!({"got_items": items.len(), "want_len": want.len()})));
                        }
                        if *b != want[i].bytes {
                            let got_slot = MultiEraBlock::decode(b).map(|x| x.slot() as i64).unwrap_or(-1);
                            return Some((
                                if i == 0 { "wrong-start".into() } else { "wrong-block".into() },
                                json!({"at": i, "got_slot": got_slot, "want_slot": want[i].slot}),
                            ));
                        }
                    }
                }
            }
            if items.len() < want.len() {
                return Some(("too-few".into(), json!({"got_items": items.len(), "want_len": want.len()})));
            }
            None
        }
    }
}

fn absent_class(s: u64, all: &[&BlockRef]) -> &'static str {
    match (all.first(), all.last()) {
        (Some(f), Some(l)) => {
            if s > l.slot {
                "absent-beyond-tip"
            } else if s < f.slot {
                "absent-before-first"
            } else if all.iter().any(|b| b.slot == s) {
                "absent-wrong-hash"
            } else {
                "absent-between"
            }
        }
        _ => "absent-empty-db",
    }
}

struct Db<'a> {
    dir: PathBuf,
    /// (slot, h) of the vector -> block
    lookup: Box<dyn Fn(u64, i64) -> Option<&'a BlockRef> + 'a>,
    /// hash bytes for a queried (slot, h)
    qhash: Box<dyn Fn(u64, i64) -> Vec<u8> + 'a>,
    /// abstract slot -> real slot
    qslot: Box<dyn Fn(u64) -> u64 + 'a>,
}

pub fn replay(args: &Args) {
    let work = PathBuf::from(args.get("work"));
    let mode = args.get("mode").to_string();
    let thorough = args.opt("tier") == Some("thorough");
    // self-test switch: pretend every expected start index is one later
    let skew = args.num("skew", 0) as i64;
    let mut rng = Rng::new(args.seed() ^ 0x42C);
    let vecs = read_ndjson(args.get("vec"));
    let mut out = Ndjson::create(args.get("out"));
    let mut intern = Interner::default();
    let chunks = load_real(&mut intern);
    let by_hid: HashMap<i64, &BlockRef> = chunks.iter().flat_map(|c| c.blocks.iter()).map(|b| (b.hid, b)).collect();
    // pool for small databases: abstract slot s -> s-th block of the small chunk file
    let pool: Vec<&BlockRef> = chunks[0].blocks.iter().take(16).collect();
    let small_h = |s: u64| 1 + (s % 2) as i64;

    for (vi, v) in vecs.iter().enumerate() {
        let id = jstr(&v["id"]).to_string();
        if v["wf"] != json!(true) {
            die(&format!("database {id} handed to TLC is not well-formed"));
        }
        let db: Db = if mode == "real" {
            Db {
                dir: real_dir(&work, &id),
                lookup: Box::new(|_s, h| by_hid.get(&h).copied()),
                qhash: Box::new(|_s, h| by_hid.get(&h).map(|b| b.hash.to_vec()).unwrap_or_else(|| die("unknown hash id"))),
                qslot: Box::new(|s| s),
            }
        } else {
            // materialise the abstract database with real blocks
            let dir = work.join("small").join("db");
            let _ = std::fs::remove_dir_all(&dir);
            std::fs::create_dir_all(&dir).unwrap_or_else(|e| die(&format!("mkdir: {e}")));
            for (ci, c) in jarr(&v["chunks"]).iter().enumerate() {
                let bs: Vec<&BlockRef> = jarr(c).iter().map(|p| pool[jint(&p[0]) as usize]).collect();
                let gaps: Vec<usize> = bs.iter().map(|_| rng.below(3) as usize).collect();
                write_triple(&dir, &format!("{:05}", 100 + ci * 7), &bs, &gaps);
            }
            let pool2 = pool.clone();
            let pool3 = pool.clone();
            let pool4 = pool.clone();
            Db {
                dir,
                lookup: Box::new(move |s, h| if h == small_h(s) { pool2.get(s as usize).copied() } else { None }),
                qhash: Box::new(move |s, h| {
                    if h == small_h(s) {
                        pool3[s as usize].hash.to_vec()
                    } else {
                        pool3[(s as usize + 1) % pool3.len()].hash.to_vec()
                    }
                }),
                qslot: Box::new(move |s| pool4[s as usize].slot),
            }
        };
        let all: Vec<&BlockRef> = jarr(&v["all"])
            .iter()
            .map(|p| (db.lookup)(jint(&p[0]) as u64, jint(&p[1])).unwrap_or_else(|| die("vector names an unknown block")))
            .collect();
        let cap = all.len() + 64;
        // an empty chunk file among the immutable ones (all but the last): recorded in the finding key
        let chunks_v = jarr(&v["chunks"]);
        let empty_imm = chunks_v.len() > 1 && chunks_v[..chunks_v.len() - 1].iter().any(|c| jarr(c).is_empty());
        let sfx = if empty_imm { "/empty-chunk" } else { "" };
        let mut calls = 0usize;
        let mut bad = 0usize;
        let mut mism = |out: &mut Ndjson, key: String, q: Value, detail: Value| {
            bad += 1;
            if bad <= 20 {
                out.ev(json!({"type": "mismatch", "vec": vi, "id": id, "key": key, "q": q, "detail": detail}));
            }
        };

        // read_blocks
        calls += 1;
        if let Some((cls, d)) = judge(1 + skew, &all, &call_read_blocks(&db.dir, cap)) {
            mism(&mut out, format!("read_blocks/{cls}{sfx}"), json!({"op": "read_blocks"}), d);
        }
        // get_tip
        calls += 1;
        let want_tip = (jint(&v["tip"][0]), jint(&v["tip"][1]));
        let got_tip = catch(|| get_tip(&db.dir).map_err(|e| format!("{e:?}")));
        let tip_ok = match (&got_tip, want_tip) {
            (Ok(Ok(None)), (-1, _)) => true,
            (Ok(Ok(Some(Point::Specific(s, h)))), (ws, wh)) if ws >= 0 => {
                let b = (db.lookup)(ws as u64, wh).unwrap_or_else(|| die("tip names an unknown block"));
                *s == b.slot && *h == b.hash.to_vec()
            }
            _ => false,
        };
        if !tip_ok {
            let cls = match &got_tip {
                Err(_) => "panic",
                Ok(Err(_)) => "err",
                Ok(Ok(None)) => "none",
                Ok(Ok(Some(_))) => "wrong-point",
            };
            mism(&mut out, format!("get_tip/{cls}{sfx}"), json!({"op": "get_tip"}), json!({"want": v["tip"], "got": short(&format!("{got_tip:?}"))}));
        }
        // read_blocks_from_point
        for a in jarr(&v["ans"]) {
            let kind = jstr(&a["k"]);
            let mut cases: Vec<(u64, i64, i64)> = Vec::new(); // (abstract slot, h, st)
            match kind {
                "exact" | "fuzzy" => cases.push((jint(&a["s"]) as u64, jint(&a["h"]), jint(&a["st"]))),
                "range" => {
                    let (lo, hi) = (jint(&a["lo"]) as u64, jint(&a["hi"]) as u64);
                    let (st, st_hi) = (jint(&a["st"]), jint(&a["st_hi"]));
                    cases.push((lo, 0, st));
                    if hi > lo {
                        cases.push((hi, 0, st_hi));
                    }
                    if st == st_hi && hi > lo + 1 {
                        // FuzzyMonotone: the same answer holds for every slot inside
                        if thorough && id == "ABC" && hi - lo <= 200 {
                            cases.extend((lo + 1..hi).map(|s| (s, 0, st)));
                        } else {
                            for _ in 0..(if thorough { 4 } else { 2 }) {
                                cases.push((rng.range(lo + 1, hi - 1), 0, st));
                            }
                        }
                    }
                }
                other => die(&format!("unknown answer kind {other}")),
            }
            for (s, h, st) in cases {
                let fuzzy = kind != "exact";
                let p = Point::Specific((db.qslot)(s), if fuzzy { vec![] } else { (db.qhash)(s, h) });
                calls += 1;
                let st = if st > 0 && (st as usize) <= all.len() { st + skew } else { st };
                if let Some((cls, d)) = judge(st, &all, &call_read_from(&db.dir, p, cap)) {
                    let qc = if fuzzy {
                        "fuzzy".to_string()
                    } else if st == 0 {
                        format!("exact-{}", absent_class((db.qslot)(s), &all))
                    } else {
                        "exact-present".to_string()
                    };
                    mism(&mut out, format!("read_blocks_from_point/{qc}/{cls}{sfx}"), json!({"k": kind, "s": s, "h": h, "st": st}), d);
                }
            }
        }
        // Origin: the property is silent; only a panic would be reported
        calls += 1;
        if let Outcome::Panic(p) = call_read_from(&db.dir, Point::Origin, cap) {
            mism(&mut out, "read_blocks_from_point/origin/panic".into(), json!({"k": "origin"}), json!({"panic": short(&p)}));
        }
        out.ev(json!({"type": "db", "vec": vi, "id": id, "blocks": all.len(), "calls": calls, "mismatches": bad}));
    }
    out.finish();
}
