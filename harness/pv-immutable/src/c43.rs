//! C43 — immutable-DB readers under file faults (spec/immutable/ImmutableFiles.tla, M3).
//!
//! `imm-fault` (parent) enumerates fault cases and runs them in a child
//! process (`imm-fault-child`), because a fault may make the code under test
//! abort the process (allocation sized by a corrupt offset). The child
//! installs an allocation guard (any single allocation above 1 GiB aborts
//! with a marker on stderr; the test files are a few MB). When the child dies
//! the parent records the outcome `abort` for the case in flight and resumes
//! with the next case.
use crate::c42::{drain, Item};
use crate::files::*;
use pallas_hardano::storage::immutable::read_blocks;
use pv_core::*;
use serde_json::Value;
use std::collections::HashMap;
use std::io::Write;
use std::path::{Path, PathBuf};
use std::sync::Mutex;

pub const CAP: u64 = 1 << 30; // larger values are logged as CAP (TLC integers are 32-bit)

// ------------------------------------------------------------------ allocation guard
pub mod guard {
    use std::alloc::{GlobalAlloc, Layout, System};
    use std::sync::atomic::{AtomicBool, Ordering};
    pub static ON: AtomicBool = AtomicBool::new(false);
    pub const LIMIT: usize = 1 << 30;
    pub struct Guard;
    fn check(size: usize) {
        if size > LIMIT && ON.load(Ordering::Relaxed) {
            use std::io::Write;
            let _ = std::io::stderr().write_all(b"pv-alloc-guard: allocation above 1 GiB requested\n");
            std::process::abort();
        }
    }
    unsafe impl GlobalAlloc for Guard {
        unsafe fn alloc(&self, l: Layout) -> *mut u8 {
            check(l.size());
            System.alloc(l)
        }
        unsafe fn alloc_zeroed(&self, l: Layout) -> *mut u8 {
            check(l.size());
            System.alloc_zeroed(l)
        }
        unsafe fn dealloc(&self, p: *mut u8, l: Layout) {
            System.dealloc(p, l)
        }
        unsafe fn realloc(&self, p: *mut u8, l: Layout, n: usize) -> *mut u8 {
            check(n);
            System.realloc(p, l, n)
        }
    }
}

static PANIC_LOC: Mutex<String> = Mutex::new(String::new());

fn install_panic_hook() {
    let _ = catch(|| ()); // let pv_core install its (silent) hook first
    std::panic::set_hook(Box::new(|info| {
        let loc = info.location().map(|l| l.file().to_string()).unwrap_or_default();
        *PANIC_LOC.lock().unwrap() = loc;
    }));
}
fn panic_site() -> String {
    let loc = PANIC_LOC.lock().unwrap().clone();
    let base = loc.rsplit('/').next().unwrap_or("").to_string();
    if loc.contains("immutable") {
        base
    } else if loc.contains("alloc") || loc.contains("raw_vec") {
        "alloc".into()
    } else {
        format!("other:{base}")
    }
}

// ------------------------------------------------------------------ databases
#[derive(Clone)]
struct DbSpec {
    src: PathBuf,        // pristine files
    names: Vec<String>,  // all chunk files, sorted; the last one is dropped by the reader
    blocks: Vec<Vec<BlockRef>>, // fault-free blocks per immutable chunk file
}
impl DbSpec {
    fn imm(&self) -> usize {
        self.names.len() - 1
    }
    fn total(&self) -> usize {
        self.blocks.iter().map(|b| b.len()).sum()
    }
}

fn small_db(work: &Path) -> DbSpec {
    let mut intern = Interner::default();
    let a = parse_chunk(&test_data(), "01285", &mut intern, true);
    let src = work.join("fault").join("small_src");
    let _ = std::fs::remove_dir_all(&src);
    let pick = |r: std::ops::Range<usize>| a.blocks[r].iter().collect::<Vec<_>>();
    write_triple(&src, "00100", &pick(0..6), &[1, 0, 2, 0, 0, 1]);
    write_triple(&src, "00107", &pick(6..11), &[0, 0, 1, 0, 3]);
    write_triple(&src, "00114", &pick(11..13), &[0, 0]);
    let names: Vec<String> = ["00100", "00107", "00114"].iter().map(|s| s.to_string()).collect();
    let blocks = names[..2].iter().map(|n| parse_chunk(&src, n, &mut intern, true).blocks).collect();
    DbSpec { src, names, blocks }
}

fn big_db(ids: &[&str]) -> DbSpec {
    let mut intern = Interner::default();
    let names: Vec<String> = ids.iter().map(|s| s.to_string()).collect();
    let blocks = names[..names.len() - 1].iter().map(|n| parse_chunk(&test_data(), n, &mut intern, true).blocks).collect();
    DbSpec { src: test_data(), names, blocks }
}

/// Abstract view of the (possibly faulted) files of the immutable chunk triples.
fn abstract_db(dir: &Path, db: &DbSpec) -> Value {
    let mut out = Vec::new();
    for (ci, name) in db.names[..db.imm()].iter().enumerate() {
        let p = read(&dir.join(format!("{name}.primary")));
        let s = read(&dir.join(format!("{name}.secondary")));
        let clen = std::fs::metadata(dir.join(format!("{name}.chunk"))).map(|m| m.len()).unwrap_or_else(|e| die(&format!("stat: {e}")));
        let poff: Vec<u64> = if p.is_empty() { vec![] } else { p[1..].chunks_exact(4).map(|c| (be_u32(c) as u64).min(CAP)).collect() };
        let mut offs: Vec<u64> = (0..).map(|k| k * ENTRY as u64).take_while(|o| o + 8 <= s.len() as u64).collect();
        for &c in &poff {
            if c + 8 <= s.len() as u64 && !offs.contains(&c) {
                offs.push(c);
            }
        }
        let sat: Vec<Value> = offs.iter().map(|&o| json!([o, be_u64(&s[o as usize..]).min(CAP)])).collect();
        let mut bounds: Vec<u64> = db.blocks[ci].iter().map(|b| b.offset).collect();
        bounds.push(db.blocks[ci].last().map(|b| b.offset + b.bytes.len() as u64).unwrap_or(0));
        out.push(json!({"plen": p.len(), "poff": poff, "slen": s.len(), "sat": sat, "clen": clen, "bounds": bounds}));
    }
    Value::Array(out)
}

// ------------------------------------------------------------------ cases
#[derive(Clone, Debug)]
enum Fault {
    Truncate(u64),
    /// overwrite field `j` (1-based: primary offset j / block_offset of secondary entry j) with `v`
    Corrupt(usize, u64),
    /// entries j .. j+n-1 (whole entries, clipped at the end of the file) filled with one byte value
    Fill(usize, usize, u8),
    /// n more entries appended: Some(b) = constant bytes, None = seeded garbage
    Extend(usize, Option<u8>),
    /// entries j .. j+n-1 written twice
    Dup(usize, usize),
}
#[derive(Clone, Debug)]
struct Case {
    big: usize, // 0 = small database, i = big database i
    chunk: usize, // 0-based index among the immutable chunk files
    file: &'static str,
    fault: Fault,
    /// outcome logged as a summary (`big` event) - test database, or faults too large to hand
    /// to the design model (100 000 extra slots)
    summ: bool,
}

fn file_len(db: &DbSpec, chunk: usize, file: &str) -> u64 {
    std::fs::metadata(db.src.join(format!("{}.{}", db.names[chunk], file))).map(|m| m.len()).unwrap_or_else(|e| die(&format!("stat: {e}")))
}

fn corrupt_case(rng: &mut Rng, db: &DbSpec, big: usize) -> Case {
    let chunk = rng.below(db.imm() as u64) as usize;
    let primary = rng.bool();
    let file = if primary { "primary" } else { "secondary" };
    let flen = file_len(db, chunk, file);
    let data = read(&db.src.join(format!("{}.{}", db.names[chunk], file)));
    let (n, width) = if primary { ((flen - 1) / 4, 4usize) } else { (flen / ENTRY as u64, 8usize) };
    // prefer fields near occupied entries: uniformly random over the fields is fine for the
    // secondary; the primary of a real chunk is mostly empty slots, so half of the picks
    // go to a field next to a change of value
    let mut j = 1 + rng.below(n) as usize;
    if primary && rng.bool() {
        for _ in 0..200 {
            let k = 1 + rng.below(n - 1) as usize;
            let at = |i: usize| be_u32(&data[1 + 4 * (i - 1)..]);
            if at(k) != at(k + 1) {
                j = k + rng.below(2) as usize;
                break;
            }
        }
    }
    let pos = if primary { 1 + 4 * (j - 1) } else { ENTRY * (j - 1) };
    let old = if primary { be_u32(&data[pos..]) as u64 } else { be_u64(&data[pos..]) };
    let target_len = if primary { file_len(db, chunk, "secondary") } else { file_len(db, chunk, "chunk") };
    let max = if primary { u32::MAX as u64 } else { u64::MAX };
    let v = match rng.below(10) {
        0..=3 => {
            // one byte of the field replaced
            let mut f = data[pos..pos + width].to_vec();
            let b = rng.below(width as u64) as usize;
            f[b] = rng.next_u64() as u8;
            if primary { be_u32(&f) as u64 } else { be_u64(&f) }
        }
        4 => 0,
        5 => old.wrapping_add(rng.range(1, 120)) & max,
        6 => old.saturating_sub(rng.range(1, 120)),
        7 => target_len + rng.below(3),
        8 => rng.below(target_len + 1),
        _ => max - rng.below(2),
    };
    Case { big, chunk, file, fault: Fault::Corrupt(j, v), summ: big != 0 }
}

/// whole-offset overwrites with boundary values at the given entry positions (1-based):
/// 0, 1, the type's maximum and just below it (an entry size away), the length of the file the
/// offset points into and its neighbourhood
fn boundary_overwrites(db: &DbSpec, big: usize, chunk: usize, primary: bool, positions: &[usize], cs: &mut Vec<Case>) {
    let (file, target, max, unit) = if primary {
        ("primary", file_len(db, chunk, "secondary"), u32::MAX as u64, ENTRY as u64)
    } else {
        ("secondary", file_len(db, chunk, "chunk"), u64::MAX, 1u64)
    };
    let mut vals = vec![0, 1, max, max - 1, max - unit + 1, max - unit, max - unit - 1, target.saturating_sub(unit), target.saturating_sub(1), target, target + 1, target + unit];
    if !primary {
        vals.extend([1u64 << 32, 1u64 << 63, (1u64 << 63) - 1]);
    }
    for &j in positions {
        for &v in &vals {
            cs.push(Case { big, chunk, file, fault: Fault::Corrupt(j, v), summ: big != 0 });
        }
    }
}

/// (offset of the first entry, entry size, number of entries) of an index file
fn geometry(db: &DbSpec, chunk: usize, file: &str) -> (usize, usize, usize) {
    let len = file_len(db, chunk, file) as usize;
    if file == "primary" {
        (1, 4, (len - 1) / 4)
    } else {
        (0, ENTRY, len / ENTRY)
    }
}

/// region faults on one index file: runs filled with 0x00 / 0xff (from every / sampled entry
/// boundary: one entry, a few, up to the end), runs duplicated, padding appended
fn region_cases(rng: &mut Rng, db: &DbSpec, big: usize, chunk: usize, file: &'static str, every: bool, thorough: bool, cs: &mut Vec<Case>) {
    let (_, _, n) = geometry(db, chunk, file);
    let summ = big != 0;
    let positions: Vec<usize> = if every {
        (1..=n).collect()
    } else {
        let mut p = vec![1, 2, n / 2, n - 1, n];
        p.extend((0..(if thorough { 60 } else { 6 })).map(|_| 1 + rng.below(n as u64) as usize));
        p
    };
    for &j in &positions {
        let rest = n - j + 1;
        let mut lens = vec![1usize, 2.min(rest), rest];
        if !every {
            lens.push((1 + rng.below(rest as u64) as usize).min(rest));
        }
        lens.dedup();
        for &len in &lens {
            for b in [0x00u8, 0xff] {
                cs.push(Case { big, chunk, file, fault: Fault::Fill(j, len, b), summ });
            }
            // the design model knows duplication for the primary index only
            if file == "primary" || summ {
                cs.push(Case { big, chunk, file, fault: Fault::Dup(j, len), summ });
            }
        }
    }
    for extra in [1usize, 2, 8, 64] {
        for b in [0x00u8, 0xff] {
            cs.push(Case { big, chunk, file, fault: Fault::Extend(extra, Some(b)), summ });
        }
    }
    // padding by many slots: summarised outcome only
    for extra in [20_000usize, 100_000] {
        for b in [Some(0x00u8), Some(0xff), None] {
            cs.push(Case { big, chunk, file, fault: Fault::Extend(extra, b), summ: true });
        }
    }
}

fn cases(seed: u64, thorough: bool, dbs: &[DbSpec]) -> Vec<Case> {
    let mut rng = Rng::new(seed ^ 0xC43);
    let mut cs = Vec::new();
    // ---- small database: every truncation point of the index files
    let small = &dbs[0];
    for chunk in 0..small.imm() {
        for file in ["primary", "secondary"] {
            for k in 0..file_len(small, chunk, file) {
                cs.push(Case { big: 0, chunk, file, fault: Fault::Truncate(k), summ: false });
            }
        }
        let clen = file_len(small, chunk, "chunk");
        if thorough {
            for k in 0..clen {
                cs.push(Case { big: 0, chunk, file: "chunk", fault: Fault::Truncate(k), summ: false });
            }
        } else {
            let mut ks: Vec<u64> = vec![0, 1, clen - 1];
            for b in &small.blocks[chunk][1..] {
                ks.extend([b.offset - 1, b.offset, b.offset + 1]);
            }
            for _ in 0..12 {
                ks.push(rng.below(clen));
            }
            for k in ks {
                cs.push(Case { big: 0, chunk, file: "chunk", fault: Fault::Truncate(k), summ: false });
            }
        }
    }
    for _ in 0..(if thorough { 4000 } else { 300 }) {
        cs.push(corrupt_case(&mut rng, small, 0));
    }
    // every entry position of both index files x boundary values
    for chunk in 0..small.imm() {
        let np = ((file_len(small, chunk, "primary") - 1) / 4) as usize;
        let ns = (file_len(small, chunk, "secondary") / ENTRY as u64) as usize;
        boundary_overwrites(small, 0, chunk, true, &(1..=np).collect::<Vec<_>>(), &mut cs);
        boundary_overwrites(small, 0, chunk, false, &(1..=ns).collect::<Vec<_>>(), &mut cs);
        for file in ["primary", "secondary"] {
            region_cases(&mut rng, small, 0, chunk, file, true, thorough, &mut cs);
        }
    }
    // ---- the test database
    for (bi, db) in dbs.iter().enumerate().skip(1) {
        let first_big = bi == 1;
        for chunk in 0..db.imm() {
            for file in ["primary", "secondary", "chunk"] {
                let len = file_len(db, chunk, file);
                let unit = match file {
                    "primary" => 4,
                    "secondary" => ENTRY as u64,
                    _ => 1,
                };
                let mut ks: Vec<u64> = vec![0, 1, 2, 3, 4, 5, unit - 1, unit, unit + 1, len - unit - 1, len - unit, len - 2, len - 1];
                if thorough && first_big && file == "secondary" {
                    ks = (0..len).collect();
                } else if thorough && first_big && file == "primary" {
                    ks.extend((0..len).step_by(4));
                    ks.extend((0..5000).map(|_| rng.below(len)));
                } else {
                    let n = if thorough { 1500 } else { 30 };
                    ks.extend((0..n).map(|_| rng.below(len)));
                    // just before / on / after entry boundaries
                    ks.extend((0..n).map(|_| (rng.below(len / unit) * unit + 1 + rng.below(3)).saturating_sub(2).min(len - 1)));
                }
                for k in ks {
                    cs.push(Case { big: bi, chunk, file, fault: Fault::Truncate(k), summ: true });
                }
            }
        }
        for _ in 0..(if thorough { 3000 } else { 100 }) {
            cs.push(corrupt_case(&mut rng, db, bi));
        }
        // boundary overwrites at sampled positions (first / last entries and seeded ones; occupied
        // primary slots are sparse, so half of the primary positions are taken next to one)
        for chunk in 0..db.imm() {
            let np = ((file_len(db, chunk, "primary") - 1) / 4) as usize;
            let ns = (file_len(db, chunk, "secondary") / ENTRY as u64) as usize;
            let k = if thorough { 150 } else { 6 };
            let pdata = read(&db.src.join(format!("{}.primary", db.names[chunk])));
            let at = |i: usize| be_u32(&pdata[1 + 4 * (i - 1)..]);
            let mut pp = vec![1, 2, np - 1, np];
            for _ in 0..k {
                pp.push(1 + rng.below(np as u64) as usize);
                for _ in 0..400 {
                    let c = 1 + rng.below(np as u64 - 1) as usize;
                    if at(c) != at(c + 1) {
                        pp.push(c + rng.below(2) as usize);
                        break;
                    }
                }
            }
            let mut sp = vec![1, 2, ns - 1, ns];
            sp.extend((0..k).map(|_| 1 + rng.below(ns as u64) as usize));
            boundary_overwrites(db, bi, chunk, true, &pp, &mut cs);
            boundary_overwrites(db, bi, chunk, false, &sp, &mut cs);
            for file in ["primary", "secondary"] {
                region_cases(&mut rng, db, bi, chunk, file, false, thorough, &mut cs);
            }
        }
    }
    cs
}

fn fault_json(c: &Case) -> Value {
    match &c.fault {
        Fault::Truncate(k) => json!({"kind": "truncate", "chunk": c.chunk + 1, "file": c.file, "k": k}),
        Fault::Corrupt(j, v) => json!({"kind": "corrupt", "chunk": c.chunk + 1, "file": c.file, "j": j, "v": (*v).min(CAP)}),
        Fault::Fill(j, n, b) => json!({"kind": "fill", "chunk": c.chunk + 1, "file": c.file, "j": j, "n": n, "v": if *b == 0 { 0 } else { CAP }}),
        Fault::Extend(n, b) => json!({"kind": "extend", "chunk": c.chunk + 1, "file": c.file, "n": n,
                                       "v": match b { Some(0) => json!(0), Some(_) => json!(CAP), None => json!("garbage") }}),
        Fault::Dup(j, n) => json!({"kind": "dup", "chunk": c.chunk + 1, "file": c.file, "j": j, "n": n}),
    }
}

// ------------------------------------------------------------------ running
fn link_or_copy(src: &Path, dst: &Path) {
    let _ = std::fs::remove_file(dst);
    if std::os::unix::fs::symlink(src, dst).is_err() {
        std::fs::copy(src, dst).unwrap_or_else(|e| die(&format!("copy {}: {e}", src.display())));
    }
}

fn setup_run_dir(dir: &Path, db: &DbSpec) {
    let _ = std::fs::remove_dir_all(dir);
    std::fs::create_dir_all(dir).unwrap_or_else(|e| die(&format!("mkdir: {e}")));
    for n in &db.names {
        for ext in ["chunk", "primary", "secondary"] {
            link_or_copy(&db.src.join(format!("{n}.{ext}")), &dir.join(format!("{n}.{ext}")));
        }
    }
}

fn inject(dir: &Path, db: &DbSpec, c: &Case, case_no: usize) {
    let fname = format!("{}.{}", db.names[c.chunk], c.file);
    let mut data = read(&db.src.join(&fname));
    let (base, es) = if c.file == "primary" { (1usize, 4usize) } else { (0, ENTRY) };
    match &c.fault {
        Fault::Fill(j, n, b) => {
            let (a, e) = (base + es * (j - 1), (base + es * (j - 1 + n)).min(data.len()));
            data[a..e].fill(*b);
        }
        Fault::Extend(n, b) => match b {
            Some(b) => data.extend(std::iter::repeat(*b).take(n * es)),
            None => data.extend(Rng::new(case_no as u64 ^ 0xE47).bytes(n * es)),
        },
        Fault::Dup(j, n) => {
            let (a, e) = (base + es * (j - 1), (base + es * (j - 1 + n)).min(data.len()));
            let region = data[a..e].to_vec();
            let tail = data.split_off(e);
            data.extend(region);
            data.extend(tail);
        }
        Fault::Truncate(k) => data.truncate(*k as usize),
        Fault::Corrupt(j, v) => {
            if c.file == "primary" {
                let pos = 1 + 4 * (j - 1);
                data[pos..pos + 4].copy_from_slice(&(*v as u32).to_be_bytes());
            } else {
                let pos = ENTRY * (j - 1);
                data[pos..pos + 8].copy_from_slice(&v.to_be_bytes());
            }
        }
    }
    let dst = dir.join(&fname);
    let _ = std::fs::remove_file(&dst);
    std::fs::write(&dst, data).unwrap_or_else(|e| die(&format!("write {}: {e}", dst.display())));
}

fn restore(dir: &Path, db: &DbSpec, c: &Case) {
    let fname = format!("{}.{}", db.names[c.chunk], c.file);
    link_or_copy(&db.src.join(&fname), &dir.join(&fname));
}

struct Line(std::fs::File);
impl Line {
    fn ev(&mut self, v: Value) {
        writeln!(self.0, "{}", v).unwrap_or_else(|e| die(&format!("write: {e}")));
    }
}

/// read_blocks driven to exhaustion; items projected to [id, len]
fn run_read(dir: &Path, ids: &HashMap<&[u8], i64>, cap: usize) -> (Vec<[i64; 2]>, String) {
    // the readers are iterative; a 512 KiB stack is plenty for them and makes recursion that is
    // proportional to the number of slots in a file end in the stack guard (=> process abort,
    // recorded by the parent) whatever the size of the main thread's stack
    let r = std::thread::scope(|sc| {
        std::thread::Builder::new()
            .stack_size(512 << 10)
            .spawn_scoped(sc, || catch(|| read_blocks(dir).map(|it| drain(it, cap)).map_err(|e| format!("{e:?}"))))
            .unwrap_or_else(|e| die(&format!("spawn: {e}")))
            .join()
            .unwrap_or_else(|_| die("reader thread died"))
    });
    let mut out = Vec::new();
    let mut note = String::new();
    match r {
        Ok(Ok((items, runaway))) => {
            for it in &items {
                out.push(match it {
                    Item::Block(b) => [ids.get(b.as_slice()).copied().unwrap_or(0), b.len() as i64],
                    Item::Err(_) => [-1, 0],
                });
            }
            if runaway {
                out.push([-2, 0]);
                note = "runaway iterator".into();
            }
        }
        Ok(Err(e)) => {
            out.push([-1, 0]);
            note = e;
        }
        Err(p) => {
            // items produced before the panic are lost with the iterator; the verdict only needs the panic
            out.push([-2, 0]);
            note = format!("{} @{}", p.chars().take(80).collect::<String>(), panic_site());
        }
    }
    (out, note)
}

fn db_specs(work: &Path, thorough: bool) -> Vec<DbSpec> {
    let mut v = vec![small_db(work), big_db(&["01836", "02019"])];
    if thorough {
        v.push(big_db(&["01285", "01836", "02019"]));
    }
    v
}

pub fn child(args: &Args) {
    let work = PathBuf::from(args.get("work"));
    let thorough = args.opt("tier") == Some("thorough");
    let from = args.num("from", 0) as usize;
    let dbs = db_specs(&work, thorough);
    let cs = cases(args.seed(), thorough, &dbs);
    let file = std::fs::OpenOptions::new().create(true).write(true).truncate(true).open(args.get("part")).unwrap_or_else(|e| die(&format!("open part: {e}")));
    let mut out = Line(file);
    install_panic_hook();
    let dirs: Vec<PathBuf> = (0..dbs.len()).map(|i| work.join("fault").join(format!("run{i}"))).collect();
    let ids: Vec<HashMap<&[u8], i64>> = dbs
        .iter()
        .map(|db| db.blocks.iter().flatten().enumerate().map(|(i, b)| (b.bytes.as_slice(), i as i64 + 1)).collect())
        .collect();
    for (i, db) in dbs.iter().enumerate() {
        setup_run_dir(&dirs[i], db);
    }
    if from == 0 {
        out.ev(json!({"ev": "open", "db": abstract_db(&dirs[0], &dbs[0]), "cases": cs.len()}));
        let (o, note) = run_read(&dirs[0], &ids[0], dbs[0].total() + 64);
        out.ev(json!({"ev": "read_blocks", "out": o, "note": note}));
        out.ev(json!({"ev": "reset"}));
    }
    guard::ON.store(true, std::sync::atomic::Ordering::Relaxed);
    for (i, c) in cs.iter().enumerate().skip(from) {
        let db = &dbs[c.big];
        let dir = &dirs[c.big];
        inject(dir, db, c, i);
        let cap = db.total() + 64;
        if !c.summ {
            out.ev(json!({"ev": "begin", "case": i, "small": true}));
            out.ev(json!({"ev": "fault", "fault": fault_json(c), "db": abstract_db(dir, db)}));
            let (o, note) = run_read(dir, &ids[0], cap);
            out.ev(json!({"ev": "read_blocks", "out": o, "note": note}));
            out.ev(json!({"ev": "reset"}));
        } else {
            out.ev(json!({"ev": "begin", "case": i, "small": false, "fault": fault_json(c), "dbi": c.big, "total": db.total()}));
            let (o, note) = run_read(dir, &ids[c.big], cap);
            let n_ok = o.iter().filter(|x| x[0] >= 0).count();
            let n_err = o.iter().filter(|x| x[0] == -1).count();
            let bad = o.iter().map(|x| x[0]).filter(|x| *x < -1).min().unwrap_or(0);
            let good = o.iter().enumerate().take_while(|(k, x)| x[0] == *k as i64 + 1).count();
            out.ev(json!({"ev": "big", "fault": fault_json(c), "dbi": c.big, "n_ok": n_ok, "n_err": n_err, "bad": bad, "good_prefix": good, "total": db.total(), "note": note}));
        }
        restore(dir, db, c);
    }
    out.ev(json!({"ev": "done"}));
}

pub fn parent(args: &Args) {
    let exe = std::env::current_exe().unwrap_or_else(|e| die(&format!("current_exe: {e}")));
    let part = format!("{}.part", args.get("out"));
    let mut out = Ndjson::create(args.get("out"));
    let mut from = 0usize;
    let mut aborts = 0usize;
    loop {
        let o = std::process::Command::new(&exe)
            .args(["imm-fault-child", "--work", args.get("work"), "--seed", &args.seed().to_string(), "--tier", args.opt("tier").unwrap_or("quick"), "--from", &from.to_string(), "--part", &part])
            .output()
            .unwrap_or_else(|e| die(&format!("spawn: {e}")));
        let stderr = String::from_utf8_lossy(&o.stderr).to_string();
        let lines = read_ndjson(&part);
        let mut begin: Option<Value> = None;
        let mut pending: Vec<Value> = Vec::new();
        let mut done = false;
        for v in lines {
            match jstr(&v["ev"]) {
                "begin" => {
                    begin = Some(v);
                    pending.clear();
                }
                "done" => done = true,
                "reset" | "big" => {
                    for p in pending.drain(..) {
                        out.ev(p);
                    }
                    out.ev(v);
                    begin = None;
                }
                _ => pending.push(v),
            }
        }
        if done && o.status.success() {
            break;
        }
        // the child died inside a case: record it and go on with the next one
        let Some(b) = begin else {
            die(&format!("fault child failed outside a case: {} {}", o.status, stderr.chars().take(300).collect::<String>()));
        };
        aborts += 1;
        if aborts > 2000 {
            die("too many aborts of the fault child");
        }
        let why = if stderr.contains("pv-alloc-guard") { "allocation above 1 GiB (sized by a corrupt offset)" } else { "process died" };
        let note = format!("{why}: {}", stderr.lines().last().unwrap_or("").chars().take(120).collect::<String>());
        if b["small"] == json!(true) {
            let mut had_fault = false;
            for p in pending.drain(..) {
                had_fault |= p["ev"] == json!("fault");
                out.ev(p);
            }
            if !had_fault {
                die("fault child died before logging the fault");
            }
            out.ev(json!({"ev": "read_blocks", "out": [[-3, 0]], "note": note}));
            out.ev(json!({"ev": "reset"}));
        } else {
            out.ev(json!({"ev": "big", "fault": b["fault"], "dbi": b["dbi"], "n_ok": 0, "n_err": 0, "bad": -3, "good_prefix": 0, "total": b["total"], "note": note}));
        }
        from = jint(&b["case"]) as usize + 1;
    }
    let _ = std::fs::remove_file(&part);
    let n = out.finish();
    println!("{}", json!({"events": n, "aborts": aborts}));
}
