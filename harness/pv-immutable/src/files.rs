//! Independent view of the on-disk immutable-DB format (no pallas code):
//! parse `.secondary` (56-byte entries) / `.primary` (version byte + u32
//! offsets) files, slice `.chunk` files, and write synthetic chunk triples.
//! See ouroboros-consensus report, section 8.2.2.
use pv_core::die;
use std::collections::HashMap;
use std::fs;
use std::path::{Path, PathBuf};

pub const ENTRY: usize = 56;

#[derive(Clone, Debug)]
pub struct BlockRef {
    pub slot: u64,
    pub hash: [u8; 32],
    pub hid: i64,
    pub offset: u64,
    pub bytes: Vec<u8>,
}

#[derive(Clone, Debug)]
pub struct ChunkFile {
    pub name: String,
    pub blocks: Vec<BlockRef>,
}

pub fn read(p: &Path) -> Vec<u8> {
    fs::read(p).unwrap_or_else(|e| die(&format!("cannot read {}: {e}", p.display())))
}

pub fn be_u64(b: &[u8]) -> u64 {
    u64::from_be_bytes(b[..8].try_into().unwrap())
}
pub fn be_u32(b: &[u8]) -> u32 {
    u32::from_be_bytes(b[..4].try_into().unwrap())
}

/// Interner of header hashes: id 1.. in order of first appearance.
#[derive(Default)]
pub struct Interner {
    pub ids: HashMap<[u8; 32], i64>,
    pub rev: Vec<[u8; 32]>,
}
impl Interner {
    pub fn id(&mut self, h: &[u8; 32]) -> i64 {
        if let Some(i) = self.ids.get(h) {
            return *i;
        }
        self.rev.push(*h);
        let i = self.rev.len() as i64;
        self.ids.insert(*h, i);
        i
    }
    pub fn hash(&self, id: i64) -> [u8; 32] {
        self.rev[(id - 1) as usize]
    }
}

/// Parse one chunk triple by the secondary index alone (block_offset at 0..8,
/// header hash at 16..48, slot at 48..56) and slice the chunk file.
/// `strict`: every entry must lie inside the chunk file; otherwise parsing stops
/// at the first entry that does not (the last chunk file of a database is
/// still being written: its index may run ahead of the chunk file).
pub fn parse_chunk(dir: &Path, name: &str, intern: &mut Interner, strict: bool) -> ChunkFile {
    let sec = read(&dir.join(format!("{name}.secondary")));
    let chunk = read(&dir.join(format!("{name}.chunk")));
    if sec.len() % ENTRY != 0 {
        die(&format!("{name}.secondary: length {} is not a multiple of 56", sec.len()));
    }
    let n = sec.len() / ENTRY;
    let mut blocks = Vec::with_capacity(n);
    for i in 0..n {
        let e = &sec[i * ENTRY..(i + 1) * ENTRY];
        let offset = be_u64(&e[0..8]);
        let end = if i + 1 < n { be_u64(&sec[(i + 1) * ENTRY..]) } else { chunk.len() as u64 };
        if !(offset < end && end <= chunk.len() as u64) {
            if !strict {
                break;
            }
            die(&format!("{name}.secondary entry {i}: offsets {offset}..{end} outside the chunk file"));
        }
        let mut hash = [0u8; 32];
        hash.copy_from_slice(&e[16..48]);
        blocks.push(BlockRef {
            slot: be_u64(&e[48..56]),
            hid: intern.id(&hash),
            hash,
            offset,
            bytes: chunk[offset as usize..end as usize].to_vec(),
        });
    }
    ChunkFile { name: name.to_string(), blocks }
}

pub fn primary_offsets(dir: &Path, name: &str) -> (u8, Vec<u32>) {
    let p = read(&dir.join(format!("{name}.primary")));
    if p.is_empty() || (p.len() - 1) % 4 != 0 {
        die(&format!("{name}.primary: unexpected length {}", p.len()));
    }
    (p[0], p[1..].chunks(4).map(be_u32).collect())
}

pub fn copy_triple(src: &Path, name: &str, dst: &Path, dst_name: &str) {
    fs::create_dir_all(dst).unwrap_or_else(|e| die(&format!("mkdir {}: {e}", dst.display())));
    for ext in ["chunk", "primary", "secondary"] {
        let from = src.join(format!("{name}.{ext}"));
        let to = dst.join(format!("{dst_name}.{ext}"));
        fs::copy(&from, &to).unwrap_or_else(|e| die(&format!("copy {} -> {}: {e}", from.display(), to.display())));
    }
}

/// Write a chunk triple holding `blocks` (in order). `gaps[i]` empty relative
/// slots are put in front of block i in the primary index (a repeated offset
/// is an empty slot), one more empty slot closes the file.
pub fn write_triple(dir: &Path, name: &str, blocks: &[&BlockRef], gaps: &[usize]) {
    fs::create_dir_all(dir).unwrap_or_else(|e| die(&format!("mkdir {}: {e}", dir.display())));
    let mut chunk = Vec::new();
    let mut sec = Vec::new();
    let mut pri = vec![1u8];
    let mut sec_off = 0u32;
    pri.extend_from_slice(&sec_off.to_be_bytes());
    for (i, b) in blocks.iter().enumerate() {
        for _ in 0..gaps.get(i).copied().unwrap_or(0) {
            pri.extend_from_slice(&sec_off.to_be_bytes());
        }
        sec.extend_from_slice(&(chunk.len() as u64).to_be_bytes());
        sec.extend_from_slice(&[0u8; 8]); // header offset/size, checksum: unused by the reader
        sec.extend_from_slice(&b.hash);
        sec.extend_from_slice(&b.slot.to_be_bytes());
        chunk.extend_from_slice(&b.bytes);
        sec_off += ENTRY as u32;
        pri.extend_from_slice(&sec_off.to_be_bytes());
    }
    pri.extend_from_slice(&sec_off.to_be_bytes());
    let w = |ext: &str, data: &[u8]| {
        let p: PathBuf = dir.join(format!("{name}.{ext}"));
        fs::write(&p, data).unwrap_or_else(|e| die(&format!("write {}: {e}", p.display())));
    };
    w("chunk", &chunk);
    w("secondary", &sec);
    w("primary", &pri);
}

pub fn test_data() -> PathBuf {
    Path::new(&pv_core::repo_root()).join("test_data")
}
