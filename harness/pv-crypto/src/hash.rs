//! C10 — Hasher / Hash<N> / nonce API against spec/crypto/HashApi.tla.
//! Byte strings are logged as lower-case hex; every case starts with a
//! `reset` event (the learned part of H is per case).  Derived operations are
//! always preceded by the plain one-shot hashes of the inputs the
//! specification needs (the spec, not the harness, decides which those are:
//! a missing one makes TLC reject the event).
use pallas_codec::minicbor;
use pallas_codec::utils::Bytes;
use pallas_crypto::hash::{Hash, Hasher};
use pallas_crypto::nonce::{generate_epoch_nonce, generate_rolling_nonce};
use pv_core::*;
use std::str::FromStr;

struct Cx {
    rng: Rng,
    out: Ndjson,
}

/// lengths every byte-string argument of every entry point is driven with (besides random ones):
/// empty, 1, around the 32/64-byte values of the protocol and around the Blake2b block size
const EDGE_LENS: [usize; 10] = [0, 1, 31, 32, 33, 64, 127, 128, 129, 256];

fn one_shot(bits: u64, x: &[u8]) -> Vec<u8> {
    match bits {
        160 => Hasher::<160>::hash(x).to_vec(),
        224 => Hasher::<224>::hash(x).to_vec(),
        _ => Hasher::<256>::hash(x).to_vec(),
    }
}
fn tagged(bits: u64, x: &[u8], t: u8) -> Vec<u8> {
    match bits {
        160 => Hasher::<160>::hash_tagged(x, t).to_vec(),
        224 => Hasher::<224>::hash_tagged(x, t).to_vec(),
        _ => Hasher::<256>::hash_tagged(x, t).to_vec(),
    }
}
fn cbor<T: minicbor::Encode<()>>(bits: u64, x: &T) -> Vec<u8> {
    match bits {
        160 => Hasher::<160>::hash_cbor(x).to_vec(),
        224 => Hasher::<224>::hash_cbor(x).to_vec(),
        _ => Hasher::<256>::hash_cbor(x).to_vec(),
    }
}
fn tagged_cbor<T: minicbor::Encode<()>>(bits: u64, x: &T, t: u8) -> Vec<u8> {
    match bits {
        160 => Hasher::<160>::hash_tagged_cbor(x, t).to_vec(),
        224 => Hasher::<224>::hash_tagged_cbor(x, t).to_vec(),
        _ => Hasher::<256>::hash_tagged_cbor(x, t).to_vec(),
    }
}

enum AnyHasher {
    H160(Hasher<160>),
    H224(Hasher<224>),
    H256(Hasher<256>),
}
impl AnyHasher {
    fn new(bits: u64) -> Self {
        match bits {
            160 => AnyHasher::H160(Hasher::<160>::new()),
            224 => AnyHasher::H224(Hasher::<224>::new()),
            _ => AnyHasher::H256(Hasher::<256>::new()),
        }
    }
    fn input(&mut self, b: &[u8]) {
        match self {
            AnyHasher::H160(h) => h.input(b),
            AnyHasher::H224(h) => h.input(b),
            AnyHasher::H256(h) => h.input(b),
        }
    }
    fn finalize(self) -> Vec<u8> {
        match self {
            AnyHasher::H160(h) => h.finalize().to_vec(),
            AnyHasher::H224(h) => h.finalize().to_vec(),
            AnyHasher::H256(h) => h.finalize().to_vec(),
        }
    }
}

impl Cx {
    fn bits(&mut self) -> u64 {
        *self.rng.pick(&[160u64, 224, 256, 256])
    }
    fn reset(&mut self) {
        self.out.ev(json!({"ev": "reset"}));
    }
    fn plain(&mut self, bits: u64, x: &[u8]) -> Vec<u8> {
        let d = one_shot(bits, x);
        self.out.ev(json!({"ev": "hash", "bits": bits, "input": hex(x), "digest": hex(&d)}));
        d
    }
    /// random split points (empty chunks and the empty split included)
    fn split(&mut self, x: &[u8]) -> Vec<Vec<u8>> {
        let mut cuts: Vec<usize> = (0..self.rng.below(6)).map(|_| self.rng.below(x.len() as u64 + 1) as usize).collect();
        // favour cuts next to Blake2b block boundaries
        if x.len() > 128 && self.rng.bool() {
            cuts.push(128 * (1 + self.rng.below((x.len() / 128) as u64) as usize).min(x.len() / 128));
        }
        cuts.push(0);
        cuts.push(x.len());
        cuts.sort();
        let mut chunks: Vec<Vec<u8>> = cuts.windows(2).map(|w| x[w[0]..w[1]].to_vec()).collect();
        if chunks.is_empty() {
            chunks.push(vec![]);
        }
        chunks
    }
    /// two or three streaming hashers over the same input, differently split, interleaved
    fn streaming(&mut self, bits: u64, x: &[u8], k: usize) {
        let mut hs: Vec<(u64, AnyHasher, Vec<Vec<u8>>, usize)> = Vec::new();
        for h in 1..=k as u64 {
            self.out.ev(json!({"ev": "new", "h": h, "bits": bits}));
            let chunks = self.split(x);
            hs.push((h, AnyHasher::new(bits), chunks, 0));
        }
        while !hs.is_empty() {
            let i = self.rng.below(hs.len() as u64) as usize;
            if hs[i].3 < hs[i].2.len() {
                let c = hs[i].2[hs[i].3].clone();
                hs[i].1.input(&c);
                hs[i].3 += 1;
                self.out.ev(json!({"ev": "input", "h": hs[i].0, "chunk": hex(&c)}));
            } else {
                let (h, hasher, _, _) = hs.remove(i);
                let d = hasher.finalize();
                self.out.ev(json!({"ev": "finalize", "h": h, "digest": hex(&d)}));
            }
        }
    }
    fn input_of_len(&mut self, max: u64) -> Vec<u8> {
        let n = match self.rng.below(8) {
            0 => *self.rng.pick(&[0u64, 1, 31, 32, 33, 63, 64, 65, 127, 128, 129, 255, 256, 257, 1023, 1024]),
            1 => max,
            2 | 3 => self.rng.below(max + 1),
            _ => self.rng.below(300),
        }
        .min(max);
        self.rng.bytes(n as usize)
    }

    fn kat_case(&mut self) {
        let inputs: Vec<Vec<u8>> = vec![
            vec![],
            b"abc".to_vec(),
            (0..1024u32).map(|i| (i % 251) as u8).collect(),
            vec![0x5a; 128],
            vec![0xa5; 129],
        ];
        for bits in [160u64, 224, 256] {
            for x in &inputs {
                self.reset();
                let d = one_shot(bits, x);
                self.out.ev(json!({"ev": "kat", "bits": bits, "input": hex(x), "digest": hex(&d)}));
                self.streaming(bits, x, 2);
            }
        }
    }
    fn split_case(&mut self, max: u64, idx: usize) {
        self.reset();
        let bits = self.bits();
        let x = if idx < EDGE_LENS.len() { self.rng.bytes(EDGE_LENS[idx].min(max as usize)) } else { self.input_of_len(max) };
        // half of the cases let a streaming hasher define H and the one-shot agree afterwards
        if self.rng.bool() {
            self.plain(bits, &x);
            self.streaming(bits, &x, 3);
        } else {
            self.streaming(bits, &x, 2);
            self.plain(bits, &x);
        }
    }
    fn tagged_case(&mut self, tag: u8) {
        self.reset();
        let bits = self.bits();
        // tags 0..9 (and every 16th after) take the edge lengths in turn, the others random lengths
        let b = if (tag as usize) % 16 < EDGE_LENS.len() { self.rng.bytes(EDGE_LENS[(tag as usize) % 16]) } else { self.input_of_len(200) };
        let mut pre = vec![tag];
        pre.extend_from_slice(&b);
        self.plain(bits, &pre);
        let d = tagged(bits, &b, tag);
        self.out.ev(json!({"ev": "hash_tagged", "bits": bits, "bytes": hex(&b), "tag": tag, "digest": hex(&d)}));
        // the CBOR variant with the same tag (every tag byte goes through both variants)
        let x = (self.rng.next_u64() >> self.rng.below(64), tag);
        let ser = minicbor::to_vec(x).expect("encode");
        let mut pre = vec![tag];
        pre.extend_from_slice(&ser);
        self.plain(bits, &pre);
        let d = tagged_cbor(bits, &x, tag);
        self.out.ev(json!({"ev": "hash_tagged_cbor", "bits": bits, "ser": hex(&ser), "tag": tag, "digest": hex(&d)}));
    }
    fn cbor_value<T: minicbor::Encode<()>>(&mut self, x: &T) {
        self.reset();
        let bits = self.bits();
        let ser = minicbor::to_vec(x).expect("encode");
        self.plain(bits, &ser);
        let d = cbor(bits, x);
        self.out.ev(json!({"ev": "hash_cbor", "bits": bits, "ser": hex(&ser), "digest": hex(&d)}));
        let tag = self.rng.next_u64() as u8;
        let mut pre = vec![tag];
        pre.extend_from_slice(&ser);
        self.plain(bits, &pre);
        let d = tagged_cbor(bits, x, tag);
        self.out.ev(json!({"ev": "hash_tagged_cbor", "bits": bits, "ser": hex(&ser), "tag": tag, "digest": hex(&d)}));
    }
    fn cbor_case(&mut self) {
        match self.rng.below(8) {
            0 => { let v = self.rng.next_u64() >> self.rng.below(64); self.cbor_value(&v) }
            1 => { let v = (self.rng.next_u64() >> self.rng.below(64)) as i64 * if self.rng.bool() { -1 } else { 1 }; self.cbor_value(&v) }
            2 => { let n = self.rng.below(600) as usize; let v = Bytes::from(self.rng.bytes(n)); self.cbor_value(&v) }
            3 => { let n = self.rng.below(40) as usize; let v: String = (0..n).map(|_| (b'a' + self.rng.below(26) as u8) as char).collect(); self.cbor_value(&v) }
            4 => { let n = self.rng.below(30) as usize; let v: Vec<u32> = (0..n).map(|_| self.rng.next_u64() as u32 >> self.rng.below(32)).collect(); self.cbor_value(&v) }
            5 => { let v = (self.rng.next_u64(), Bytes::from(self.rng.bytes(28)), self.rng.bool()); self.cbor_value(&v) }
            6 => { let v: Option<u16> = if self.rng.bool() { Some(self.rng.next_u64() as u16) } else { None }; self.cbor_value(&v) }
            _ => { let mut h = [0u8; 32]; self.rng.fill(&mut h); let v = vec![Hash::<32>::new(h), Hash::<32>::new([7; 32])]; self.cbor_value(&v) }
        }
    }
    fn nonce_case(&mut self, idx: usize) {
        self.reset();
        let nc = self.rng.bytes(32);
        let nh = self.rng.bytes(32);
        // extra entropy: absent, every edge length (the empty string included), then random lengths
        let ee: Option<Vec<u8>> = match idx % (EDGE_LENS.len() + 3) {
            0 => None,
            k if k <= EDGE_LENS.len() => Some(self.rng.bytes(EDGE_LENS[k - 1])),
            _ => { let n = self.rng.below(70) as usize; Some(self.rng.bytes(n)) }
        };
        let mut cat = nc.clone();
        cat.extend_from_slice(&nh);
        let e = self.plain(256, &cat);
        if let Some(x) = &ee {
            let mut c2 = e.clone();
            c2.extend_from_slice(x);
            self.plain(256, &c2);
        }
        let d = generate_epoch_nonce(Hash::<32>::from(nc.as_slice()), Hash::<32>::from(nh.as_slice()), ee.as_deref());
        self.out.ev(json!({"ev": "epoch_nonce", "nc": hex(&nc), "nh": hex(&nh),
            "ee": ee.as_ref().map(|x| hex(x)).unwrap_or_else(|| "none".to_string()), "digest": hex(d.as_ref())}));
        // rolling nonce chain of three blocks
        let mut prev = self.rng.bytes(32);
        for _ in 0..3 {
            let vl = if self.rng.bool() { 32 } else { 64 };
            let vrf = self.rng.bytes(vl);
            let v = self.plain(256, &vrf);
            let mut c = prev.clone();
            c.extend_from_slice(&v);
            self.plain(256, &c);
            let d = generate_rolling_nonce(Hash::<32>::from(prev.as_slice()), &vrf);
            self.out.ev(json!({"ev": "rolling_nonce", "prev": hex(&prev), "vrf": hex(&vrf), "digest": hex(d.as_ref())}));
            prev = d.to_vec();
        }
    }
    fn value_case_n<const N: usize>(&mut self) {
        self.reset();
        let mut lens: Vec<usize> = vec![0, 1, N - 1, N, N, N + 1, 2 * N, 23, 24, 255, 256, 300];
        lens.push(self.rng.below(80) as usize);
        for len in lens.clone() {
            let p = self.rng.bytes(len);
            // hex form: also odd numbers of hex digits
            let mut s = hex(&p);
            if self.rng.chance(1, 5) && !s.is_empty() {
                s.pop();
            }
            let r = Hash::<N>::from_str(&s);
            self.out.ev(json!({"ev": "from_hex", "n": N, "s": s, "ok": r.is_ok(),
                "v": r.map(|h| h.to_string()).unwrap_or_default()}));
        }
        for len in lens {
            let p = self.rng.bytes(len);
            let mut buf = Vec::new();
            minicbor::Encoder::new(&mut buf).bytes(&p).expect("encode");
            let r: Result<Hash<N>, _> = minicbor::decode(&buf);
            self.out.ev(json!({"ev": "from_cbor", "n": N, "payload": hex(&p), "cbor": hex(&buf), "ok": r.is_ok(),
                "v": r.map(|h| hex(h.as_ref())).unwrap_or_default()}));
        }
        for _ in 0..3 {
            let p = self.rng.bytes(N);
            let h = Hash::<N>::from(p.as_slice());
            let enc = minicbor::to_vec(h).expect("encode");
            self.out.ev(json!({"ev": "to_cbor", "n": N, "v": hex(&p), "cbor": hex(&enc)}));
        }
    }
}

pub fn trace(args: &Args) {
    let mut cx = Cx { rng: Rng::new(args.seed()), out: Ndjson::create(args.get("out")) };
    let max = args.num("maxlen", 4096);
    let r = catch(|| {
        cx.kat_case();
        for i in 0..args.num("splits", 40) {
            cx.split_case(max, i as usize);
        }
        for round in 0..args.num("tagrounds", 1) {
            for t in 0..=255u8 {
                let _ = round;
                cx.tagged_case(t);
            }
        }
        for _ in 0..args.num("cbors", 40) {
            cx.cbor_case();
        }
        for i in 0..args.num("nonces", 30) {
            cx.nonce_case(i as usize);
        }
        for _ in 0..args.num("values", 1) {
            cx.value_case_n::<20>();
            cx.value_case_n::<28>();
            cx.value_case_n::<32>();
        }
    });
    if let Err(m) = r {
        cx.out.ev(json!({"ev": "panic", "panic": m}));
    }
    cx.out.finish();
}
