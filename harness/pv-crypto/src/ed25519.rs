//! C11 — key::ed25519 against spec/crypto/Ed25519Api.tla.
//! Reference implementation: ed25519-dalek (independent of cryptoxide).
use ed25519_dalek::hazmat::{raw_sign, ExpandedSecretKey};
use ed25519_dalek::{Signer, Verifier};
use pallas_crypto::key::ed25519::{PublicKey, SecretKey, SecretKeyExtended, Signature};
use pv_core::*;
use sha2::{Digest, Sha512};

/// print what the reference computes for the RFC 8032 7.1 secret keys / messages (used once to
/// cross-check the constants frozen in Ed25519Api.tla, and again by every check run)
pub fn katcheck(args: &Args) {
    let mut out = Ndjson::create(args.get("out"));
    for (sk, msg) in [
        ("9d61b19deffd5a60ba844af492ec2cc44449c5697b326919703bac031cae7f60", ""),
        ("4ccd089b28ff96da9db6c346ec114e0f5b8a319f35aba624da8cf6ed4fb8a6fb", "72"),
        ("c5aa8df43f9f837bedb7442f31dcb7b166d38535076f094b85ce3a2e0b4458f7", "af82"),
    ] {
        let seed: [u8; 32] = unhex(sk).try_into().unwrap();
        let m = unhex(msg);
        let k = ed25519_dalek::SigningKey::from_bytes(&seed);
        let pk = k.verifying_key().to_bytes();
        out.ev(json!({"ev": "reset"}));
        out.ev(json!({"ev": "public_key", "kind": "std", "src": "ref", "sk": sk, "pk": hex(&pk)}));
        out.ev(json!({"ev": "sign", "kind": "std", "src": "ref", "sk": sk, "msg": msg, "sig": hex(&k.sign(&m).to_bytes())}));
        let p = SecretKey::from(seed);
        out.ev(json!({"ev": "public_key", "kind": "std", "src": "pallas", "sk": sk, "pk": hex(p.public_key().as_ref())}));
        out.ev(json!({"ev": "sign", "kind": "std", "src": "pallas", "sk": sk, "msg": msg, "sig": hex(p.sign(&m).as_ref())}));
    }
    out.finish();
}

/// M1: clamping table rows {"k0":b,"rows":[[k31,accept],..]} -> SecretKeyExtended::from_bytes,
/// `fills` random fillings of the other 62 bytes per (k0, k31).
pub fn clamp_replay(args: &Args) {
    let rows = read_ndjson(args.get("in"));
    let mut rng = Rng::new(args.seed());
    let fills = args.num("fills", 2);
    let mut out = Ndjson::create(args.get("out"));
    for row in rows {
        let k0 = jint(&row["k0"]) as u8;
        let mut bad = Vec::new();
        let mut n = 0;
        for r in jarr(&row["rows"]) {
            let k31 = jint(&r[0]) as u8;
            let want = r[1].as_bool().unwrap_or_else(|| die("accept not bool"));
            for _ in 0..fills {
                let mut b = [0u8; 64];
                rng.fill(&mut b);
                b[0] = k0;
                b[31] = k31;
                let got = catch(|| SecretKeyExtended::from_bytes(b).is_ok() && SecretKeyExtended::try_from(b).is_ok());
                n += 1;
                match got {
                    Ok(g) if g == want => {}
                    Ok(g) => if bad.len() < 5 { bad.push(json!({"k0": k0, "k31": k31, "want": want, "got": g})) },
                    Err(m) => if bad.len() < 5 { bad.push(json!({"k0": k0, "k31": k31, "want": want, "panic": m})) },
                }
            }
        }
        out.ev(json!({"k0": k0, "n": n, "bad": bad}));
    }
    out.finish();
}

fn ext_of_seed(seed: &[u8; 32]) -> [u8; 64] {
    let mut h: [u8; 64] = Sha512::digest(seed).into();
    h[0] &= 248;
    h[31] &= 63;
    h[31] |= 64;
    h
}
fn clamp_random(rng: &mut Rng) -> [u8; 64] {
    let mut b = [0u8; 64];
    rng.fill(&mut b);
    b[0] &= 0b1111_1000;
    b[31] &= 0b0011_1111;
    b[31] |= 0b0100_0000;
    b
}
fn ref_ext_pk(k: &[u8; 64]) -> [u8; 32] {
    let esk = ExpandedSecretKey::from_bytes(k);
    ed25519_dalek::VerifyingKey::from(&esk).to_bytes()
}
fn ref_ext_sign(k: &[u8; 64], m: &[u8]) -> [u8; 64] {
    let esk = ExpandedSecretKey::from_bytes(k);
    let vk = ed25519_dalek::VerifyingKey::from(&esk);
    raw_sign::<Sha512>(&esk, m, &vk).to_bytes()
}
fn ref_verify(pk: &[u8; 32], m: &[u8], s: &[u8; 64]) -> bool {
    match ed25519_dalek::VerifyingKey::from_bytes(pk) {
        Ok(vk) => vk.verify(m, &ed25519_dalek::Signature::from_bytes(s)).is_ok(),
        Err(_) => false,
    }
}

struct Cx {
    rng: Rng,
    out: Ndjson,
    tamper_all: bool,
}
impl Cx {
    fn verify_both(&mut self, pk: &[u8; 32], m: &[u8], s: &[u8; 64]) {
        let ok = PublicKey::from(*pk).verify(m, &Signature::from(*s));
        self.out.ev(json!({"ev": "verify", "src": "pallas", "pk": hex(pk), "msg": hex(m), "sig": hex(s), "ok": ok}));
        let okr = ref_verify(pk, m, s);
        self.out.ev(json!({"ev": "verify", "src": "ref", "pk": hex(pk), "msg": hex(m), "sig": hex(s), "ok": okr}));
    }
    /// single-bit tamperings of message / key / signature: all of them when `all`, else a sample
    fn tamper(&mut self, pk: &[u8; 32], m: &[u8], s: &[u8; 64], all: bool) {
        let pick = |rng: &mut Rng, nbits: usize, all: bool| -> Vec<usize> {
            if nbits == 0 { return vec![]; }
            if all { (0..nbits).collect() } else {
                let mut v = vec![0, nbits - 1];
                for _ in 0..3 { v.push(rng.below(nbits as u64) as usize); }
                v
            }
        };
        for b in pick(&mut self.rng, m.len() * 8, all && m.len() <= 64) {
            let mut m2 = m.to_vec();
            m2[b / 8] ^= 1 << (b % 8);
            self.verify_both(pk, &m2, s);
        }
        for b in pick(&mut self.rng, 256, all) {
            let mut p2 = *pk;
            p2[b / 8] ^= 1 << (b % 8);
            self.verify_both(&p2, m, s);
        }
        for b in pick(&mut self.rng, 512, all) {
            let mut s2 = *s;
            s2[b / 8] ^= 1 << (b % 8);
            self.verify_both(pk, m, &s2);
        }
        // truncated / extended message
        if !m.is_empty() { self.verify_both(pk, &m[..m.len() - 1], s); }
        let mut m3 = m.to_vec();
        m3.push(0);
        self.verify_both(pk, &m3, s);
    }
    fn msg(&mut self) -> Vec<u8> {
        let n = match self.rng.below(6) { 0 => 0, 1 => 1, 2 => 1024, 3 => self.rng.below(1025), _ => self.rng.below(100) };
        self.rng.bytes(n as usize)
    }
    fn std_case(&mut self, full: bool) {
        self.out.ev(json!({"ev": "reset"}));
        let mut seed = [0u8; 32];
        self.rng.fill(&mut seed);
        let sk = SecretKey::from(seed);
        let pk: [u8; 32] = sk.public_key().into();
        let rk = ed25519_dalek::SigningKey::from_bytes(&seed);
        let order = self.rng.bool();
        let evp = json!({"ev": "public_key", "kind": "std", "src": "pallas", "sk": hex(&seed), "pk": hex(&pk)});
        let evr = json!({"ev": "public_key", "kind": "std", "src": "ref", "sk": hex(&seed), "pk": hex(&rk.verifying_key().to_bytes())});
        if order { self.out.ev(evp); self.out.ev(evr); } else { self.out.ev(evr); self.out.ev(evp); }
        let mut sigs = Vec::new();
        for _ in 0..2 {
            let m = self.msg();
            let s: [u8; 64] = sk.sign(&m).as_ref().try_into().unwrap();
            self.out.ev(json!({"ev": "sign", "kind": "std", "src": "pallas", "sk": hex(&seed), "msg": hex(&m), "sig": hex(&s)}));
            self.out.ev(json!({"ev": "sign", "kind": "std", "src": "ref", "sk": hex(&seed), "msg": hex(&m), "sig": hex(&rk.sign(&m).to_bytes())}));
            self.verify_both(&pk, &m, &s);
            sigs.push((m, s));
        }
        // the extended form of the same key (SHA-512 expansion) signs identically under the same public key
        let ext = ext_of_seed(&seed);
        if let Ok(esk) = SecretKeyExtended::from_bytes(ext) {
            let epk: [u8; 32] = esk.public_key().into();
            self.out.ev(json!({"ev": "public_key", "kind": "ext", "src": "pallas", "sk": hex(&ext), "pk": hex(&epk)}));
            let (m, _) = &sigs[0];
            let s: [u8; 64] = esk.sign(m).as_ref().try_into().unwrap();
            self.out.ev(json!({"ev": "sign", "kind": "ext", "src": "pallas", "sk": hex(&ext), "msg": hex(m), "sig": hex(&s)}));
            self.verify_both(&epk, m, &s);
        }
        // cross: signature of message 1 on message 2 and vice versa
        self.verify_both(&pk, &sigs[0].0.clone(), &sigs[1].1.clone());
        let (m, s) = sigs[0].clone();
        self.tamper(&pk, &m, &s, full);
    }
    fn ext_case(&mut self, full: bool) {
        self.out.ev(json!({"ev": "reset"}));
        let k = clamp_random(&mut self.rng);
        let sk = match SecretKeyExtended::from_bytes(k) {
            Ok(s) => s,
            Err(_) => { self.out.ev(json!({"ev": "from_bytes", "k0": k[0], "k31": k[31], "ok": false})); return; }
        };
        self.out.ev(json!({"ev": "from_bytes", "k0": k[0], "k31": k[31], "ok": true}));
        let pk: [u8; 32] = sk.public_key().into();
        self.out.ev(json!({"ev": "public_key", "kind": "ext", "src": "ref", "sk": hex(&k), "pk": hex(&ref_ext_pk(&k))}));
        self.out.ev(json!({"ev": "public_key", "kind": "ext", "src": "pallas", "sk": hex(&k), "pk": hex(&pk)}));
        let m = self.msg();
        let s: [u8; 64] = sk.sign(&m).as_ref().try_into().unwrap();
        self.out.ev(json!({"ev": "sign", "kind": "ext", "src": "pallas", "sk": hex(&k), "msg": hex(&m), "sig": hex(&s)}));
        self.out.ev(json!({"ev": "sign", "kind": "ext", "src": "ref", "sk": hex(&k), "msg": hex(&m), "sig": hex(&ref_ext_sign(&k, &m))}));
        self.verify_both(&pk, &m, &s);
        self.tamper(&pk, &m, &s, full);
        // unclamped random bytes through from_bytes
        let mut r = [0u8; 64];
        self.rng.fill(&mut r);
        let ok = SecretKeyExtended::from_bytes(r).is_ok();
        self.out.ev(json!({"ev": "from_bytes", "k0": r[0], "k31": r[31], "ok": ok}));
    }
}

impl Cx {
    /// structured seed families used one after the other and interleaved on one thread: same
    /// 8/16/31-byte prefix, differing in one late bit, label || index.  Everything a key produces
    /// is logged next to the reference's value, every signature is verified under its own key and
    /// under its sibling's key (must fail).
    fn family_case(&mut self, which: u64) {
        self.out.ev(json!({"ev": "reset"}));
        let mut base = [0u8; 32];
        self.rng.fill(&mut base);
        let mut seeds: Vec<[u8; 32]> = vec![base];
        match which % 4 {
            0 => for cut in [8usize, 16, 31] { let mut s = base; for b in s[cut..].iter_mut() { *b = self.rng.next_u64() as u8; } seeds.push(s); },
            1 => for bit in [255usize, 200, 64, 65] { let mut s = base; s[bit / 8] ^= 1 << (bit % 8); seeds.push(s); },
            2 => { seeds.clear(); for i in 0..4u8 { let mut s = [0u8; 32]; s[..12].copy_from_slice(b"pallas-label"); s[31] = i; seeds.push(s); } },
            _ => { let mut s = base; s[31] = s[31].wrapping_add(1); seeds.push(s); let mut t = base; t[8] ^= 0xff; seeds.push(t); },
        }
        let m = self.msg();
        // order: K1, K2, .., Kn, K1, K2, K1 (first use, then interleaved re-use)
        let mut order: Vec<usize> = (0..seeds.len()).collect();
        order.extend([0, 1, 0]);
        let mut last: Vec<Option<([u8; 32], [u8; 64])>> = vec![None; seeds.len()];
        for (step, &i) in order.iter().enumerate() {
            let seed = seeds[i];
            let sk = SecretKey::from(seed);
            let rk = ed25519_dalek::SigningKey::from_bytes(&seed);
            // alternate which operation touches the key first
            let (pk, s): ([u8; 32], [u8; 64]) = if step % 2 == 0 {
                let pk: [u8; 32] = sk.public_key().into();
                (pk, sk.sign(&m).as_ref().try_into().unwrap())
            } else {
                let s: [u8; 64] = sk.sign(&m).as_ref().try_into().unwrap();
                (sk.public_key().into(), s)
            };
            self.out.ev(json!({"ev": "public_key", "kind": "std", "src": "ref", "sk": hex(&seed), "pk": hex(&rk.verifying_key().to_bytes())}));
            self.out.ev(json!({"ev": "public_key", "kind": "std", "src": "pallas", "sk": hex(&seed), "pk": hex(&pk)}));
            self.out.ev(json!({"ev": "sign", "kind": "std", "src": "ref", "sk": hex(&seed), "msg": hex(&m), "sig": hex(&rk.sign(&m).to_bytes())}));
            self.out.ev(json!({"ev": "sign", "kind": "std", "src": "pallas", "sk": hex(&seed), "msg": hex(&m), "sig": hex(&s)}));
            self.verify_both(&pk, &m, &s);
            last[i] = Some((pk, s));
            // the sibling's signature must not verify under this key
            let j = (i + 1) % seeds.len();
            if let Some((_, sj)) = last[j] {
                if j != i { self.verify_both(&pk, &m, &sj); }
            }
        }
    }
}

pub fn trace(args: &Args) {
    let mut cx = Cx { rng: Rng::new(args.seed()), out: Ndjson::create(args.get("out")), tamper_all: false };
    let full_every = args.num("fullevery", 10);
    let r = catch(|| {
        for i in 0..args.num("cases", 30) {
            cx.tamper_all = i % full_every == 0;
            let full = cx.tamper_all;
            if i % 2 == 0 { cx.std_case(full) } else { cx.ext_case(full) }
        }
        for i in 0..args.num("families", 8) {
            cx.family_case(i);
        }
    });
    if let Err(m) = r {
        cx.out.ev(json!({"ev": "panic", "panic": m}));
    }
    cx.out.finish();
}

// ---------------------------------------------------------------------------------------------
// Degenerate / edge vectors (fixed family, no randomness): small-order and non-canonical points,
// boundary scalars.  For every vector the harness logs the *facts* the RFC 8032 5.1.7 procedure
// depends on (computed with curve25519-dalek) and the answers of pallas-crypto (twice) and of the
// reference (ed25519-dalek verify and verify_strict); TLC classifies and judges (Ed25519Api.tla).
use curve25519_dalek::constants::{ED25519_BASEPOINT_POINT as B, EIGHT_TORSION};
use curve25519_dalek::edwards::{CompressedEdwardsY, EdwardsPoint};
use curve25519_dalek::scalar::Scalar as Sc;
use curve25519_dalek::traits::IsIdentity;

const L_BYTES: [u8; 32] = [
    0xed, 0xd3, 0xf5, 0x5c, 0x1a, 0x63, 0x12, 0x58, 0xd6, 0x9c, 0xf7, 0xa2, 0xde, 0xf9, 0xde, 0x14,
    0, 0, 0, 0, 0, 0, 0, 0, 0, 0, 0, 0, 0, 0, 0, 0x10,
];

fn hram(r: &[u8; 32], a: &[u8; 32], m: &[u8]) -> Sc {
    let mut h = Sha512::new();
    h.update(r);
    h.update(a);
    h.update(m);
    Sc::from_bytes_mod_order_wide(&h.finalize().into())
}
fn add_le(a: &[u8; 32], b: &[u8; 32]) -> [u8; 32] {
    let mut out = [0u8; 32];
    let mut c = 0u16;
    for i in 0..32 {
        let v = a[i] as u16 + b[i] as u16 + c;
        out[i] = v as u8;
        c = v >> 8;
    }
    out
}

struct Edge<'a> {
    out: &'a mut Ndjson,
    n: usize,
}
impl Edge<'_> {
    fn vector(&mut self, name: &str, a: [u8; 32], r: [u8; 32], s: [u8; 32], m: &[u8]) {
        let ap = CompressedEdwardsY(a).decompress();
        let rp = CompressedEdwardsY(r).decompress();
        let k = hram(&r, &a, m);
        let ss = Sc::from_bytes_mod_order(s);
        let (eq1, eq8) = match (ap, rp) {
            (Some(ap), Some(rp)) => {
                let d: EdwardsPoint = ss * B - rp - k * ap;
                (d.is_identity(), d.mul_by_cofactor().is_identity())
            }
            _ => (false, false),
        };
        let canon = |p: &Option<EdwardsPoint>, enc: &[u8; 32]| p.map(|p| p.compress().to_bytes() == *enc).unwrap_or(false);
        let small = |p: &Option<EdwardsPoint>| p.map(|p| p.is_small_order()).unwrap_or(false);
        let mut sig = [0u8; 64];
        sig[..32].copy_from_slice(&r);
        sig[32..].copy_from_slice(&s);
        let ok = PublicKey::from(a).verify(m, &Signature::from(sig));
        let ok2 = PublicKey::from(a).verify(m, &Signature::from(sig));
        let (rf, rfs) = match ed25519_dalek::VerifyingKey::from_bytes(&a) {
            Ok(vk) => {
                let sg = ed25519_dalek::Signature::from_bytes(&sig);
                (vk.verify(m, &sg).is_ok(), vk.verify_strict(m, &sg).is_ok())
            }
            Err(_) => (false, false),
        };
        self.n += 1;
        self.out.ev(json!({"ev": "edge_verify", "name": name, "a": a.to_vec(), "r": r.to_vec(), "s": s.to_vec(), "msg": hex(m),
            "a_dec": ap.is_some(), "r_dec": rp.is_some(), "a_canon": canon(&ap, &a), "r_canon": canon(&rp, &r),
            "a_small": small(&ap), "r_small": small(&rp), "eq1": eq1, "eq8": eq8,
            "ok": ok, "ok2": ok2, "ref": rf, "ref_strict": rfs}));
    }
}

pub fn edge(args: &Args) {
    let mut out = Ndjson::create(args.get("out"));
    out.ev(json!({"ev": "reset"}));
    let mut e = Edge { out: &mut out, n: 0 };
    let msgs: Vec<Vec<u8>> = vec![vec![], b"abc".to_vec(), vec![0x5a; 64]];
    let zero = [0u8; 32];
    let mut one = [0u8; 32];
    one[0] = 1;
    let mut eight = [0u8; 32];
    eight[0] = 8;
    let mut lm1 = L_BYTES;
    lm1[0] -= 1;
    let neutral = EIGHT_TORSION[0].compress().to_bytes();
    let tors: Vec<[u8; 32]> = EIGHT_TORSION.iter().map(|p| p.compress().to_bytes()).collect();
    let enc = |p: EdwardsPoint| p.compress().to_bytes();
    // an honest key (fixed seed) and its raw scalar / prefix for hand-made signatures
    let seed = [0x42u8; 32];
    let hk = ed25519_dalek::SigningKey::from_bytes(&seed);
    let a_hon = hk.verifying_key().to_bytes();
    let ext = ext_of_seed(&seed);
    let a_sc = Sc::from_bytes_mod_order(ext[..32].try_into().unwrap());
    for m in &msgs {
        // 1. neutral public key: valid for every message with (R, S) = ([s]B, s)
        e.vector("neutral-A/R=neutral/S=0", neutral, neutral, zero, m);
        e.vector("neutral-A/R=B/S=1", neutral, enc(B), one, m);
        e.vector("neutral-A/R=8B/S=8", neutral, enc(Sc::from(8u8) * B), eight, m);
        e.vector("neutral-A/R=-B/S=L-1", neutral, enc(-B), lm1, m);
        e.vector("neutral-A/R=neutral/S=L", neutral, neutral, L_BYTES, m);                 // non-canonical S
        e.vector("neutral-A/R=B/S=L+1", neutral, enc(B), add_le(&L_BYTES, &one), m);
        let mut hi = one;
        hi[31] |= 0x80;
        e.vector("neutral-A/R=B/S=1+2^255", neutral, enc(B), hi, m);
        let mut hi2 = zero;
        hi2[31] = 0xf0;
        e.vector("neutral-A/R=neutral/S=0xf0<<248", neutral, neutral, hi2, m);
        e.vector("neutral-A/R=B/S=0 (equation false)", neutral, enc(B), zero, m);
        // 2. every pair of small-order A and R with S = 0 (verdict depends on k mod order)
        for (i, a) in tors.iter().enumerate() {
            for (j, r) in tors.iter().enumerate() {
                if i != 0 || j != 0 {
                    e.vector(&format!("torsion-A{i}/torsion-R{j}/S=0"), *a, *r, zero, m);
                }
            }
        }
        // 3. honest signature and its perturbations
        let sig = hk.sign(m).to_bytes();
        let r_hon: [u8; 32] = sig[..32].try_into().unwrap();
        let s_hon: [u8; 32] = sig[32..].try_into().unwrap();
        e.vector("honest", a_hon, r_hon, s_hon, m);
        e.vector("honest/S+L", a_hon, r_hon, add_le(&s_hon, &L_BYTES), m);
        let mut s_hi = s_hon;
        s_hi[31] |= 0x80;
        e.vector("honest/S+2^255", a_hon, r_hon, s_hi, m);
        e.vector("honest/S=0", a_hon, r_hon, zero, m);
        e.vector("honest/S+1", a_hon, r_hon, add_le(&s_hon, &one), m);
        let rp = CompressedEdwardsY(r_hon).decompress().unwrap();
        for t in [1usize, 2, 4] {
            e.vector(&format!("honest/R+T{t} (same S)"), a_hon, enc(rp + EIGHT_TORSION[t]), s_hon, m);
        }
        // 4. mixed-order public key A' = A + T, signed by hand with the honest scalar
        for t in [1usize, 4] {
            let a_mixed = enc(hk.verifying_key().to_edwards() + EIGHT_TORSION[t]);
            let rr = Sc::from_bytes_mod_order([0x17u8; 32]);
            let r_enc = enc(rr * B);
            let k = hram(&r_enc, &a_mixed, m);
            e.vector(&format!("mixed-order-A+T{t}/hand-signed"), a_mixed, r_enc, (rr + k * a_sc).to_bytes(), m);
        }
    }
    // 5. the all-zero public key (y = 0: a point of order 4) with R = neutral, S = 0 on messages chosen so that
    //    the cofactorless equation holds (k = 0 mod 4) resp. fails
    let (mut hit, mut miss) = (0, 0);
    for c in 0u32..200 {
        let m = c.to_be_bytes();
        let k4 = hram(&neutral, &zero, &m).to_bytes()[0] & 3;
        if k4 == 0 && hit < 2 {
            hit += 1;
            e.vector("all-zero-A/R=neutral/S=0/k=0mod4", zero, neutral, zero, &m);
        } else if k4 != 0 && miss < 2 {
            miss += 1;
            e.vector("all-zero-A/R=neutral/S=0/k!=0mod4", zero, neutral, zero, &m);
        }
    }
    // 6. non-canonical encodings: y >= p and "negative zero" (x = 0 with the sign bit set)
    let mut p_plus_1 = [0xffu8; 32];                      // p + 1 = 2^255 - 18  ==  y = 1 (neutral)
    p_plus_1[0] = 0xee;
    p_plus_1[31] = 0x7f;
    let mut p_enc = [0xffu8; 32];                         // p  ==  y = 0 (order 4)
    p_enc[0] = 0xed;
    p_enc[31] = 0x7f;
    let mut neg_zero = neutral;                           // y = 1, sign bit set
    neg_zero[31] |= 0x80;
    let mut minus1_neg = tors[4];                         // y = -1 (order 2), sign bit set
    minus1_neg[31] |= 0x80;
    for m in &msgs {
        e.vector("noncanon-A=p+1/R=neutral/S=0", p_plus_1, neutral, zero, m);
        e.vector("neutral-A/noncanon-R=p+1/S=0", neutral, p_plus_1, zero, m);
        e.vector("noncanon-A=negzero/R=neutral/S=0", neg_zero, neutral, zero, m);
        e.vector("neutral-A/noncanon-R=negzero/S=0", neutral, neg_zero, zero, m);
        e.vector("noncanon-A=p/R=neutral/S=0", p_enc, neutral, zero, m);
        e.vector("noncanon-A=-1negzero/R=neutral/S=0", minus1_neg, neutral, zero, m);
        let mut off = [0u8; 32];
        off[0] = 2;                                       // y = 2 is not on the curve
        e.vector("A-not-on-curve(y=2)/R=neutral/S=0", off, neutral, zero, m);
        e.vector("honest-A/R-not-on-curve(y=2)/S=0", a_hon, off, zero, m);
    }
    out.finish();
}
