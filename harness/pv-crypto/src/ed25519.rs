//! C11 — key::ed25519 against spec/crypto/Ed25519Api.tla.
//! Reference implementation: ed25519-dalek (independent of cryptoxide).
use ed25519_dalek::hazmat::{raw_sign, ExpandedSecretKey};
use ed25519_dalek::{Signer, Verifier};
use pallas_crypto::key::ed25519::{PublicKey, SecretKey, SecretKeyExtended, Signature};
use pv_core::*;
use sha2::{Digest, Sha512};

/// print what the reference computes for the RFC 8032 7.1 secret keys / messages (used once to
/// cross-check the constants frozen in Ed25519Api.tla, and again by every check run)
pub fn katcheck(args: &Args) {
    let mut out = Ndjson::create(args.get("out"));
    for (sk, msg) in [
        ("9d61b19deffd5a60ba844af492ec2cc44449c5697b326919703bac031cae7f60", ""),
        ("4ccd089b28ff96da9db6c346ec114e0f5b8a319f35aba624da8cf6ed4fb8a6fb", "72"),
        ("c5aa8df43f9f837bedb7442f31dcb7b166d38535076f094b85ce3a2e0b4458f7", "af82"),
    ] {
        let seed: [u8; 32] = unhex(sk).try_into().unwrap();
        let m = unhex(msg);
        let k = ed25519_dalek::SigningKey::from_bytes(&seed);
        let pk = k.verifying_key().to_bytes();
        out.ev(json!({"ev": "reset"}));
        out.ev(json!({"ev": "public_key", "kind": "std", "src": "ref", "sk": sk, "pk": hex(&pk)}));
        out.ev(json!({"ev": "sign", "kind": "std", "src": "ref", "sk": sk, "msg": msg, "sig": hex(&k.sign(&m).to_bytes())}));
        let p = SecretKey::from(seed);
        out.ev(json!({"ev": "public_key", "kind": "std", "src": "pallas", "sk": sk, "pk": hex(p.public_key().as_ref())}));
        out.ev(json!({"ev": "sign", "kind": "std", "src": "pallas", "sk": sk, "msg": msg, "sig": hex(p.sign(&m).as_ref())}));
    }
    out.finish();
}

/// M1: clamping table rows {"k0":b,"rows":[[k31,accept],..]} -> SecretKeyExtended::from_bytes,
/// `fills` random fillings of the other 62 bytes per (k0, k31).
pub fn clamp_replay(args: &Args) {
    let rows = read_ndjson(args.get("in"));
    let mut rng = Rng::new(args.seed());
    let fills = args.num("fills", 2);
    let mut out = Ndjson::create(args.get("out"));
    for row in rows {
        let k0 = jint(&row["k0"]) as u8;
        let mut bad = Vec::new();
        let mut n = 0;
        for r in jarr(&row["rows"]) {
            let k31 = jint(&r[0]) as u8;
            let want = r[1].as_bool().unwrap_or_else(|| die("accept not bool"));
            for _ in 0..fills {
                let mut b = [0u8; 64];
                rng.fill(&mut b);
                b[0] = k0;
                b[31] = k31;
                let got = catch(|| SecretKeyExtended::from_bytes(b).is_ok() && SecretKeyExtended::try_from(b).is_ok());
                n += 1;
                match got {
                    Ok(g) if g == want => {}
                    Ok(g) => if bad.len() < 5 { bad.push(json!({"k0": k0, "k31": k31, "want": want, "got": g})) },
                    Err(m) => if bad.len() < 5 { bad.push(json!({"k0": k0, "k31": k31, "want": want, "panic": m})) },
                }
            }
        }
        out.ev(json!({"k0": k0, "n": n, "bad": bad}));
    }
    out.finish();
}

fn ext_of_seed(seed: &[u8; 32]) -> [u8; 64] {
    let mut h: [u8; 64] = Sha512::digest(seed).into();
    h[0] &= 248;
    h[31] &= 63;
    h[31] |= 64;
    h
}
fn clamp_random(rng: &mut Rng) -> [u8; 64] {
    let mut b = [0u8; 64];
    rng.fill(&mut b);
    b[0] &= 0b1111_1000;
    b[31] &= 0b0011_1111;
    b[31] |= 0b0100_0000;
    b
}
fn ref_ext_pk(k: &[u8; 64]) -> [u8; 32] {
    let esk = ExpandedSecretKey::from_bytes(k);
    ed25519_dalek::VerifyingKey::from(&esk).to_bytes()
}
fn ref_ext_sign(k: &[u8; 64], m: &[u8]) -> [u8; 64] {
    let esk = ExpandedSecretKey::from_bytes(k);
    let vk = ed25519_dalek::VerifyingKey::from(&esk);
    raw_sign::<Sha512>(&esk, m, &vk).to_bytes()
}
fn ref_verify(pk: &[u8; 32], m: &[u8], s: &[u8; 64]) -> bool {
    match ed25519_dalek::VerifyingKey::from_bytes(pk) {
        Ok(vk) => vk.verify(m, &ed25519_dalek::Signature::from_bytes(s)).is_ok(),
        Err(_) => false,
    }
}

struct Cx {
    rng: Rng,
    out: Ndjson,
    tamper_all: bool,
}
impl Cx {
    fn verify_both(&mut self, pk: &[u8; 32], m: &[u8], s: &[u8; 64]) {
        let ok = PublicKey::from(*pk).verify(m, &Signature::from(*s));
        self.out.ev(json!({"ev": "verify", "src": "pallas", "pk": hex(pk), "msg": hex(m), "sig": hex(s), "ok": ok}));
        let okr = ref_verify(pk, m, s);
        self.out.ev(json!({"ev": "verify", "src": "ref", "pk": hex(pk), "msg": hex(m), "sig": hex(s), "ok": okr}));
    }
    /// single-bit tamperings of message / key / signature: all of them when `all`, else a sample
    fn tamper(&mut self, pk: &[u8; 32], m: &[u8], s: &[u8; 64], all: bool) {
        let pick = |rng: &mut Rng, nbits: usize, all: bool| -> Vec<usize> {
            if nbits == 0 { return vec![]; }
            if all { (0..nbits).collect() } else {
                let mut v = vec![0, nbits - 1];
                for _ in 0..3 { v.push(rng.below(nbits as u64) as usize); }
                v
            }
        };
        for b in pick(&mut self.rng, m.len() * 8, all && m.len() <= 64) {
            let mut m2 = m.to_vec();
            m2[b / 8] ^= 1 << (b % 8);
            self.verify_both(pk, &m2, s);
        }
        for b in pick(&mut self.rng, 256, all) {
            let mut p2 = *pk;
            p2[b / 8] ^= 1 << (b % 8);
            self.verify_both(&p2, m, s);
        }
        for b in pick(&mut self.rng, 512, all) {
            let mut s2 = *s;
            s2[b / 8] ^= 1 << (b % 8);
            self.verify_both(pk, m, &s2);
        }
        // truncated / extended message
        if !m.is_empty() { self.verify_both(pk, &m[..m.len() - 1], s); }
        let mut m3 = m.to_vec();
        m3.push(0);
        self.verify_both(pk, &m3, s);
    }
    fn msg(&mut self) -> Vec<u8> {
        let n = match self.rng.below(6) { 0 => 0, 1 => 1, 2 => 1024, 3 => self.rng.below(1025), _ => self.rng.below(100) };
        self.rng.bytes(n as usize)
    }
    fn std_case(&mut self, full: bool) {
        self.out.ev(json!({"ev": "reset"}));
        let mut seed = [0u8; 32];
        self.rng.fill(&mut seed);
        let sk = SecretKey::from(seed);
        let pk: [u8; 32] = sk.public_key().into();
        let rk = ed25519_dalek::SigningKey::from_bytes(&seed);
        let order = self.rng.bool();
        let evp = json!({"ev": "public_key", "kind": "std", "src": "pallas", "sk": hex(&seed), "pk": hex(&pk)});
        let evr = json!({"ev": "public_key", "kind": "std", "src": "ref", "sk": hex(&seed), "pk": hex(&rk.verifying_key().to_bytes())});
        if order { self.out.ev(evp); self.out.ev(evr); } else { self.out.ev(evr); self.out.ev(evp); }
        let mut sigs = Vec::new();
        for _ in 0..2 {
            let m = self.msg();
            let s: [u8; 64] = sk.sign(&m).as_ref().try_into().unwrap();
            self.out.ev(json!({"ev": "sign", "kind": "std", "src": "pallas", "sk": hex(&seed), "msg": hex(&m), "sig": hex(&s)}));
            self.out.ev(json!({"ev": "sign", "kind": "std", "src": "ref", "sk": hex(&seed), "msg": hex(&m), "sig": hex(&rk.sign(&m).to_bytes())}));
            self.verify_both(&pk, &m, &s);
            sigs.push((m, s));
        }
        // the extended form of the same key (SHA-512 expansion) signs identically under the same public key
        let ext = ext_of_seed(&seed);
        if let Ok(esk) = SecretKeyExtended::from_bytes(ext) {
            let epk: [u8; 32] = esk.public_key().into();
            self.out.ev(json!({"ev": "public_key", "kind": "ext", "src": "pallas", "sk": hex(&ext), "pk": hex(&epk)}));
            let (m, _) = &sigs[0];
            let s: [u8; 64] = esk.sign(m).as_ref().try_into().unwrap();
            self.out.ev(json!({"ev": "sign", "kind": "ext", "src": "pallas", "sk": hex(&ext), "msg": hex(m), "sig": hex(&s)}));
            self.verify_both(&epk, m, &s);
        }
        // cross: signature of message 1 on message 2 and vice versa
        self.verify_both(&pk, &sigs[0].0.clone(), &sigs[1].1.clone());
        let (m, s) = sigs[0].clone();
        self.tamper(&pk, &m, &s, full);
    }
    fn ext_case(&mut self, full: bool) {
        self.out.ev(json!({"ev": "reset"}));
        let k = clamp_random(&mut self.rng);
        let sk = match SecretKeyExtended::from_bytes(k) {
            Ok(s) => s,
            Err(_) => { self.out.ev(json!({"ev": "from_bytes", "k0": k[0], "k31": k[31], "ok": false})); return; }
        };
        self.out.ev(json!({"ev": "from_bytes", "k0": k[0], "k31": k[31], "ok": true}));
        let pk: [u8; 32] = sk.public_key().into();
        self.out.ev(json!({"ev": "public_key", "kind": "ext", "src": "ref", "sk": hex(&k), "pk": hex(&ref_ext_pk(&k))}));
        self.out.ev(json!({"ev": "public_key", "kind": "ext", "src": "pallas", "sk": hex(&k), "pk": hex(&pk)}));
        let m = self.msg();
        let s: [u8; 64] = sk.sign(&m).as_ref().try_into().unwrap();
        self.out.ev(json!({"ev": "sign", "kind": "ext", "src": "pallas", "sk": hex(&k), "msg": hex(&m), "sig": hex(&s)}));
        self.out.ev(json!({"ev": "sign", "kind": "ext", "src": "ref", "sk": hex(&k), "msg": hex(&m), "sig": hex(&ref_ext_sign(&k, &m))}));
        self.verify_both(&pk, &m, &s);
        self.tamper(&pk, &m, &s, full);
        // unclamped random bytes through from_bytes
        let mut r = [0u8; 64];
        self.rng.fill(&mut r);
        let ok = SecretKeyExtended::from_bytes(r).is_ok();
        self.out.ev(json!({"ev": "from_bytes", "k0": r[0], "k31": r[31], "ok": ok}));
    }
}

pub fn trace(args: &Args) {
    let mut cx = Cx { rng: Rng::new(args.seed()), out: Ndjson::create(args.get("out")), tamper_all: false };
    let full_every = args.num("fullevery", 10);
    let r = catch(|| {
        for i in 0..args.num("cases", 30) {
            cx.tamper_all = i % full_every == 0;
            let full = cx.tamper_all;
            if i % 2 == 0 { cx.std_case(full) } else { cx.ext_case(full) }
        }
    });
    if let Err(m) = r {
        cx.out.ev(json!({"ev": "panic", "panic": m}));
    }
    cx.out.finish();
}
