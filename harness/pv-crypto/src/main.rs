//! Conformance drivers for pallas-crypto (C10..C14).
mod ed25519;
mod hash;
mod kes;
mod memsec;

fn main() {
    let args = pv_core::Args::parse();
    match args.cmd.as_str() {
        "ed25519-katcheck" => ed25519::katcheck(&args),
        "ed25519-clamp-replay" => ed25519::clamp_replay(&args),
        "ed25519-trace" => ed25519::trace(&args),
        "ed25519-edge" => ed25519::edge(&args),
        "hash-trace" => hash::trace(&args),
        "kes-trace" => kes::trace(&args),
        "memsec-replay" => memsec::replay(&args),
        "memsec-trace" => memsec::trace(&args),
        other => pv_core::die(&format!("unknown sub-command {other}")),
    }
}
