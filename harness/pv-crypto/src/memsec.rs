//! C14 — memsec::{memcmp, memeq} against spec/crypto/Memsec.tla.
use pallas_crypto::memsec::{memcmp, memeq};
use pv_core::*;
use std::cmp::Ordering;

fn cmp_i(a: &[u8], b: &[u8]) -> i64 {
    match unsafe { memcmp(a.as_ptr(), b.as_ptr(), a.len()) } {
        Ordering::Less => -1,
        Ordering::Equal => 0,
        Ordering::Greater => 1,
    }
}
fn eq_b(a: &[u8], b: &[u8]) -> bool {
    unsafe { memeq(a.as_ptr(), b.as_ptr(), a.len()) }
}

/// M1: TLC rows `{"k":kind,"pairs":[[a,b,cmp,eq],..]}` -> real functions.
/// One result line per row: {"row":i,"k":..,"n":pairs,"bad":[first mismatches]}.
pub fn replay(args: &Args) {
    let rows = read_ndjson(args.get("in"));
    let mut out = Ndjson::create(args.get("out"));
    for (i, row) in rows.iter().enumerate() {
        let mut bad = Vec::new();
        let pairs = jarr(&row["pairs"]);
        for p in pairs {
            let a = jbytes(&p[0]);
            let b = jbytes(&p[1]);
            if a.len() != b.len() || a.is_empty() {
                die("vector with unequal or empty strings");
            }
            let want_cmp = jint(&p[2]);
            let want_eq = p[3].as_bool().unwrap_or_else(|| die("eq not bool"));
            let got = catch(|| (cmp_i(&a, &b), eq_b(&a, &b)));
            match got {
                Ok((c, e)) => {
                    if c != want_cmp && bad.len() < 5 {
                        bad.push(json!({"fn": "memcmp", "a": a, "b": b, "want": want_cmp, "got": c}));
                    }
                    if e != want_eq && bad.len() < 5 {
                        bad.push(json!({"fn": "memeq", "a": a, "b": b, "want": want_eq, "got": e}));
                    }
                }
                Err(m) => {
                    if bad.len() < 5 {
                        bad.push(json!({"fn": "panic", "a": a, "b": b, "panic": m}));
                    }
                }
            }
        }
        out.ev(json!({"row": i, "k": row["k"], "n": pairs.len(), "bad": bad}));
    }
    out.finish();
}

/// M3: seeded random longer strings; pairs are built to stress the accumulator
/// (long equal runs, differences at chosen positions, differences of both signs).
pub fn trace(args: &Args) {
    let mut rng = Rng::new(args.seed());
    let n = args.num("n", 2000);
    let maxlen = args.num("maxlen", 48);
    let mut out = Ndjson::create(args.get("out"));
    // systematic family: strings of every length 1..=single that differ in exactly one position
    // (every position; difference +1 and top-bit flip) - catches any per-position / per-word blindness
    let single = args.num("single", 0) as usize;
    for len in 1..=single {
        let a = rng.bytes(len);
        for i in 0..len {
            for d in 0..2 {
                let mut b = a.clone();
                b[i] = if d == 0 { a[i].wrapping_add(1) } else { a[i] ^ 0x80 };
                match catch(|| (cmp_i(&a, &b), eq_b(&a, &b), cmp_i(&b, &a))) {
                    Ok((c, e, c2)) => {
                        out.ev(json!({"ev": "memcmp", "a": a, "b": b, "res": c}));
                        out.ev(json!({"ev": "memeq", "a": a, "b": b, "res": e}));
                        out.ev(json!({"ev": "memcmp", "a": b, "b": a, "res": c2}));
                    }
                    Err(m) => out.ev(json!({"ev": "panic", "fn": "single", "a": a, "b": b, "panic": m})),
                }
            }
        }
    }
    // long buffers with heavy differences (accumulators must not overflow or wrap): every byte
    // differs by 0xff; 257 x 0xff + 1 x 0x01 (xor sum = 65536); only the last / first byte differs
    for len in [255usize, 256, 257, 258, 259, 300, 512, 1024, 4096] {
        if len as u64 > args.num("long", 0) { continue; }
        let a = rng.bytes(len);
        let all: Vec<u8> = a.iter().map(|x| x ^ 0xff).collect();
        let mut wrap = a.clone();
        for (i, x) in wrap.iter_mut().enumerate() { if i < 257 { *x ^= 0xff } else if i == 257 { *x ^= 0x01 } }
        let mut lastb = a.clone();
        lastb[len - 1] ^= 0x40;
        let mut firstb = a.clone();
        firstb[0] ^= 0x02;
        for b in [all, wrap, lastb, firstb, a.clone()] {
            match catch(|| (cmp_i(&a, &b), eq_b(&a, &b))) {
                Ok((c, e)) => {
                    out.ev(json!({"ev": "memcmp", "a": a, "b": b, "res": c}));
                    out.ev(json!({"ev": "memeq", "a": a, "b": b, "res": e}));
                }
                Err(m) => out.ev(json!({"ev": "panic", "fn": "long", "len": len, "panic": m})),
            }
        }
    }
    for k in 0..n {
        let len = rng.range(1, maxlen) as usize;
        let a = rng.bytes(len);
        let mut b = a.clone();
        match rng.below(6) {
            0 => {}                                  // equal
            1 => b = rng.bytes(len),                 // unrelated
            _ => {
                // 1..3 differing positions, the rest equal
                for _ in 0..rng.range(1, 3) {
                    let i = rng.below(len as u64) as usize;
                    b[i] = match rng.below(4) {
                        0 => a[i].wrapping_add(1),
                        1 => a[i].wrapping_sub(1),
                        2 => a[i] ^ 0x80,
                        _ => rng.next_u64() as u8,
                    };
                }
            }
        }
        let (x, y) = if rng.bool() { (&a, &b) } else { (&b, &a) };
        let ev = if k % 2 == 0 {
            match catch(|| cmp_i(x, y)) {
                Ok(c) => json!({"ev": "memcmp", "a": x, "b": y, "res": c}),
                Err(m) => json!({"ev": "panic", "fn": "memcmp", "a": x, "b": y, "panic": m}),
            }
        } else {
            match catch(|| eq_b(x, y)) {
                Ok(e) => json!({"ev": "memeq", "a": x, "b": y, "res": e}),
                Err(m) => json!({"ev": "panic", "fn": "memeq", "a": x, "b": y, "panic": m}),
            }
        };
        out.ev(ev);
    }
    out.finish();
}
