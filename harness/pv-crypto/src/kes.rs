//! C12 / C13 — Sum{1..7}Kes and Sum{1..7}CompactKes against spec/crypto/Kes.tla.
//!
//! One trace, two readers: TraceKes in C12 mode judges keygen/update/period/
//! pk/sign/verify/round-trip; in C13 mode it judges the `found` sets — the tree
//! paths whose 32-byte seed (leaf: signing key) occurs anywhere in
//! `KesSk::as_bytes()`.  The seeds of all 2^(d+1)-1 tree nodes are recomputed
//! here from the master seed with the documented split (left = H(1 || s),
//! right = H(2 || s), Blake2b-256, taken straight from cryptoxide, not from
//! the code under test); a leaf's seed is its Ed25519 signing key.
use cryptoxide::blake2b::Blake2b;
use cryptoxide::digest::Digest;
use pallas_crypto::kes::summed_kes::*;
#[allow(unused_imports)]
use pallas_crypto::kes::traits::{KesCompactSig, KesSig, KesSk};
use pv_core::*;
use std::collections::HashMap;

fn h_tag(tag: u8, s: &[u8; 32]) -> [u8; 32] {
    let mut h = Blake2b::new(32);
    h.input(&[tag]);
    h.input(s);
    let mut out = [0u8; 32];
    h.result(&mut out);
    out
}

/// seed value -> tree path, for every node of the tree of height `depth`
fn tree_seeds(master: &[u8; 32], depth: usize) -> HashMap<[u8; 32], Vec<u8>> {
    let mut map = HashMap::new();
    let mut level: Vec<(Vec<u8>, [u8; 32])> = vec![(vec![], *master)];
    for _ in 0..=depth {
        let mut next = Vec::new();
        for (path, seed) in level {
            if path.len() < depth {
                let mut l = path.clone();
                l.push(0);
                let mut r = path.clone();
                r.push(1);
                next.push((l, h_tag(1, &seed)));
                next.push((r, h_tag(2, &seed)));
            }
            map.insert(seed, path);
        }
        level = next;
    }
    map
}

fn leaf_path(depth: usize, t: u32) -> Vec<u8> {
    (0..depth).map(|i| ((t >> (depth - 1 - i)) & 1) as u8).collect()
}

/// every 32-byte window of the buffer that equals a node seed -> its path (sorted, deduplicated)
fn scan(buf: &[u8], seeds: &HashMap<[u8; 32], Vec<u8>>) -> Vec<Vec<u8>> {
    let mut found: Vec<Vec<u8>> = Vec::new();
    if buf.len() >= 32 {
        for i in 0..=buf.len() - 32 {
            let w: [u8; 32] = buf[i..i + 32].try_into().unwrap();
            if let Some(p) = seeds.get(&w) {
                if !found.contains(p) {
                    found.push(p.clone());
                }
            }
        }
    }
    found.sort();
    found
}

#[derive(Default)]
struct Interner(HashMap<Vec<u8>, u64>);
impl Interner {
    fn id(&mut self, b: &[u8]) -> u64 {
        let n = self.0.len() as u64 + 1;
        *self.0.entry(b.to_vec()).or_insert(n)
    }
}

struct Cx {
    rng: Rng,
    out: Ndjson,
    pks: Interner,
    sigs: Interner,
    full_upto: usize, // depths <= this: every period signed and verified at every period
    samples: u64,     // deeper: this many sampled periods get the sign/verify treatment
}

fn leaf_vk_of_seed(seed: &[u8; 32]) -> [u8; 32] {
    ed25519_dalek::SigningKey::from_bytes(seed).verifying_key().to_bytes()
}

macro_rules! kes_driver {
    ($fname:ident, $sk:ident, $sig:ident, $depth:expr, $compact:expr) => {
        fn $fname(cx: &mut Cx) {
            const D: usize = $depth;
            let total: u32 = 1 << D;
            let mut master = [0u8; 32];
            cx.rng.fill(&mut master);
            let seeds = tree_seeds(&master, D);
            let by_path: HashMap<Vec<u8>, [u8; 32]> = seeds.iter().map(|(k, v)| (v.clone(), *k)).collect();
            let msgs: Vec<Vec<u8>> = (0..3).map(|i| { let n = cx.rng.below(40) as usize + i; cx.rng.bytes(n) }).collect();
            let mut seed = master;
            // the key buffer handed to keygen is never clean: random bytes, or the bytes of an
            // older, evolved key of the same type (a reused working buffer)
            let mut buf = vec![0u8; $sk::SIZE + 4];
            let mut old_master = [0u8; 32];
            cx.rng.fill(&mut old_master);
            let old_seeds = tree_seeds(&old_master, D);
            let dirty = if cx.rng.bool() {
                cx.rng.fill(&mut buf);
                "random"
            } else {
                let mut old_buf = vec![0u8; $sk::SIZE + 4];
                let mut old_seed = old_master;
                let ups = 1 + cx.rng.below(total as u64 - 1);
                let _ = catch(|| {
                    let (mut osk, _) = $sk::keygen(&mut old_buf, &mut old_seed);
                    for _ in 0..ups { let _ = osk.update(); }
                    buf.copy_from_slice(osk.as_bytes());
                });
                "oldkey"
            };
            let r = catch(|| {
                let (mut sk, pk) = $sk::keygen(&mut buf, &mut seed);
                let ev = json!({"ev": "keygen", "depth": D, "compact": $compact, "dirty": dirty,
                    "stale": scan(sk.as_bytes(), &old_seeds),
                    "pk": cx.pks.id(pk.as_bytes()), "to_pk": cx.pks.id(sk.to_pk().as_bytes()),
                    "period": sk.get_period(), "size": sk.as_bytes().len(),
                    "found": scan(sk.as_bytes(), &seeds)});
                // (the seed argument is borrowed for the key's lifetime; its zeroing is observed after the key is dropped)
                cx.out.ev(ev);
                // which periods get signatures
                let mut chosen: Vec<u32> = if D <= cx.full_upto { (0..total).collect() } else {
                    let mut v = vec![0, 1, total / 2 - 1, total / 2, total / 2 + 1, total - 2, total - 1];
                    for _ in 0..cx.samples { v.push(cx.rng.below(total as u64) as u32); }
                    v
                };
                chosen.sort();
                chosen.dedup();
                let mut kept: Vec<($sig, u32, usize)> = Vec::new(); // older signatures: (sig, period, msg index)
                let mut t: u32 = 0;
                let mut failed_updates = 0;
                loop {
                    if chosen.contains(&t) {
                        let mi = cx.rng.below(msgs.len() as u64) as usize;
                        let sig = sk.sign(&msgs[mi]);
                        let bytes = sig.to_bytes();
                        let sid = cx.sigs.id(&bytes);
                        let rt = match $sig::from_bytes(&bytes) { Ok(s2) => s2 == sig && s2.to_bytes() == bytes, Err(_) => false };
                        let bad_len = $sig::from_bytes(&bytes[..bytes.len() - 1]).is_err();
                        // leaf verification key carried by the signature vs the key derived from the documented seed
                        let leaf_vk: [u8; 32] = if $compact { bytes[64..96].try_into().unwrap() }
                            else { let o = 64 + 32 * (t as usize & 1); bytes[o..o + 32].try_into().unwrap() };
                        let leaf_ok = by_path.get(&leaf_path(D, t)).map(|s| leaf_vk_of_seed(s) == leaf_vk).unwrap_or(false);
                        cx.out.ev(json!({"ev": "sign", "sig": sid, "msg": mi, "len": bytes.len(), "rt": rt && bad_len, "leaf_ok": leaf_ok}));
                        // verification periods
                        let mut ts: Vec<u32> = if D <= cx.full_upto { (0..total).collect() } else {
                            let mut v = vec![t, t.wrapping_sub(1), t + 1, 0, total - 1, t ^ (1 << cx.rng.below(D as u64)), total - 1 - t];
                            for _ in 0..2 { v.push(cx.rng.below(total as u64) as u32); }
                            v.retain(|x| *x < total);
                            v
                        };
                        ts.dedup();
                        for tv in ts {
                            let ok = sig.verify(tv, &pk, &msgs[mi]).is_ok();
                            cx.out.ev(json!({"ev": "verify", "sig": sid, "t": tv, "ok": ok}));
                        }
                        // an older signature: still valid at its own period, not at the current one
                        if !kept.is_empty() {
                            let (osig, ot, omi) = &kept[cx.rng.below(kept.len() as u64) as usize];
                            let oid = cx.sigs.id(&osig.to_bytes());
                            for tv in [*ot, t] {
                                let ok = osig.verify(tv, &pk, &msgs[*omi]).is_ok();
                                cx.out.ev(json!({"ev": "verify", "sig": oid, "t": tv, "ok": ok}));
                            }
                        }
                        if kept.len() < 4 || cx.rng.chance(1, 4) { kept.push((sig, t, mi)); }
                    }
                    let res = sk.update();
                    let ok = res.is_ok();
                    cx.out.ev(json!({"ev": "update", "ok": ok, "err": res.err().map(|e| e.to_string()).unwrap_or_default(),
                        "period": sk.get_period(), "pk": cx.pks.id(sk.to_pk().as_bytes()),
                        "found": scan(sk.as_bytes(), &seeds)}));
                    if ok { t += 1; } else { failed_updates += 1; }
                    if t > total + 1 || failed_updates == 2 { break; }
                    if failed_updates == 1 && !chosen.contains(&t) { chosen.push(t); } // sign again after the refusal
                }
            });
            if let Err(m) = r {
                cx.out.ev(json!({"ev": "panic", "depth": D, "compact": $compact, "panic": m}));
            }
            // after the key is dropped: Drop zeroes the buffer, keygen zeroed the seed
            cx.out.ev(json!({"ev": "dropped", "buf_zero": buf.iter().all(|b| *b == 0), "seed_zero": seed.iter().all(|b| *b == 0)}));
        }
    };
}

kes_driver!(sum1, Sum1Kes, Sum1KesSig, 1, false);
kes_driver!(sum2, Sum2Kes, Sum2KesSig, 2, false);
kes_driver!(sum3, Sum3Kes, Sum3KesSig, 3, false);
kes_driver!(sum4, Sum4Kes, Sum4KesSig, 4, false);
kes_driver!(sum5, Sum5Kes, Sum5KesSig, 5, false);
kes_driver!(sum6, Sum6Kes, Sum6KesSig, 6, false);
kes_driver!(sum7, Sum7Kes, Sum7KesSig, 7, false);
kes_driver!(csum1, Sum1CompactKes, Sum1CompactKesSig, 1, true);
kes_driver!(csum2, Sum2CompactKes, Sum2CompactKesSig, 2, true);
kes_driver!(csum3, Sum3CompactKes, Sum3CompactKesSig, 3, true);
kes_driver!(csum4, Sum4CompactKes, Sum4CompactKesSig, 4, true);
kes_driver!(csum5, Sum5CompactKes, Sum5CompactKesSig, 5, true);
kes_driver!(csum6, Sum6CompactKes, Sum6CompactKesSig, 6, true);
kes_driver!(csum7, Sum7CompactKes, Sum7CompactKesSig, 7, true);

/// M3 trace: `--runs` keys of every depth 1..7, sum and compact.
pub fn trace(args: &Args) {
    let mut cx = Cx {
        rng: Rng::new(args.seed()),
        out: Ndjson::create(args.get("out")),
        pks: Interner::default(),
        sigs: Interner::default(),
        full_upto: args.num("full", 4) as usize,
        samples: args.num("samples", 3),
    };
    let maxd = args.num("maxdepth", 7);
    for _ in 0..args.num("runs", 1) {
        let drivers: [(u64, fn(&mut Cx)); 14] = [
            (1, sum1), (1, csum1), (2, sum2), (2, csum2), (3, sum3), (3, csum3), (4, sum4), (4, csum4),
            (5, sum5), (5, csum5), (6, sum6), (6, csum6), (7, sum7), (7, csum7),
        ];
        for (d, f) in drivers {
            if d <= maxd {
                f(&mut cx);
            }
        }
    }
    cx.out.finish();
}
