//! Conformance drivers for pallas-utxorpc (C44).
mod c44;

fn main() {
    let args = pv_core::Args::parse();
    match args.cmd.as_str() {
        "u5c-ints" => c44::ints(&args),
        "u5c-blocks" => c44::blocks(&args),
        other => pv_core::die(&format!("unknown sub-command {other}")),
    }
}
