//! C44 — UTxO RPC mapping against spec/u5c/UtxoRpc.tla.
//!
//! `u5c-ints`  (M1 + M3): TLC's integer / datum vectors are turned into CBOR,
//!   decoded to PlutusData, mapped by the v1alpha and v1beta mappers (directly
//!   and inside a transaction output with an inline datum); what the mappers
//!   return is logged next to the ledger-side value for the trace spec.
//! `u5c-blocks` (M3): every block / transaction of test_data is mapped by both
//!   mappers; the ledger side is projected from pallas-traverse / primitives
//!   by this file, the RPC side from the returned protobuf structs.
use pallas_codec::minicbor;
use pallas_crypto::hash::Hasher;
use pallas_primitives::alonzo::{BigInt, PlutusData};
use pallas_primitives::conway::DatumOption;
use pallas_traverse::{Era, MultiEraBlock, MultiEraOutput, MultiEraTx};
use pallas_utxorpc::{LedgerContext, TxoRef, UtxoMap};
use pv_core::*;
use serde_json::Value;

#[derive(Clone)]
pub struct NoLedger;
impl LedgerContext for NoLedger {
    fn get_utxos(&self, _refs: &[TxoRef]) -> Option<UtxoMap> {
        None
    }
    fn get_slot_timestamp(&self, _slot: u64) -> Option<u64> {
        None
    }
}

// ------------------------------------------------------------------ CBOR by hand
fn head(major: u8, n: u64, out: &mut Vec<u8>) {
    head_w(major, n, false, out)
}
/// `wide`: legal but non-minimal head (argument one size wider than needed)
fn head_w(major: u8, n: u64, wide: bool, out: &mut Vec<u8>) {
    let m = major << 5;
    let size = if n < 24 { 0 } else if n <= 0xff { 1 } else if n <= 0xffff { 2 } else if n <= 0xffff_ffff { 3 } else { 4 };
    let size = if wide && size < 4 { size + 1 } else { size };
    match size {
        0 => out.push(m | n as u8),
        1 => {
            out.push(m | 24);
            out.push(n as u8);
        }
        2 => {
            out.push(m | 25);
            out.extend_from_slice(&(n as u16).to_be_bytes());
        }
        3 => {
            out.push(m | 26);
            out.extend_from_slice(&(n as u32).to_be_bytes());
        }
        _ => {
            out.push(m | 27);
            out.extend_from_slice(&n.to_be_bytes());
        }
    }
}
fn cbor_bytes(b: &[u8], out: &mut Vec<u8>) {
    head(2, b.len() as u64, out);
    out.extend_from_slice(b);
}

/// wire-encoding variant of a datum: non-minimal heads and/or indefinite-length containers
#[derive(Clone, Copy)]
struct Enc {
    wide: bool,
    indef: bool,
}
impl Enc {
    fn of(s: &str) -> Enc {
        match s {
            "canon" => Enc { wide: false, indef: false },
            "wide" => Enc { wide: true, indef: false },
            "indef" => Enc { wide: false, indef: true },
            "wideindef" => Enc { wide: true, indef: true },
            other => die(&format!("unknown encoding variant {other}")),
        }
    }
    fn open(&self, major: u8, n: usize, out: &mut Vec<u8>) {
        if self.indef {
            out.push((major << 5) | 31);
        } else {
            head_w(major, n as u64, self.wide, out);
        }
    }
    fn close(&self, out: &mut Vec<u8>) {
        if self.indef {
            out.push(0xff);
        }
    }
}

/// integer in the spec's JSON shape -> CBOR
fn int_cbor(l: &Value, e: Enc, out: &mut Vec<u8>) {
    match jstr(&l["cls"]) {
        "int" => {
            let v: i128 = big_from_json(&l["v"]).parse().unwrap_or_else(|_| die("integer vector does not fit i128"));
            if v >= 0 {
                head_w(0, u64::try_from(v).unwrap_or_else(|_| die("int vector above 2^64-1")), e.wide, out)
            } else {
                head_w(1, u64::try_from(-1 - v).unwrap_or_else(|_| die("int vector below -2^64")), e.wide, out)
            }
        }
        c @ ("buint" | "bnint") => {
            head(6, if c == "buint" { 2 } else { 3 }, out);
            let b = jbytes(&l["bytes"]);
            head_w(2, b.len() as u64, e.wide, out);
            out.extend_from_slice(&b);
        }
        other => die(&format!("unknown integer class {other}")),
    }
}

/// datum tree in the spec's JSON shape -> CBOR in the given wire variant (tags stay minimal)
fn datum_cbor(d: &Value, e: Enc, out: &mut Vec<u8>) {
    match jstr(&d["t"]) {
        "i" => int_cbor(&d["int"], e, out),
        "b" => {
            let b = jbytes(&d["bytes"]);
            head_w(2, b.len() as u64, e.wide, out);
            out.extend_from_slice(&b);
        }
        "a" => {
            let items = jarr(&d["items"]);
            e.open(4, items.len(), out);
            items.iter().for_each(|x| datum_cbor(x, e, out));
            e.close(out);
        }
        "m" => {
            let pairs = jarr(&d["pairs"]);
            e.open(5, pairs.len(), out);
            for p in pairs {
                datum_cbor(&p[0], e, out);
                datum_cbor(&p[1], e, out);
            }
            e.close(out);
        }
        "c" => {
            let tag: u64 = jstr(&d["tag"]).parse().unwrap_or_else(|_| die("bad constr tag"));
            head(6, tag, out);
            let fields = jarr(&d["fields"]);
            e.open(4, fields.len(), out);
            fields.iter().for_each(|x| datum_cbor(x, e, out));
            e.close(out);
        }
        other => die(&format!("unknown datum node {other}")),
    }
}

// ------------------------------------------------------------------ ledger-side projection
fn bytes_arr(b: &[u8]) -> Value {
    bytes_json(b)
}
fn l_int(x: &BigInt) -> Value {
    match x {
        BigInt::Int(i) => json!({"cls": "int", "v": big_json_i128(i128::from(i.0))}),
        BigInt::BigUInt(b) => json!({"cls": "buint", "bytes": bytes_arr(b)}),
        BigInt::BigNInt(b) => json!({"cls": "bnint", "bytes": bytes_arr(b)}),
    }
}
fn l_datum(d: &PlutusData) -> Value {
    match d {
        PlutusData::Constr(c) => json!({"t": "c", "tag": c.tag.to_string(), "any": c.any_constructor.unwrap_or_default().to_string(),
                                         "fields": c.fields.iter().map(l_datum).collect::<Vec<_>>()}),
        PlutusData::Map(m) => json!({"t": "m", "pairs": m.iter().map(|(k, v)| json!([l_datum(k), l_datum(v)])).collect::<Vec<_>>()}),
        PlutusData::Array(a) => json!({"t": "a", "items": a.iter().map(l_datum).collect::<Vec<_>>()}),
        PlutusData::BigInt(i) => json!({"t": "i", "int": l_int(i)}),
        PlutusData::BoundedBytes(b) => json!({"t": "b", "bytes": hex(b)}),
    }
}
fn u64_int(v: u64) -> Value {
    json!({"cls": "int", "v": big_json_u64(v)})
}
fn none_datum() -> Value {
    json!({"t": "none"})
}

fn l_output(o: &MultiEraOutput, tx: Option<&MultiEraTx>) -> Value {
    let mut assets = Vec::new();
    for pa in o.value().assets() {
        for a in pa.assets() {
            assets.push(json!([hex(pa.policy().as_ref()), hex(a.name()), u64_int(a.output_coin().unwrap_or_default())]));
        }
    }
    // dhash = H[wire bytes] for an inline datum (H = blake2b-256, computed here over the bytes on the wire)
    let (dhash, dwire, datum) = match o.datum() {
        Some(DatumOption::Data(d)) => (hex(Hasher::<256>::hash(d.raw_cbor()).as_ref()), hex(d.raw_cbor()), l_datum(&d.0)),
        Some(DatumOption::Hash(h)) => {
            let found = tx.and_then(|t| {
                t.plutus_data().iter().find(|w| Hasher::<256>::hash(w.raw_cbor()).as_ref() == h.as_ref()).map(|w| l_datum(w))
            });
            (hex(h.as_ref()), String::new(), found.unwrap_or_else(none_datum))
        }
        None => (String::new(), String::new(), none_datum()),
    };
    json!({
        "addr": o.address().map(|a| hex(&a.to_vec())).unwrap_or_default(),
        "coin": u64_int(o.value().coin()),
        "assets": assets,
        "dhash": dhash,
        "dwire": dwire,
        "datum": datum,
    })
}

fn l_tx(tx: &MultiEraTx) -> Value {
    json!({
        "hash": hex(tx.hash().as_ref()),
        "inputs": tx.inputs().iter().map(|i| format!("{}#{}", hex(i.hash().as_ref()), i.index())).collect::<Vec<_>>(),
        "outputs": tx.outputs().iter().map(|o| l_output(o, Some(tx))).collect::<Vec<_>>(),
        "wdatums": tx.plutus_data().iter().map(|w| l_datum(w)).collect::<Vec<_>>(),
        "fee": u64_int(tx.fee().unwrap_or_default()),
        "start": tx.validity_start().unwrap_or_default().to_string(),
        "ttl": tx.ttl().unwrap_or_default().to_string(),
    })
}

// ------------------------------------------------------------------ RPC-side projection (both schema versions)
macro_rules! rpc_side {
    ($m:ident, $u5c:path, $mapper:path, $qty:expr, $ocbor:expr) => {
        pub mod $m {
            use super::*;
            use $u5c as u5c;
            pub type M = $mapper;
            pub fn mapper() -> M {
                <M>::new(NoLedger)
            }
            pub fn r_int(x: &Option<u5c::BigInt>) -> Value {
                match x.as_ref().and_then(|b| b.big_int.as_ref()) {
                    Some(u5c::big_int::BigInt::Int(i)) => json!({"cls": "int", "v": big_json_i128(*i as i128)}),
                    Some(u5c::big_int::BigInt::BigUInt(b)) => json!({"cls": "buint", "bytes": bytes_arr(b)}),
                    Some(u5c::big_int::BigInt::BigNInt(b)) => json!({"cls": "bnint", "bytes": bytes_arr(b)}),
                    None => json!({"cls": "missing"}),
                }
            }
            pub fn r_datum(d: &u5c::PlutusData) -> Value {
                use u5c::plutus_data::PlutusData as P;
                match d.plutus_data.as_ref() {
                    Some(P::Constr(c)) => json!({"t": "c", "tag": c.tag.to_string(), "any": c.any_constructor.to_string(),
                                                  "fields": c.fields.iter().map(r_datum).collect::<Vec<_>>()}),
                    Some(P::Map(m)) => json!({"t": "m", "pairs": m.pairs.iter().map(|p| json!([
                        p.key.as_ref().map(r_datum).unwrap_or_else(none_datum),
                        p.value.as_ref().map(r_datum).unwrap_or_else(none_datum)])).collect::<Vec<_>>()}),
                    Some(P::Array(a)) => json!({"t": "a", "items": a.items.iter().map(r_datum).collect::<Vec<_>>()}),
                    Some(P::BigInt(i)) => json!({"t": "i", "int": r_int(&Some(i.clone()))}),
                    Some(P::BoundedBytes(b)) => json!({"t": "b", "bytes": hex(b)}),
                    None => json!({"t": "missing"}),
                }
            }
            pub fn r_output(o: &u5c::TxOutput) -> Value {
                let mut assets = Vec::new();
                for ma in &o.assets {
                    for a in &ma.assets {
                        let q: Option<u5c::BigInt> = $qty(a);
                        assets.push(json!([hex(&ma.policy_id), hex(&a.name), r_int(&q)]));
                    }
                }
                let (dhash, dwire, datum) = match o.datum.as_ref() {
                    Some(d) => (hex(&d.hash), { let f: String = $ocbor(d); f }, d.payload.as_ref().map(r_datum).unwrap_or_else(none_datum)),
                    None => (String::new(), String::new(), none_datum()),
                };
                json!({"addr": hex(&o.address), "coin": r_int(&o.coin), "assets": assets, "dhash": dhash, "dwire": dwire, "datum": datum})
            }
            pub fn r_tx(t: &u5c::Tx) -> Value {
                json!({
                    "hash": hex(&t.hash),
                    "inputs": t.inputs.iter().map(|i| format!("{}#{}", hex(&i.tx_hash), i.output_index)).collect::<Vec<_>>(),
                    "outputs": t.outputs.iter().map(r_output).collect::<Vec<_>>(),
                    "wdatums": t.witnesses.as_ref().map(|w| w.plutus_datums.iter().map(r_datum).collect::<Vec<_>>()).unwrap_or_default(),
                    "fee": r_int(&t.fee),
                    "start": t.validity.as_ref().map(|v| v.start).unwrap_or_default().to_string(),
                    "ttl": t.validity.as_ref().map(|v| v.ttl).unwrap_or_default().to_string(),
                })
            }
            pub fn r_mint(t: &u5c::Tx) -> Vec<Value> {
                let mut v = Vec::new();
                for ma in &t.mint {
                    for a in &ma.assets {
                        let q: Option<u5c::BigInt> = $qty(a);
                        v.push(json!([hex(&ma.policy_id), hex(&a.name), r_int(&q)]));
                    }
                }
                v
            }
            pub fn r_block(b: &u5c::Block) -> Value {
                let h = b.header.as_ref();
                json!({
                    "hash": h.map(|h| hex(&h.hash)).unwrap_or_default(),
                    "slot": h.map(|h| h.slot).unwrap_or_default().to_string(),
                    "height": h.map(|h| h.height).unwrap_or_default().to_string(),
                    "txs": b.body.as_ref().map(|x| x.tx.iter().map(|t| hex(&t.hash)).collect::<Vec<_>>()).unwrap_or_default(),
                })
            }
        }
    };
}
rpc_side!(
    alpha,
    pallas_utxorpc::v1alpha::spec::cardano,
    pallas_utxorpc::v1alpha::Mapper<NoLedger>,
    |a: &u5c::Asset| match a.quantity.as_ref() {
        Some(u5c::asset::Quantity::OutputCoin(b)) | Some(u5c::asset::Quantity::MintCoin(b)) => Some(b.clone()),
        None => None,
    },
    |d: &u5c::Datum| hex(&d.original_cbor)
);
rpc_side!(
    beta,
    pallas_utxorpc::v1beta::spec::cardano,
    pallas_utxorpc::v1beta::Mapper<NoLedger>,
    |a: &u5c::Asset| a.quantity.clone(),
    |d: &u5c::Datum| d.original_cbor.as_ref().map(|b| hex(b)).unwrap_or_default()
);

// ------------------------------------------------------------------ u5c-ints
/// a Babbage-era output {0: address, 1: coin, 2: [1, #6.24(datum)]}
fn output_with_inline_datum(datum: &[u8]) -> Vec<u8> {
    let mut o = Vec::new();
    head(5, 3, &mut o);
    head(0, 0, &mut o);
    let mut addr = vec![0x61u8];
    addr.extend_from_slice(&[0x11; 28]);
    cbor_bytes(&addr, &mut o);
    head(0, 1, &mut o);
    head(0, 1_500_000, &mut o);
    head(0, 2, &mut o);
    head(4, 2, &mut o);
    head(0, 1, &mut o);
    head(6, 24, &mut o);
    cbor_bytes(datum, &mut o);
    o
}

/// a Babbage transaction [body, witness_set, true, null]: one input, an output referring to the
/// datum by hash, an output carrying it inline, the datum itself (same wire bytes) in the witness set
fn tx_with_witness_datum(datum: &[u8]) -> Vec<u8> {
    let h = Hasher::<256>::hash(datum);
    let mut t = Vec::new();
    head(4, 4, &mut t);
    // body
    head(5, 3, &mut t);
    head(0, 0, &mut t);
    head(4, 1, &mut t);
    head(4, 2, &mut t);
    cbor_bytes(&[0x44; 32], &mut t);
    head(0, 3, &mut t);
    head(0, 1, &mut t);
    head(4, 2, &mut t);
    {
        head(5, 3, &mut t);
        head(0, 0, &mut t);
        let mut addr = vec![0x61u8];
        addr.extend_from_slice(&[0x55; 28]);
        cbor_bytes(&addr, &mut t);
        head(0, 1, &mut t);
        head(0, 2_000_000, &mut t);
        head(0, 2, &mut t);
        head(4, 2, &mut t);
        head(0, 0, &mut t);
        cbor_bytes(h.as_ref(), &mut t);
    }
    t.extend_from_slice(&output_with_inline_datum(datum));
    head(0, 2, &mut t);
    head(0, 170_000, &mut t);
    // witness set {4: [datum]}
    head(5, 1, &mut t);
    head(0, 4, &mut t);
    head(4, 1, &mut t);
    t.extend_from_slice(datum);
    t.push(0xf5);
    t.push(0xf6);
    t
}

/// a Babbage transaction minting `amount` of one asset: body {0: inputs, 1: outputs, 2: fee, 9: mint}
fn tx_with_mint(amount: i64) -> Vec<u8> {
    let mut t = Vec::new();
    head(4, 4, &mut t);
    head(5, 4, &mut t);
    head(0, 0, &mut t);
    head(4, 1, &mut t);
    head(4, 2, &mut t);
    cbor_bytes(&[0x66; 32], &mut t);
    head(0, 0, &mut t);
    head(0, 1, &mut t);
    head(4, 1, &mut t);
    t.extend_from_slice(&output_with_value(3_000_000));
    head(0, 2, &mut t);
    head(0, 180_000, &mut t);
    head(0, 9, &mut t);
    head(5, 1, &mut t);
    cbor_bytes(&[0x77; 28], &mut t);
    head(5, 1, &mut t);
    cbor_bytes(b"mnt", &mut t);
    if amount >= 0 {
        head(0, amount as u64, &mut t);
    } else {
        head(1, (-1 - amount as i128) as u64, &mut t);
    }
    head(5, 0, &mut t);
    t.push(0xf5);
    t.push(0xf6);
    t
}

/// a Babbage-era output whose value is [coin, {policy: {name: coin}}] (no assets when coin = 0)
fn output_with_value(coin: u64) -> Vec<u8> {
    let mut o = Vec::new();
    head(5, 2, &mut o);
    head(0, 0, &mut o);
    let mut addr = vec![0x61u8];
    addr.extend_from_slice(&[0x22; 28]);
    cbor_bytes(&addr, &mut o);
    head(0, 1, &mut o);
    if coin == 0 {
        head(0, 0, &mut o);
    } else {
        head(4, 2, &mut o);
        head(0, coin, &mut o);
        head(5, 1, &mut o);
        cbor_bytes(&[0x33; 28], &mut o);
        head(5, 1, &mut o);
        cbor_bytes(b"tok", &mut o);
        head(0, coin, &mut o);
    }
    o
}

pub fn ints(args: &Args) {
    let vecs = read_ndjson(args.get("vec"));
    let mut out = Ndjson::create(args.get("out"));
    let (ma, mb) = (alpha::mapper(), beta::mapper());
    for v in &vecs {
        if v.get("mint").is_some() {
            let m: i64 = big_from_json(&v["mint"]["v"]).parse().unwrap_or_else(|_| die("mint vector does not fit i64"));
            let txc = tx_with_mint(m);
            let tx = MultiEraTx::decode_for_era(Era::Babbage, &txc).unwrap_or_else(|e| die(&format!("generated mint tx does not decode: {e}")));
            for ver in ["v1alpha", "v1beta"] {
                let r = catch(|| if ver == "v1alpha" { alpha::r_mint(&ma.map_tx(&tx)) } else { beta::r_mint(&mb.map_tx(&tx)) });
                let q = r.ok().and_then(|x| x.get(0).map(|a| a[2].clone())).unwrap_or(json!({"cls": "missing"}));
                out.ev(json!({"ev": "mint", "ver": ver, "l": v["mint"], "rpc": q}));
            }
            continue;
        }
        if v.get("coin").is_some() {
            let c: u64 = big_from_json(&v["coin"]["v"]).parse().unwrap_or_else(|_| die("coin vector does not fit u64"));
            let ocbor = output_with_value(c);
            let o = MultiEraOutput::decode(Era::Babbage, &ocbor).unwrap_or_else(|e| die(&format!("generated output does not decode: {e}")));
            if o.value().coin() != c {
                die("generated output carries a different coin");
            }
            for ver in ["v1alpha", "v1beta"] {
                let r = catch(|| if ver == "v1alpha" { alpha::r_output(&ma.map_tx_output(&o, None)) } else { beta::r_output(&mb.map_tx_output(&o, None)) });
                let (ro, panic) = match r {
                    Ok(x) => (x, json!("")),
                    Err(p) => (json!({"coin": {"cls": "missing"}, "assets": []}), json!(p)),
                };
                out.ev(json!({"ev": "int", "ver": ver, "via": "coin", "l": v["coin"], "rpc": ro["coin"], "want": v["want"], "panic": panic}));
                if c != 0 {
                    let q = ro["assets"].get(0).map(|a| a[2].clone()).unwrap_or(json!({"cls": "missing"}));
                    out.ev(json!({"ev": "int", "ver": ver, "via": "asset", "l": v["coin"], "rpc": q, "want": v["want"], "panic": panic}));
                }
            }
            continue;
        }
        let is_int = v.get("l").map(|l| l.get("cls").is_some()).unwrap_or(false);
        let enc_name = v.get("enc").and_then(|e| e.as_str()).unwrap_or("canon");
        let enc = Enc::of(enc_name);
        let mut cbor = Vec::new();
        if is_int {
            int_cbor(&v["l"], enc, &mut cbor);
        } else {
            datum_cbor(&v["l"], enc, &mut cbor);
        }
        let pd: PlutusData = minicbor::decode(&cbor).unwrap_or_else(|e| die(&format!("vector {} does not decode as PlutusData: {e}", hex(&cbor))));
        // the ledger side as this harness sees it must be TLC's vector
        let l = l_datum(&pd);
        if is_int && l["int"] != v["l"] {
            die(&format!("decoded integer {} differs from the vector {}", l["int"], v["l"]));
        }
        // (a) map_plutus_datum directly (the wire variant does not matter here)
        if enc_name == "canon" {
            let mut emit = |ver: &str, r: Result<Value, String>| {
                let (rpc, panic) = match r {
                    Ok(x) => (x, json!("")),
                    Err(p) => (json!({"t": "panic"}), json!(p)),
                };
                if is_int {
                    let ri = if rpc["t"] == json!("i") { rpc["int"].clone() } else { json!({"cls": "missing"}) };
                    out.ev(json!({"ev": "int", "ver": ver, "via": "datum", "l": v["l"], "rpc": ri, "want": v["want"], "panic": panic}));
                } else {
                    out.ev(json!({"ev": "datum", "ver": ver, "via": "datum", "l": l, "rpc": rpc, "panic": panic}));
                }
            };
            emit("v1alpha", catch(|| alpha::r_datum(&ma.map_plutus_datum(&pd))));
            emit("v1beta", catch(|| beta::r_datum(&mb.map_plutus_datum(&pd))));
        }
        // (b) an output carrying the datum inline, in this wire variant
        let ocbor = output_with_inline_datum(&cbor);
        let o = MultiEraOutput::decode(Era::Babbage, &ocbor).unwrap_or_else(|e| die(&format!("generated output does not decode: {e}")));
        let lo = l_output(&o, None);
        if lo["dwire"] != json!(hex(&cbor)) {
            die("inline datum bytes of the generated output are not the generated bytes");
        }
        for ver in ["v1alpha", "v1beta"] {
            let r = catch(|| if ver == "v1alpha" { alpha::r_output(&ma.map_tx_output(&o, None)) } else { beta::r_output(&mb.map_tx_output(&o, None)) });
            match r {
                Ok(r) => out.ev(json!({"ev": "out", "ver": ver, "enc": enc_name, "l": lo, "r": r})),
                Err(p) => out.ev(json!({"ev": "panic", "ver": ver, "src": "vector", "op": "map_tx_output", "hash": lo["dhash"], "msg": p})),
            }
        }
        // (c) a transaction with the datum in the witness set, one output referring to it by
        //     hash and one carrying it inline (datum trees only: integers are covered by (b))
        if !is_int {
            let txc = tx_with_witness_datum(&cbor);
            let tx = MultiEraTx::decode_for_era(Era::Babbage, &txc).unwrap_or_else(|e| die(&format!("generated tx does not decode: {e}")));
            let lt = l_tx(&tx);
            if lt["outputs"][0]["datum"] != l {
                die("generated tx: the hash-referenced datum was not found in the witness set");
            }
            for ver in ["v1alpha", "v1beta"] {
                let r = catch(|| if ver == "v1alpha" { alpha::r_tx(&ma.map_tx(&tx)) } else { beta::r_tx(&mb.map_tx(&tx)) });
                match r {
                    Ok(r) => out.ev(json!({"ev": "tx", "ver": ver, "src": format!("vector/{enc_name}"), "l": lt, "r": r})),
                    Err(p) => out.ev(json!({"ev": "panic", "ver": ver, "src": "vector", "op": "map_tx", "hash": lt["hash"], "msg": p})),
                }
            }
        }
    }
    println!("{}", json!({"vectors": vecs.len(), "events": out.finish()}));
}

// ------------------------------------------------------------------ u5c-blocks
pub fn blocks(args: &Args) {
    let thorough = args.opt("tier") == Some("thorough");
    let mut rng = Rng::new(args.seed() ^ 0xC44);
    let mut out = Ndjson::create(args.get("out"));
    let dir = std::path::Path::new(&repo_root()).join("test_data");
    let mut names: Vec<String> = std::fs::read_dir(&dir)
        .unwrap_or_else(|e| die(&format!("read_dir: {e}")))
        .filter_map(|e| e.ok())
        .map(|e| e.file_name().to_string_lossy().to_string())
        .filter(|n| n.ends_with(".block") || n.ends_with(".tx"))
        .collect();
    names.sort();
    let (ma, mb) = (alpha::mapper(), beta::mapper());
    let max_tx = args.num("max-tx", if thorough { u64::MAX } else { 12 }) as usize;
    let (mut nb, mut nt, mut skipped) = (0usize, 0usize, Vec::new());
    let do_tx = |out: &mut Ndjson, src: &str, tx: &MultiEraTx| {
        let l = l_tx(tx);
        for ver in ["v1alpha", "v1beta"] {
            let r = catch(|| if ver == "v1alpha" { alpha::r_tx(&ma.map_tx(tx)) } else { beta::r_tx(&mb.map_tx(tx)) });
            match r {
                Ok(r) => out.ev(json!({"ev": "tx", "ver": ver, "src": src, "l": l, "r": r})),
                Err(p) => out.ev(json!({"ev": "panic", "ver": ver, "src": src, "op": "map_tx", "hash": l["hash"], "msg": p})),
            }
        }
    };
    // the same transaction with the validity flag cleared (Alonzo and later: [body, wits, bool, aux]):
    // the declared outputs, inputs, fee ... must be mapped all the same
    let flipped = |tx: &MultiEraTx| -> Option<(Era, Vec<u8>)> {
        let era = tx.era();
        if !matches!(era, Era::Alonzo | Era::Babbage | Era::Conway) {
            return None;
        }
        let mut bytes = tx.encode();
        let mut d = minicbor::Decoder::new(&bytes);
        d.array().ok()?;
        d.skip().ok()?;
        d.skip().ok()?;
        let pos = d.position();
        if bytes.get(pos) != Some(&0xf5) {
            return None;
        }
        bytes[pos] = 0xf4;
        Some((era, bytes))
    };
    let mut do_both = |out: &mut Ndjson, src: &str, tx: &MultiEraTx| {
        do_tx(out, src, tx);
        if let Some((era, bytes)) = flipped(tx) {
            match MultiEraTx::decode_for_era(era, &bytes) {
                Ok(t2) if !t2.is_valid() => do_tx(out, &format!("{src}/is_valid=false"), &t2),
                _ => die(&format!("{src}: transaction with cleared validity flag does not decode")),
            }
        }
    };
    for n in &names {
        let text = std::fs::read_to_string(dir.join(n)).unwrap_or_default();
        let Ok(cbor) = hex::decode(text.trim()) else {
            skipped.push(n.clone());
            continue;
        };
        if n.ends_with(".block") {
            let Ok(b) = MultiEraBlock::decode(&cbor) else {
                skipped.push(n.clone());
                continue;
            };
            nb += 1;
            let txs = b.txs();
            let l = json!({"hash": hex(b.hash().as_ref()), "slot": b.slot().to_string(), "height": b.number().to_string(),
                           "txs": txs.iter().map(|t| hex(t.hash().as_ref())).collect::<Vec<_>>()});
            for ver in ["v1alpha", "v1beta"] {
                let r = catch(|| if ver == "v1alpha" { alpha::r_block(&ma.map_block(&b)) } else { beta::r_block(&mb.map_block(&b)) });
                match r {
                    Ok(r) => out.ev(json!({"ev": "block", "ver": ver, "src": n, "l": l, "r": r})),
                    Err(p) => out.ev(json!({"ev": "panic", "ver": ver, "src": n, "op": "map_block", "hash": l["hash"], "msg": p})),
                }
            }
            // quick tier: a seeded sample of the block's transactions
            let mut idx: Vec<usize> = (0..txs.len()).collect();
            if idx.len() > max_tx {
                rng.shuffle(&mut idx);
                idx.truncate(max_tx);
                idx.sort();
            }
            for i in idx {
                nt += 1;
                do_both(&mut out, n, &txs[i]);
            }
        } else {
            let Ok(tx) = MultiEraTx::decode(&cbor) else {
                skipped.push(n.clone());
                continue;
            };
            nt += 1;
            do_both(&mut out, n, &tx);
        }
    }
    println!("{}", json!({"blocks": nb, "txs": nt, "skipped": skipped, "events": out.finish()}));
}
