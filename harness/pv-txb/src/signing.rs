//! C41 — BuiltTransaction::{sign, add_signature, remove_signature} against
//! spec/txbuilder/TxSigning.tla.
use crate::common::*;
use pallas_crypto::hash::Hasher;
use pallas_crypto::key::ed25519::Signature;
use pallas_traverse::MultiEraTx;
use pallas_txbuilder::{BuildConway, BuiltTransaction, ExUnits, Input, Output, ScriptKind, StagingTransaction};
use pv_core::*;
use serde_json::Value;

pub const NVARIANTS: u64 = 4;

/// Real built transactions of different shapes (bare; with scripts, datums,
/// redeemers and a mint in the witness set / body; with auxiliary data).
pub fn built_tx(variant: u64, salt: u8) -> BuiltTransaction {
    let base = StagingTransaction::new()
        .input(Input::new(h32(salt), 0))
        .output(Output::new(address(1, salt), 2_000_000 + salt as u64))
        .fee(170_000);
    let st = match variant % NVARIANTS {
        0 => base,
        1 => base
            .input(Input::new(h32(salt.wrapping_add(1)), 1))
            .script(ScriptKind::Native, native_script(7))
            .script(ScriptKind::PlutusV2, plutus_script(salt))
            .datum(plutus_data(2))
            .add_spend_redeemer(Input::new(h32(salt), 0), plutus_data(1), Some(ExUnits { mem: 10, steps: 20 }))
            .mint_asset(h28(9), b"tok".to_vec(), 5)
            .unwrap()
            .add_mint_redeemer(h28(9), plutus_data(3), Some(ExUnits { mem: 1, steps: 2 }))
            .add_language(ScriptKind::PlutusV2, vec![1, 2, 3]),
        2 => base
            .add_auxiliary_data(vec![0xa1, 0x01, 0x02])
            .collateral_input(Input::new(h32(salt), 3))
            .disclosed_signer(h28(4))
            .network_id(1)
            .invalid_from_slot(1000),
        _ => base
            .output(
                Output::new(address(0, 2), 3_000_000)
                    .add_asset(h28(1), b"a".to_vec(), 3)
                    .unwrap()
                    .set_inline_datum(plutus_data(2)),
            )
            .reference_input(Input::new(h32(3), 1))
            .valid_from_slot(5),
    };
    st.build_conway_raw().unwrap_or_else(|e| die(&format!("cannot build sample transaction {variant}: {e}")))
}

pub fn foreign_sig(label: &str) -> [u8; 64] {
    match label {
        "f1" => [0x11; 64],
        "f2" => {
            let mut s = [0u8; 64];
            for (i, x) in s.iter_mut().enumerate() {
                *x = (i * 3 + 1) as u8;
            }
            s
        }
        other => die(&format!("unknown foreign signature label {other}")),
    }
}

struct World {
    pool: Vec<Signer>,
    pks: Vec<[u8; 32]>,
}

impl World {
    fn new(n: usize) -> Self {
        let pool = key_pool(n);
        let pks = pool.iter().map(|s| s.public_key().as_ref().try_into().unwrap()).collect();
        World { pool, pks }
    }
    fn key_label(&self, vkey: &[u8]) -> i64 {
        self.pks.iter().position(|p| p[..] == *vkey).map(|i| i as i64 + 1).unwrap_or(0)
    }
    /// abstract value of a signature filed under pool key `k` (0 = unknown key)
    fn sig_label(&self, k: i64, sig: &[u8], id: &[u8]) -> &'static str {
        if sig.len() == 64 {
            let s: [u8; 64] = sig.try_into().unwrap();
            if k > 0 && self.pool[k as usize - 1].public_key().verify(id, &Signature::from(s)) {
                return "valid";
            }
            if s == foreign_sig("f1") {
                return "f1";
            }
            if s == foreign_sig("f2") {
                return "f2";
            }
        }
        "other"
    }
    /// signatures map as an array over the pool (+ one "?" per non-pool key)
    fn sigmap(&self, tx: &BuiltTransaction) -> Vec<&'static str> {
        let mut out = vec!["none"; self.pks.len()];
        if let Some(m) = &tx.signatures {
            for (k, v) in m.iter() {
                match self.key_label(&k.0) {
                    0 => out.push("?"),
                    i => out[i as usize - 1] = self.sig_label(i, &v.0, &tx.tx_hash.0),
                }
            }
        }
        out
    }
    /// vkey witnesses decoded from tx_bytes, in wire order
    fn wits(&self, tx: &BuiltTransaction) -> Result<Vec<Value>, String> {
        let m = MultiEraTx::decode(&tx.tx_bytes.0).map_err(|e| format!("tx_bytes do not decode: {e}"))?;
        if m.as_conway().is_none() {
            return Err("tx_bytes are not a Conway transaction".into());
        }
        Ok(m.vkey_witnesses()
            .iter()
            .map(|w| {
                let k = self.key_label(&w.vkey);
                json!({"key": k, "sig": self.sig_label(k, &w.signature, &tx.tx_hash.0)})
            })
            .collect())
    }
    /// apply one spec call to a real transaction
    fn apply(&self, tx: BuiltTransaction, op: &str, k: i64, s: &str) -> Result<BuiltTransaction, String> {
        let signer = &self.pool[k as usize - 1];
        let r = match op {
            "sign" => signer.sign_tx(tx),
            "add_signature" => {
                let sig: [u8; 64] = if s == "valid" {
                    signer.sign_raw(&tx.tx_hash.0).as_ref().try_into().unwrap()
                } else {
                    foreign_sig(s)
                };
                tx.add_signature(signer.public_key(), sig)
            }
            "remove_signature" => tx.remove_signature(signer.public_key()),
            other => die(&format!("unknown op {other}")),
        };
        r.map_err(|e| format!("{e:?}"))
    }
}

/// name of the way a witness list is out of step with the signature map (for finding keys only)
fn classify(got: &Value, body_ok: bool, id_ok: bool) -> &'static str {
    if !body_ok {
        return "body-changed";
    }
    if !id_ok {
        return "id-changed";
    }
    let w = jarr(&got["wits"]);
    let m = jarr(&got["sigmap"]);
    for (i, a) in w.iter().enumerate() {
        if w.iter().skip(i + 1).any(|b| b["key"] == a["key"]) {
            return "duplicate-witness";
        }
    }
    for a in w {
        let k = jint(&a["key"]);
        if k == 0 || m.get(k as usize - 1) != Some(&a["sig"]) {
            return "stale-witness";
        }
    }
    let present = m.iter().filter(|x| jstr(x) != "none").count();
    if present != w.len() {
        return "missing-witness";
    }
    "sigmap"
}

fn sorted(w: &Value) -> Vec<String> {
    let mut v: Vec<String> = jarr(w).iter().map(|x| x.to_string()).collect();
    v.sort();
    v
}

/// M2: replay TLC behaviours of the design layer on real built transactions.
pub fn replay(args: &Args) {
    let vecs = read_ndjson(args.get("in"));
    let mut out = Ndjson::create(args.get("out"));
    let world = World::new(args.num("keys", 3) as usize);
    for (i, v) in vecs.iter().enumerate() {
        let variant = i as u64 % NVARIANTS;
        let mut tx = built_tx(variant, (i % 200) as u8);
        let body0 = body_bytes(&tx.tx_bytes.0).unwrap_or_else(|e| die(&e)).to_vec();
        let rest0 = rest_bytes(&tx.tx_bytes.0).unwrap_or_else(|e| die(&e));
        let id0 = tx.tx_hash.0;
        if *Hasher::<256>::hash(&body0) != id0 {
            die("sample transaction: id is not the hash of its body");
        }
        let mut verdict = json!({"i": i, "ok": true, "steps": jarr(v).len(), "variant": variant});
        for (n, step) in jarr(v).iter().enumerate() {
            let call = &step["call"];
            let (op, k) = (jstr(&call["op"]), jint(&call["k"]));
            let s = call.get("s").map(jstr).unwrap_or("");
            let before = tx.clone();
            match catch(|| world.apply(tx, op, k, s)) {
                Err(p) => {
                    verdict = json!({"i": i, "ok": false, "why": "panic", "op": op, "step": n, "panic": p,
                        "variant": variant, "vector": v});
                    break;
                }
                Ok(Err(e)) => {
                    let _ = before;
                    verdict = json!({"i": i, "ok": true, "why": "err", "op": op, "step": n, "err": e, "variant": variant});
                    break;
                }
                Ok(Ok(t)) => tx = t,
            }
            let body_ok = body_bytes(&tx.tx_bytes.0).map(|b| b == &body0[..]).unwrap_or(false);
            let id_ok = tx.tx_hash.0 == id0;
            let wits = match world.wits(&tx) {
                Ok(w) => w,
                Err(e) => {
                    verdict = json!({"i": i, "ok": false, "why": "mismatch", "class": "undecodable", "op": op, "step": n,
                        "detail": e, "variant": variant, "vector": v});
                    break;
                }
            };
            let got = json!({"call": call, "sigmap": world.sigmap(&tx), "wits": wits,
                "body": if body_ok { "B" } else { "changed" }, "id": if id_ok { "I" } else { "changed" }});
            if got != *step {
                let only_order = got["sigmap"] == step["sigmap"] && body_ok && id_ok && sorted(&got["wits"]) == sorted(&step["wits"]);
                if only_order {
                    verdict["order_drift"] = json!(true);
                    continue;
                }
                verdict = json!({"i": i, "ok": false, "why": "mismatch", "class": classify(&got, body_ok, id_ok), "op": op,
                    "step": n, "got": got, "want": step, "variant": variant, "vector": v});
                break;
            }
            // outside the property: the rest of the transaction should survive re-encoding
            if rest_bytes(&tx.tx_bytes.0).map(|r| r != rest0).unwrap_or(true) {
                verdict["rest_drift"] = json!(true);
            }
        }
        out.ev(verdict);
    }
    out.finish();
}

/// M3: seeded long call sequences on real built transactions, logged for TraceTxSigning.
pub fn trace(args: &Args) {
    let mut rng = Rng::new(args.seed());
    let runs = args.num("runs", 8);
    let ops = args.num("ops", 120);
    let world = World::new(args.num("keys", 3) as usize);
    let nkeys = world.pks.len() as u64;
    let mut out = Ndjson::create(args.get("out"));
    for _ in 0..runs {
        let mut tx = built_tx(rng.below(NVARIANTS), rng.below(200) as u8);
        let obs = |tx: &BuiltTransaction| -> Value {
            let body = body_bytes(&tx.tx_bytes.0).map(hex).unwrap_or_else(|e| format!("!{e}"));
            // an undecodable transaction is logged as a witness no spec state contains
            let w = world.wits(tx).unwrap_or_else(|e| vec![json!({"key": 0, "sig": format!("undecodable: {e}")})]);
            json!({"body": body, "id": hex(&tx.tx_hash.0), "sigmap": world.sigmap(tx), "wits": w})
        };
        let mut e = obs(&tx);
        e["ev"] = json!("built");
        out.ev(e);
        for _ in 0..ops {
            let k = rng.range(1, nkeys) as i64;
            let (op, s) = match rng.below(10) {
                0..=3 => ("sign", ""),
                4..=6 => ("add_signature", *rng.pick(&["valid", "f1", "f2"])),
                _ => ("remove_signature", ""),
            };
            let before = tx.clone();
            match catch(|| world.apply(tx, op, k, s)) {
                Err(p) => {
                    out.ev(json!({"ev": "panic", "op": op, "k": k, "msg": p}));
                    tx = before;
                    break;
                }
                Ok(Err(err)) => {
                    out.ev(json!({"ev": "err", "op": op, "k": k, "msg": err}));
                    tx = before;
                }
                Ok(Ok(t)) => {
                    tx = t;
                    let mut e = obs(&tx);
                    e["ev"] = json!(op);
                    e["k"] = json!(k);
                    if op == "add_signature" {
                        e["s"] = json!(s);
                    }
                    out.ev(e);
                }
            }
        }
        let _ = tx;
    }
    out.finish();
}
