//! C40 — StagingTransaction builder methods + build_conway_raw against
//! spec/txbuilder/TxBuilder.tla.
//!
//! Labels of the specification are mapped to bytes here (`hash`, `policy`,
//! `name`, ...) and decoded transactions are projected back to labels; an
//! unknown byte string projects to label 0, which no specification state holds.
use crate::common::*;
use pallas_crypto::hash::{Hash, Hasher};
use pallas_primitives::conway::{
    self, DatumOption, NativeScript, PlutusData, RedeemerTag, Redeemers, ScriptRef, TransactionOutput, Value as CValue,
};
use pallas_primitives::{Fragment, NetworkId};
use pallas_traverse::MultiEraTx;
use pallas_txbuilder::{BuildConway, ExUnits, Input, Output, ScriptKind, StagingTransaction};
use pv_core::*;
use serde_json::Value;

const MAXL: i64 = 12; // labels searched when projecting back

fn input(op: &Value) -> Input {
    Input::new(h32(jint(&op["h"]) as u8), jint(&op["i"]) as u64)
}
fn policy(p: i64) -> Hash<28> {
    h28(p as u8)
}
fn name(n: i64) -> Vec<u8> {
    match n {
        1 => b"a".to_vec(),
        2 => b"b".to_vec(),
        3 => vec![0x61; 33], // longer than 32 bytes
        k => vec![0x7a, k as u8],
    }
}
fn addr(a: i64) -> pallas_addresses::Address {
    address((a % 2) as u8, a as u8)
}
fn keyhash(k: i64) -> Hash<28> {
    h28(k as u8 + 100)
}
fn data(d: i64) -> Vec<u8> {
    if d == 9 {
        vec![0xff]
    } else {
        plutus_data(d)
    }
}
fn datum_hash(d: i64) -> Hash<32> {
    h32(d as u8 + 50)
}
fn kind(k: &str) -> ScriptKind {
    match k {
        "native" => ScriptKind::Native,
        "plutus_v1" => ScriptKind::PlutusV1,
        "plutus_v2" => ScriptKind::PlutusV2,
        "plutus_v3" => ScriptKind::PlutusV3,
        other => die(&format!("unknown script kind {other}")),
    }
}
fn script_bytes(k: &str, s: i64) -> Vec<u8> {
    match (k, s) {
        ("native", 9) => vec![0x82, 0x09],
        ("native", s) => native_script(s as u8),
        (_, s) => plutus_script(s as u8),
    }
}
fn script_hash(k: &str, s: i64) -> Hash<28> {
    let tag = match k {
        "native" => 0,
        "plutus_v1" => 1,
        "plutus_v2" => 2,
        _ => 3,
    };
    Hasher::<224>::hash_tagged(&script_bytes(k, s), tag)
}
fn aux(x: i64) -> Vec<u8> {
    match x {
        9 => vec![0xff],
        x => vec![0xa1, x as u8, 0x02],
    }
}
fn ex_units(v: &Value) -> Option<ExUnits> {
    let a = jarr(v);
    if a.is_empty() {
        None
    } else {
        Some(ExUnits { mem: jint(&a[0]) as u64, steps: jint(&a[1]) as u64 })
    }
}

/// staged output from its recipe {addr, lovelace, adds:[[p,n,q]], datum:[]|[kind,d], script:[]|[kind,s]}
fn output(o: &Value) -> Output {
    let mut out = Output::new(addr(jint(&o["addr"])), jint(&o["lovelace"]) as u64);
    for a in jarr(&o["adds"]) {
        out = out
            .add_asset(policy(jint(&a[0])), name(jint(&a[1])), jint(&a[2]) as u64)
            .unwrap_or_else(|e| die(&format!("recipe uses a rejected asset: {e}")));
    }
    let d = jarr(&o["datum"]);
    if !d.is_empty() {
        out = match jstr(&d[0]) {
            "inline" => out.set_inline_datum(data(jint(&d[1]))),
            "hash" => out.set_datum_hash(datum_hash(jint(&d[1]))),
            other => die(&format!("unknown datum kind {other}")),
        };
    }
    let s = jarr(&o["script"]);
    if !s.is_empty() {
        out = out.set_inline_script(kind(jstr(&s[0])), script_bytes(jstr(&s[0]), jint(&s[1])));
    }
    out
}

/// One builder call. Returns the new staging transaction and "ok"/"err".
pub fn apply_op(st: StagingTransaction, op: &Value) -> (StagingTransaction, &'static str) {
    let name_ = op.get("op").or_else(|| op.get("ev")).map(jstr).unwrap_or_else(|| die("op without name"));
    let st = match name_ {
        "input" => st.input(input(op)),
        "remove_input" => st.remove_input(input(op)),
        "reference_input" => st.reference_input(input(op)),
        "remove_reference_input" => st.remove_reference_input(input(op)),
        "collateral_input" => st.collateral_input(input(op)),
        "remove_collateral_input" => st.remove_collateral_input(input(op)),
        "output" => st.output(output(&op["o"])),
        "remove_output" => st.remove_output(jint(&op["idx"]) as usize),
        "collateral_output" => st.collateral_output(output(&op["o"])),
        "clear_collateral_output" => st.clear_collateral_output(),
        "fee" => st.fee(jint(&op["v"]) as u64),
        "clear_fee" => st.clear_fee(),
        "mint_asset" => {
            let keep = st.clone();
            match st.mint_asset(policy(jint(&op["p"])), name(jint(&op["n"])), jint(&op["a"])) {
                Ok(s) => s,
                Err(_) => return (keep, "err"),
            }
        }
        "remove_mint_asset" => st.remove_mint_asset(policy(jint(&op["p"])), name(jint(&op["n"]))),
        "valid_from_slot" => st.valid_from_slot(jint(&op["v"]) as u64),
        "clear_valid_from_slot" => st.clear_valid_from_slot(),
        "invalid_from_slot" => st.invalid_from_slot(jint(&op["v"]) as u64),
        "clear_invalid_from_slot" => st.clear_invalid_from_slot(),
        "network_id" => st.network_id(jint(&op["v"]) as u8),
        "clear_network_id" => st.clear_network_id(),
        "disclosed_signer" => st.disclosed_signer(keyhash(jint(&op["k"]))),
        "remove_disclosed_signer" => st.remove_disclosed_signer(keyhash(jint(&op["k"]))),
        "script" => st.script(kind(jstr(&op["kind"])), script_bytes(jstr(&op["kind"]), jint(&op["s"]))),
        "remove_script_by_hash" => st.remove_script_by_hash(script_hash(jstr(&op["kind"]), jint(&op["s"]))),
        "datum" => st.datum(data(jint(&op["d"]))),
        "remove_datum" => st.remove_datum(data(jint(&op["d"]))),
        "remove_datum_by_hash" => st.remove_datum_by_hash(Hasher::<256>::hash_cbor(&data(jint(&op["d"])))),
        "add_spend_redeemer" => st.add_spend_redeemer(input(op), data(jint(&op["d"])), ex_units(&op["ex"])),
        "remove_spend_redeemer" => st.remove_spend_redeemer(input(op)),
        "add_mint_redeemer" => st.add_mint_redeemer(policy(jint(&op["p"])), data(jint(&op["d"])), ex_units(&op["ex"])),
        "remove_mint_redeemer" => st.remove_mint_redeemer(policy(jint(&op["p"]))),
        "add_auxiliary_data" => st.add_auxiliary_data(aux(jint(&op["x"]))),
        "clear_auxiliary_data" => st.clear_auxiliary_data(),
        "add_language" => st.add_language(kind(jstr(&op["kind"])), vec![1, 2, 3]),
        other => die(&format!("unknown builder op {other}")),
    };
    (st, "ok")
}

// ---------------------------------------------------------------- projection
fn find(pred: impl Fn(i64) -> bool) -> i64 {
    (1..=MAXL).find(|l| pred(*l)).unwrap_or(0)
}
fn p_input(i: &conway::TransactionInput) -> Value {
    json!([find(|l| *h32(l as u8) == *i.transaction_id), i.index])
}
fn p_data(pd: &PlutusData) -> i64 {
    find(|l| l != 9 && PlutusData::decode_fragment(&data(l)).map(|x| x == *pd).unwrap_or(false))
}
fn p_native(ns: &NativeScript) -> i64 {
    find(|l| NativeScript::decode_fragment(&script_bytes("native", l)).map(|x| x == *ns).unwrap_or(false))
}
fn p_plutus(bytes: &[u8]) -> i64 {
    find(|l| plutus_script(l as u8) == bytes)
}
fn p_output(o: &TransactionOutput) -> Value {
    let o = match o {
        TransactionOutput::PostAlonzo(o) => o,
        TransactionOutput::Legacy(_) => return json!({"addr": 0, "lovelace": 0, "assets": [], "datum": [], "script": []}),
    };
    let (coin, assets) = match &o.value {
        CValue::Coin(c) => (*c, vec![]),
        CValue::Multiasset(c, ma) => {
            let mut v = vec![];
            for (p, names) in ma.iter() {
                for (n, q) in names.iter() {
                    v.push(json!([find(|l| *policy(l) == **p), find(|l| name(l) == n.to_vec()), u64::from(q)]));
                }
            }
            (*c, v)
        }
    };
    let datum = match o.datum_option.as_deref() {
        None => json!([]),
        Some(DatumOption::Hash(h)) => json!(["hash", find(|l| *datum_hash(l) == **h)]),
        Some(DatumOption::Data(d)) => json!(["inline", p_data(&d.0)]),
    };
    let script = match o.script_ref.as_ref().map(|x| &x.0) {
        None => json!([]),
        Some(ScriptRef::NativeScript(n)) => json!(["native", p_native(n)]),
        Some(ScriptRef::PlutusV1Script(s)) => json!(["plutus_v1", p_plutus(s.as_ref())]),
        Some(ScriptRef::PlutusV2Script(s)) => json!(["plutus_v2", p_plutus(s.as_ref())]),
        Some(ScriptRef::PlutusV3Script(s)) => json!(["plutus_v3", p_plutus(s.as_ref())]),
    };
    json!({"addr": find(|l| addr(l).to_vec() == o.address.to_vec()), "lovelace": coin, "assets": assets,
           "datum": datum, "script": script})
}
fn opt<T: Into<Value>>(x: Option<T>) -> Value {
    match x {
        None => json!([]),
        Some(v) => json!([v.into()]),
    }
}

/// Abstract Conway transaction found in `tx_bytes` (MultiEraTx::decode).
pub fn project(tx_bytes: &[u8]) -> Result<Value, String> {
    let m = MultiEraTx::decode(tx_bytes).map_err(|e| format!("tx_bytes do not decode: {e}"))?;
    let tx = m.as_conway().ok_or("tx_bytes are not a Conway transaction")?;
    let b = &tx.transaction_body;
    let w = &tx.transaction_witness_set;
    let ins = |v: Option<&Vec<conway::TransactionInput>>| -> Vec<Value> { v.map(|x| x.iter().map(p_input).collect()).unwrap_or_default() };
    let mut mint = vec![];
    if let Some(ma) = &b.mint {
        for (p, names) in ma.iter() {
            for (n, q) in names.iter() {
                mint.push(json!([find(|l| *policy(l) == **p), find(|l| name(l) == n.to_vec()), i64::from(q)]));
            }
        }
    }
    let mut scripts = vec![];
    for s in w.native_script.iter().flat_map(|x| x.iter()) {
        scripts.push(json!(["native", p_native(s)]));
    }
    for s in w.plutus_v1_script.iter().flat_map(|x| x.iter()) {
        scripts.push(json!(["plutus_v1", p_plutus(s.as_ref())]));
    }
    for s in w.plutus_v2_script.iter().flat_map(|x| x.iter()) {
        scripts.push(json!(["plutus_v2", p_plutus(s.as_ref())]));
    }
    for s in w.plutus_v3_script.iter().flat_map(|x| x.iter()) {
        scripts.push(json!(["plutus_v3", p_plutus(s.as_ref())]));
    }
    let datums: Vec<Value> = w.plutus_data.iter().flat_map(|x| x.iter()).map(|d| json!(p_data(d))).collect();
    let mut redeemers = vec![];
    let tagname = |t: &RedeemerTag| match t {
        RedeemerTag::Spend => "spend",
        RedeemerTag::Mint => "mint",
        _ => "other",
    };
    match w.redeemer.as_deref() {
        None => {}
        Some(Redeemers::List(l)) => {
            for r in l {
                redeemers.push(json!({"tag": tagname(&r.tag), "idx": r.index, "data": p_data(&r.data),
                    "mem": r.ex_units.mem, "steps": r.ex_units.steps}));
            }
        }
        Some(Redeemers::Map(mp)) => {
            for (k, v) in mp.iter() {
                redeemers.push(json!({"tag": tagname(&k.tag), "idx": k.index, "data": p_data(&v.data),
                    "mem": v.ex_units.mem, "steps": v.ex_units.steps}));
            }
        }
    }
    let auxl = match Option::from(tx.auxiliary_data.clone()) {
        None => json!([]),
        Some::<pallas_primitives::KeepRaw<conway::AuxiliaryData>>(a) => json!([find(|l| {
            l != 9 && pallas_codec::minicbor::decode::<conway::AuxiliaryData>(&aux(l)).map(|x| x == *a).unwrap_or(false)
        })]),
    };
    let net = b.network_id.map(|n| match n {
        NetworkId::Testnet => 0,
        NetworkId::Mainnet => 1,
    });
    Ok(json!({
        "inputs": ins(Some(&*b.inputs)),
        "refs": ins(b.reference_inputs.as_deref()),
        "colls": ins(b.collateral.as_deref()),
        "outputs": b.outputs.iter().map(p_output).collect::<Vec<_>>(),
        "collret": b.collateral_return.as_ref().map(|o| vec![p_output(o)]).unwrap_or_default(),
        "fee": b.fee,
        "mint": mint,
        "vfrom": opt(b.validity_interval_start), "ttl": opt(b.ttl), "net": opt(net),
        "signers": b.required_signers.iter().flat_map(|x| x.iter()).map(|k| json!(find(|l| *keyhash(l) == **k))).collect::<Vec<_>>(),
        "scripts": scripts, "datums": datums, "redeemers": redeemers,
        "aux": auxl, "sdh": b.script_data_hash.is_some(),
    }))
}

/// build_conway_raw on a clone, caught; the outcome record of the specification.
pub fn build_outcome(st: &StagingTransaction) -> Value {
    let st = st.clone();
    match catch(move || st.build_conway_raw()) {
        Err(p) => json!({"res": "panic", "msg": p}),
        Ok(Err(e)) => json!({"res": "error", "err": format!("{e:?}")}),
        Ok(Ok(built)) => {
            let bytes = &built.tx_bytes.0;
            let body_hash = match body_bytes(bytes) {
                Ok(b) => hex(Hasher::<256>::hash(b).as_ref()),
                Err(e) => format!("no body: {e}"),
            };
            match project(bytes) {
                Ok(tx) => json!({"res": "ok", "tx": tx, "id": hex(&built.tx_hash.0), "body_hash": body_hash}),
                // an undecodable result is an accepted build whose content is nothing the staging state holds
                Err(e) => json!({"res": "ok", "undecodable": e, "id": hex(&built.tx_hash.0), "body_hash": body_hash,
                    "tx": {"inputs": [[0, 0]], "refs": [], "colls": [], "outputs": [], "collret": [], "fee": 0, "mint": [],
                           "vfrom": [], "ttl": [], "net": [], "signers": [], "scripts": [], "datums": [], "redeemers": [],
                           "aux": [], "sdh": false}}),
            }
        }
    }
}

/// order-insensitive form of the set-like fields (both sides of a comparison)
fn canon(tx: &Value) -> Value {
    let mut t = tx.clone();
    let sort = |v: &mut Value| {
        if let Some(a) = v.as_array_mut() {
            a.sort_by_key(|x| x.to_string());
        }
    };
    for f in ["mint", "scripts", "datums", "redeemers"] {
        sort(&mut t[f]);
    }
    for f in ["outputs", "collret"] {
        if let Some(a) = t[f].as_array_mut() {
            for o in a.iter_mut() {
                sort(&mut o["assets"]);
            }
        }
    }
    t
}

fn same_outcome(got: &Value, want: &Value) -> bool {
    if got["res"] != want["res"] {
        return false;
    }
    if jstr(&got["res"]) != "ok" {
        return true;
    }
    got["id"] == got["body_hash"] && canon(&got["tx"]) == canon(&want["tx"])
}

/// M2: TLC vectors {ops, expect = Build(st)} executed on the real builder.
/// Outcomes equal to the design are accepted (MC proved Conforms(st, Build(st)));
/// the others are written as a trace for TLC to decide with Conforms.
pub fn replay(args: &Args) {
    let vecs = read_ndjson(args.get("in"));
    let mut out = Ndjson::create(args.get("out"));
    let mut doubt = Ndjson::create(args.get("doubt"));
    for (i, v) in vecs.iter().enumerate() {
        let mut st = StagingTransaction::new();
        let mut staging_panic = None;
        for op in jarr(&v["ops"]) {
            let keep = st.clone();
            match catch(|| apply_op(st, op)) {
                Ok((s, _)) => st = s,
                Err(p) => {
                    staging_panic = Some(json!({"op": op, "msg": p}));
                    st = keep;
                    break;
                }
            }
        }
        if let Some(p) = staging_panic {
            out.ev(json!({"i": i, "same": false, "staging_panic": p}));
            continue;
        }
        let got = build_outcome(&st);
        let same = same_outcome(&got, &v["expect"]);
        if same {
            out.ev(json!({"i": i, "same": true, "res": got["res"]}));
        } else {
            doubt.ev(json!({"ev": "reset", "vector": i}));
            for op in jarr(&v["ops"]) {
                let mut e = op.clone();
                e["ev"] = e["op"].clone();
                doubt.ev(e);
            }
            doubt.ev(json!({"ev": "build", "out": got, "vector": i}));
            out.ev(json!({"i": i, "same": false, "got": got, "want": v["expect"], "ops": v["ops"]}));
        }
    }
    out.finish();
    doubt.finish();
}

// ------------------------------------------------------------------ M3 driver
fn rand_input(rng: &mut Rng) -> (i64, i64) {
    (rng.range(1, 3) as i64, rng.below(3) as i64)
}
fn rand_ex(rng: &mut Rng, none_pct: u64) -> Value {
    if rng.chance(none_pct, 100) {
        json!([])
    } else {
        json!([rng.range(1, 1000), rng.range(1, 5000)])
    }
}
fn rand_data(rng: &mut Rng) -> i64 {
    if rng.chance(1, 60) {
        9
    } else {
        rng.range(1, 5) as i64
    }
}
fn rand_script(rng: &mut Rng) -> (&'static str, i64) {
    let k = *rng.pick(&["native", "plutus_v1", "plutus_v2", "plutus_v3"]);
    let s = if k == "native" && rng.chance(1, 30) { 9 } else { rng.range(1, 3) as i64 };
    (k, s)
}
fn rand_output(rng: &mut Rng) -> Value {
    let n = rng.below(4);
    let adds: Vec<Value> = (0..n).map(|_| json!([rng.range(1, 2), rng.range(1, 2), rng.below(4)])).collect();
    let datum = match rng.below(4) {
        0 => json!(["inline", rand_data(rng)]),
        1 => json!(["hash", rng.range(1, 3)]),
        _ => json!([]),
    };
    let script = if rng.chance(1, 4) {
        let (k, s) = rand_script(rng);
        json!([k, s])
    } else {
        json!([])
    };
    json!({"addr": rng.range(1, 2), "lovelace": 1_000_000 + rng.below(1000), "adds": adds, "datum": datum, "script": script})
}

/// a staged input / minted policy (as labels) most of the time, so that redeemers usually have a target
fn staged_input(rng: &mut Rng, st: &StagingTransaction) -> (i64, i64) {
    match st.inputs.as_deref() {
        Some(v) if !v.is_empty() && rng.chance(4, 5) => {
            let x = rng.pick(v);
            (find(|l| *h32(l as u8) == x.tx_hash.0), x.txo_index as i64)
        }
        _ => rand_input(rng),
    }
}
fn staged_policy(rng: &mut Rng, st: &StagingTransaction) -> i64 {
    let mut ps: Vec<i64> = st.mint.iter().flat_map(|m| m.keys()).map(|p| find(|l| *policy(l) == p.0)).collect();
    ps.sort();
    if !ps.is_empty() && rng.chance(4, 5) {
        *rng.pick(&ps)
    } else {
        rng.range(1, 3) as i64
    }
}

fn rand_op(rng: &mut Rng, st: &StagingTransaction, none_pct: u64) -> Value {
    let n_outputs = st.outputs.as_ref().map(|o| o.len()).unwrap_or(0);
    let (h, i) = rand_input(rng);
    match rng.below(40) {
        0..=4 => json!({"ev": "input", "h": h, "i": i}),
        5 => json!({"ev": "remove_input", "h": h, "i": i}),
        6 => json!({"ev": "reference_input", "h": h, "i": i}),
        7 => json!({"ev": "remove_reference_input", "h": h, "i": i}),
        8 => json!({"ev": "collateral_input", "h": h, "i": i}),
        9 => json!({"ev": "remove_collateral_input", "h": h, "i": i}),
        10 | 11 => json!({"ev": "output", "o": rand_output(rng)}),
        12 if n_outputs > 0 => json!({"ev": "remove_output", "idx": rng.below(n_outputs as u64)}),
        12 => json!({"ev": "clear_fee"}),
        13 => json!({"ev": "collateral_output", "o": rand_output(rng)}),
        14 => json!({"ev": "clear_collateral_output"}),
        15 => json!({"ev": "fee", "v": 150_000 + rng.below(90_000)}),
        16..=19 => json!({"ev": "mint_asset", "p": rng.range(1, 3), "n": rng.range(1, 3), "a": *rng.pick(&[1i64, -1, 2, -2, 5])}),
        20 => json!({"ev": "remove_mint_asset", "p": rng.range(1, 3), "n": rng.range(1, 2)}),
        21 => json!({"ev": "valid_from_slot", "v": rng.below(100)}),
        22 => json!({"ev": *rng.pick(&["clear_valid_from_slot", "clear_invalid_from_slot", "clear_network_id", "clear_auxiliary_data"])}),
        23 => json!({"ev": "invalid_from_slot", "v": 100 + rng.below(100)}),
        24 => json!({"ev": "network_id", "v": if rng.chance(1, 12) { 2 + rng.below(3) } else { rng.below(2) }}),
        25 => json!({"ev": "disclosed_signer", "k": rng.range(1, 3)}),
        26 => json!({"ev": "remove_disclosed_signer", "k": rng.range(1, 3)}),
        27 | 28 => {
            let (k, s) = rand_script(rng);
            json!({"ev": "script", "kind": k, "s": s})
        }
        29 => {
            let (k, s) = rand_script(rng);
            json!({"ev": "remove_script_by_hash", "kind": k, "s": s})
        }
        30 | 31 => json!({"ev": "datum", "d": rand_data(rng)}),
        32 => json!({"ev": *rng.pick(&["remove_datum", "remove_datum_by_hash"]), "d": rand_data(rng)}),
        33 | 34 => {
            let (h, i) = staged_input(rng, st);
            json!({"ev": "add_spend_redeemer", "h": h, "i": i, "d": rand_data(rng), "ex": rand_ex(rng, none_pct)})
        }
        35 => json!({"ev": "remove_spend_redeemer", "h": h, "i": i}),
        36 => json!({"ev": "add_mint_redeemer", "p": staged_policy(rng, st), "d": rand_data(rng), "ex": rand_ex(rng, none_pct)}),
        37 => json!({"ev": "remove_mint_redeemer", "p": rng.range(1, 3)}),
        38 => json!({"ev": "add_auxiliary_data", "x": if rng.chance(1, 5) { 9 } else { rng.range(1, 3) }}),
        _ => json!({"ev": "add_language", "kind": *rng.pick(&["native", "plutus_v1", "plutus_v2", "plutus_v3"])}),
    }
}

/// M3: seeded long call sequences on the real builder with a build (on a clone)
/// every few calls, logged for TraceTxBuilder.
pub fn trace(args: &Args) {
    let mut rng = Rng::new(args.seed());
    let runs = args.num("runs", 10);
    let ops = args.num("ops", 60);
    let none_pct = args.num("none-pct", 3);
    let mut out = Ndjson::create(args.get("out"));
    for _ in 0..runs {
        let mut st = StagingTransaction::new();
        out.ev(json!({"ev": "reset"}));
        for _ in 0..ops {
            let op = rand_op(&mut rng, &st, none_pct);
            let keep = st.clone();
            match catch(|| apply_op(st, &op)) {
                Ok((s, res)) => {
                    st = s;
                    let mut e = op;
                    e["res"] = json!(res);
                    out.ev(e);
                }
                Err(p) => {
                    // a panic while staging is outside C40; logged, the run restarts
                    drop(keep);
                    out.ev(json!({"ev": "reset", "staging_panic": p, "op": op}));
                    st = StagingTransaction::new();
                }
            }
            if rng.chance(1, 3) {
                out.ev(json!({"ev": "build", "out": build_outcome(&st)}));
            }
        }
        out.ev(json!({"ev": "build", "out": build_outcome(&st)}));
    }
    out.finish();
}
