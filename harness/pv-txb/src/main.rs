//! Conformance drivers (pv-txb). Sub-commands are added per property.
mod builder;
mod common;
mod signing;

fn main() {
    let args = pv_core::Args::parse();
    match args.cmd.as_str() {
        "signing-replay" => signing::replay(&args),
        "signing-trace" => signing::trace(&args),
        "builder-replay" => builder::replay(&args),
        "builder-trace" => builder::trace(&args),
        other => pv_core::die(&format!("unknown sub-command {other}")),
    }
}
