//! Shared pieces of the txbuilder drivers: a minimal CBOR skipper (to find the
//! raw body bytes inside `tx_bytes` without pallas' decoder), the key pool, and
//! a few fixed byte strings (addresses, datums, scripts).
use pallas_crypto::hash::Hash;
use pallas_crypto::key::ed25519::{PublicKey, SecretKey, SecretKeyExtended, Signature};
use pallas_txbuilder::{BuiltTransaction, TxBuilderError};

/// Position just after the CBOR data item starting at `pos` (definite and
/// indefinite lengths, tags). Errors on truncation / reserved additional info.
pub fn skip_item(b: &[u8], pos: usize) -> Result<usize, String> {
    let ib = *b.get(pos).ok_or("truncated")?;
    let (major, ai) = (ib >> 5, ib & 0x1f);
    let mut p = pos + 1;
    let arg: Option<u64> = match ai {
        0..=23 => Some(ai as u64),
        24 | 25 | 26 | 27 => {
            let n = 1usize << (ai - 24);
            let s = b.get(p..p + n).ok_or("truncated argument")?;
            p += n;
            Some(s.iter().fold(0u64, |a, x| (a << 8) | *x as u64))
        }
        31 => None,
        _ => return Err(format!("reserved additional info {ai}")),
    };
    match (major, arg) {
        (0, Some(_)) | (1, Some(_)) => Ok(p),
        (7, Some(_)) => Ok(p),
        (2, Some(n)) | (3, Some(n)) => {
            let e = p.checked_add(n as usize).ok_or("length overflow")?;
            if e > b.len() {
                return Err("truncated string".into());
            }
            Ok(e)
        }
        (4, Some(n)) => (0..n).try_fold(p, |q, _| skip_item(b, q)),
        (5, Some(n)) => (0..2 * n).try_fold(p, |q, _| skip_item(b, q)),
        (6, Some(_)) => skip_item(b, p),
        (2..=5, None) => {
            while *b.get(p).ok_or("truncated indefinite item")? != 0xff {
                p = skip_item(b, p)?;
            }
            Ok(p + 1)
        }
        _ => Err(format!("bad initial byte {ib:#x}")),
    }
}

/// The raw bytes of the transaction body: first element of the 4-array.
pub fn body_bytes(tx: &[u8]) -> Result<&[u8], String> {
    if tx.first() != Some(&0x84) {
        return Err(format!("tx does not start with array(4): {:?}", tx.first()));
    }
    let end = skip_item(tx, 1)?;
    // the whole transaction must be exactly one well-formed item
    let w = skip_item(tx, end)?;
    let v = skip_item(tx, w)?;
    let a = skip_item(tx, v)?;
    if a != tx.len() {
        return Err("trailing bytes after the transaction".into());
    }
    Ok(&tx[1..end])
}

/// Raw bytes of the witness set with the vkey-witness entry (key 0) removed,
/// followed by validity flag and auxiliary data: "everything else" in the tx.
pub fn rest_bytes(tx: &[u8]) -> Result<Vec<u8>, String> {
    let b_end = skip_item(tx, 1)?;
    let w_end = skip_item(tx, b_end)?;
    let ws = &tx[b_end..w_end];
    let mut out = vec![];
    // witness set = definite map
    let ib = ws[0];
    if ib >> 5 != 5 || (ib & 0x1f) > 23 {
        return Err(format!("unexpected witness set header {ib:#x}"));
    }
    let mut p = 1;
    for _ in 0..(ib & 0x1f) {
        let k_end = skip_item(ws, p)?;
        let v_end = skip_item(ws, k_end)?;
        if ws[p] != 0x00 {
            out.extend_from_slice(&ws[p..v_end]);
        }
        p = v_end;
    }
    out.extend_from_slice(&tx[w_end..]);
    Ok(out)
}

/// One signer of the pool (both secret key flavours of pallas-crypto).
pub enum Signer {
    Plain(SecretKey),
    Extended(SecretKeyExtended),
}

impl Signer {
    pub fn public_key(&self) -> PublicKey {
        match self {
            Signer::Plain(k) => k.public_key(),
            Signer::Extended(k) => k.public_key(),
        }
    }
    pub fn sign_raw(&self, msg: &[u8]) -> Signature {
        match self {
            Signer::Plain(k) => k.sign(msg),
            Signer::Extended(k) => k.sign(msg),
        }
    }
    pub fn sign_tx(&self, tx: BuiltTransaction) -> Result<BuiltTransaction, TxBuilderError> {
        match self {
            Signer::Plain(k) => tx.sign(k),
            Signer::Extended(k) => tx.sign(k),
        }
    }
}

/// Key pool: labels 1..=n. Key 3 is an extended key.
pub fn key_pool(n: usize) -> Vec<Signer> {
    (1..=n)
        .map(|i| {
            if i % 3 == 0 {
                let mut b = [0u8; 64];
                for (j, x) in b.iter_mut().enumerate() {
                    *x = (i * 37 + j * 11 + 5) as u8;
                }
                b[0] &= 0b1111_1000;
                b[31] &= 0b0011_1111;
                b[31] |= 0b0100_0000;
                Signer::Extended(SecretKeyExtended::from_bytes(b).expect("tweaked extended key"))
            } else {
                let mut b = [0u8; 32];
                for (j, x) in b.iter_mut().enumerate() {
                    *x = (i * 29 + j * 7 + 3) as u8;
                }
                Signer::Plain(SecretKey::from(b))
            }
        })
        .collect()
}

pub fn h32(tag: u8) -> Hash<32> {
    let mut b = [tag; 32];
    b[31] = tag.wrapping_mul(3);
    Hash::new(b)
}
pub fn h28(tag: u8) -> Hash<28> {
    let mut b = [tag; 28];
    b[27] = tag.wrapping_mul(5);
    Hash::new(b)
}

/// Enterprise key-hash address on network `net` (0/1) with payment hash tag `t`.
pub fn address(net: u8, t: u8) -> pallas_addresses::Address {
    let mut b = vec![0x60 | net];
    b.extend_from_slice(h28(t).as_ref());
    pallas_addresses::Address::from_bytes(&b).expect("address")
}

/// Well-formed PlutusData items (label 1..): small ints and a constructor.
pub fn plutus_data(label: i64) -> Vec<u8> {
    match label {
        1 => vec![0x01],
        2 => vec![0xd8, 0x79, 0x80],             // Constr 0 []
        3 => vec![0x9f, 0x01, 0x02, 0xff],       // indefinite list [1, 2]
        4 => vec![0x43, 0xaa, 0xbb, 0xcc],       // bytes
        _ => vec![0x18, 0x64],                   // 100
    }
}

/// Native script `sig(keyhash tag)`.
pub fn native_script(tag: u8) -> Vec<u8> {
    let mut b = vec![0x82, 0x00, 0x58, 0x1c];
    b.extend_from_slice(h28(tag).as_ref());
    b
}

/// "Plutus script" bytes (opaque to the builder).
pub fn plutus_script(tag: u8) -> Vec<u8> {
    vec![0x4e, 0x4d, 0x01, 0x00, 0x00, 0x33, 0x22, 0x22, tag, 0x00, 0x12, 0x00, 0x11]
}
