//! C07 — PlutusData drivers.
//!  * `plutus-replay`: TLC vectors (spec/cbor/GenPlutusOrd.tla) -> build the real value from the
//!    abstract term, encode, decode, decode the alternative chunkings; report what happened.
//!  * `plutus-cmp`: build every term of the universe and log `Ord::cmp` for all ordered pairs as a
//!    trace for spec/cbor/TracePlutusOrd.tla.
use pallas_codec::minicbor;
use pallas_codec::utils::{Int, KeyValuePairs, MaybeIndefArray};
use pallas_primitives::{BigInt, BoundedBytes, Constr, PlutusData};
use pv_core::serde_json::Value;
use pv_core::{bytes_json, catch, jarr, jbytes, jint, json, jstr, Args, Ndjson};
use std::cmp::Ordering;
use std::ops::Deref;

fn be(v: &Value) -> u128 {
    jbytes(v).iter().fold(0u128, |a, x| (a << 8) | *x as u128)
}
fn norm(x: u128) -> Value {
    let b: Vec<u8> = x.to_be_bytes().iter().copied().skip_while(|b| *b == 0).collect();
    bytes_json(&b)
}
fn list(def: bool, xs: Vec<PlutusData>) -> MaybeIndefArray<PlutusData> {
    if def {
        MaybeIndefArray::Def(xs)
    } else {
        MaybeIndefArray::Indef(xs)
    }
}

/// abstract term (PlutusOrd.tla) -> real value
pub fn build(t: &Value) -> PlutusData {
    match jstr(&t["k"]) {
        "int" => PlutusData::BigInt(match jstr(&t["rep"]) {
            "int" => {
                let a = be(&t["a"]) as i128;
                let v = if t["neg"].as_bool().unwrap() { -1 - a } else { a };
                BigInt::Int(Int::try_from(v).unwrap_or_else(|_| pv_core::die("int term out of range")))
            }
            "biguint" => BigInt::BigUInt(BoundedBytes::from(jbytes(&t["a"]))),
            _ => BigInt::BigNInt(BoundedBytes::from(jbytes(&t["a"]))),
        }),
        "bytes" => PlutusData::BoundedBytes(BoundedBytes::from(jbytes(&t["b"]))),
        "arr" => PlutusData::Array(list(t["def"].as_bool().unwrap(), jarr(&t["xs"]).iter().map(build).collect())),
        "map" => {
            let kv: Vec<_> = jarr(&t["kv"]).iter().map(|p| (build(&p[0]), build(&p[1]))).collect();
            PlutusData::Map(if t["def"].as_bool().unwrap() { KeyValuePairs::Def(kv) } else { KeyValuePairs::Indef(kv) })
        }
        "constr" => {
            let tag = jint(&t["tag"]) as u64;
            PlutusData::Constr(Constr {
                tag,
                any_constructor: if tag == 102 { Some(be(&t["any"]) as u64) } else { None },
                fields: list(t["def"].as_bool().unwrap(), jarr(&t["xs"]).iter().map(build).collect()),
            })
        }
        other => pv_core::die(&format!("unknown term kind {other}")),
    }
}

/// real value -> abstract term
pub fn abs(d: &PlutusData) -> Value {
    match d {
        PlutusData::BigInt(BigInt::Int(i)) => {
            let v = i128::from(*i);
            if v < 0 {
                json!({"k": "int", "rep": "int", "neg": true, "a": norm((-1 - v) as u128)})
            } else {
                json!({"k": "int", "rep": "int", "neg": false, "a": norm(v as u128)})
            }
        }
        PlutusData::BigInt(BigInt::BigUInt(b)) => json!({"k": "int", "rep": "biguint", "neg": false, "a": bytes_json(b.deref())}),
        PlutusData::BigInt(BigInt::BigNInt(b)) => json!({"k": "int", "rep": "bignint", "neg": true, "a": bytes_json(b.deref())}),
        PlutusData::BoundedBytes(b) => json!({"k": "bytes", "b": bytes_json(b.deref())}),
        PlutusData::Array(a) => json!({"k": "arr", "def": matches!(a, MaybeIndefArray::Def(_)), "xs": a.iter().map(abs).collect::<Vec<_>>()}),
        PlutusData::Map(m) => json!({"k": "map", "def": matches!(m, KeyValuePairs::Def(_)),
                                     "kv": m.iter().map(|(k, v)| json!([abs(k), abs(v)])).collect::<Vec<_>>()}),
        PlutusData::Constr(c) => json!({"k": "constr", "tag": c.tag,
                                        "any": match c.any_constructor { Some(x) if c.tag == 102 => norm(x as u128), _ => json!([]) },
                                        "def": matches!(c.fields, MaybeIndefArray::Def(_)),
                                        "xs": c.fields.iter().map(abs).collect::<Vec<_>>()}),
    }
}

fn ord(o: Ordering) -> i64 {
    match o {
        Ordering::Less => -1,
        Ordering::Equal => 0,
        Ordering::Greater => 1,
    }
}

fn decode_report(bytes: &[u8], orig: &PlutusData) -> Value {
    match catch(|| minicbor::decode::<PlutusData>(bytes)) {
        Ok(Ok(d)) => json!({"ok": true, "equal": &d == orig && orig == &d, "cmp": ord(d.cmp(orig)), "term": abs(&d)}),
        Ok(Err(e)) => json!({"ok": false, "msg": e.to_string()}),
        Err(p) => json!({"ok": false, "panic": p}),
    }
}

/// `plutus-replay --in vectors.ndjson --out results.ndjson`
pub fn replay(args: &Args) {
    let rows = pv_core::read_ndjson(args.get("in"));
    let mut out = Ndjson::create(args.get("out"));
    for row in rows.iter() {
        let v = build(&row["term"]);
        let r = match catch(|| minicbor::to_vec(&v).expect("encode")) {
            Ok(enc) => {
                let alts: Vec<Value> = jarr(&row["alts"]).iter().map(|a| decode_report(&jbytes(a), &v)).collect();
                json!({"id": row["id"], "built": abs(&v), "enc": bytes_json(&enc), "dec": decode_report(&enc, &v), "alts": alts})
            }
            Err(p) => json!({"id": row["id"], "built": abs(&v), "panic": p}),
        };
        out.ev(r);
    }
    out.finish();
}

/// `plutus-cmp --in vectors.ndjson --out trace.ndjson`
pub fn cmp_trace(args: &Args) {
    let rows = pv_core::read_ndjson(args.get("in"));
    let terms: Vec<PlutusData> = rows.iter().map(|r| build(&r["term"])).collect();
    let mut out = Ndjson::create(args.get("out"));
    out.ev(json!({"ev": "universe", "n": terms.len()}));
    for (i, a) in terms.iter().enumerate() {
        match catch(|| terms.iter().map(|b| ord(a.cmp(b))).collect::<Vec<i64>>()) {
            Ok(c) => {
                // partial_cmp / eq are defined through cmp; log a disagreement as its own event
                let consistent = terms.iter().zip(&c).all(|(b, x)| a.partial_cmp(b).map(ord) == Some(*x) && (a == b) == (*x == 0));
                if consistent {
                    out.ev(json!({"ev": "row", "i": i + 1, "c": c}));
                } else {
                    out.ev(json!({"ev": "inconsistent", "i": i + 1, "c": c}));
                }
            }
            Err(p) => out.ev(json!({"ev": "panic", "i": i + 1, "msg": p})),
        }
    }
    out.finish();
}
