//! C08 — script integrity hash drivers.
//!  * `scriptdata-parts`: the raw parts (redeemer bytes, datum bytes as they appeared) of the five
//!    real transactions used by pallas' own test, for the specification to assemble pre-images from.
//!  * `scriptdata-replay`: TLC vectors (spec/ledger/GenScriptIntegrity.tla) -> decode the witness
//!    set, `ScriptData::build_for(..).hash()`, and `Hasher::<256>::hash` of every acceptable
//!    pre-image (the hash function is uninterpreted in the specification).
use pallas_codec::minicbor;
use pallas_crypto::hash::Hasher;
use pallas_primitives::conway::{LanguageViews, ScriptData, Tx, WitnessSet};
use pv_core::serde_json::Value;
use pallas_crypto::hash::Hash;
use pallas_txbuilder::{BuildConway, ExUnits, Input, ScriptKind, StagingTransaction};
use pv_core::{bytes_json, catch, jarr, jbytes, jint, json, jstr, Args, Ndjson};
use std::collections::BTreeMap;

/// (file, languages whose cost models the ledger used for that transaction)
const REAL: [(&str, &[u8]); 5] = [
    ("conway1.tx", &[1]),
    ("conway2.tx", &[0]),
    ("hydra-init.tx", &[1]),
    ("datum-only.tx", &[]),
    ("conway9.tx", &[0, 1, 2]),
];

fn load_tx(name: &str) -> Vec<u8> {
    let p = format!("{}/test_data/{}", pv_core::repo_root(), name);
    let s = std::fs::read_to_string(&p).unwrap_or_else(|e| pv_core::die(&format!("cannot read {p}: {e}")));
    pv_core::unhex(s.trim())
}

fn den(v: &Value) -> i64 {
    let m = jbytes(&v["m"]).iter().fold(0u128, |a, x| (a << 8) | *x as u128) as i128;
    let x = if v["neg"].as_bool().unwrap() { -1 - m } else { m };
    i64::try_from(x).unwrap_or_else(|_| pv_core::die("cost coefficient out of i64 range"))
}

/// cost vectors handed to the builder (small: the specification re-encodes them with TLC integers)
fn txb_costs(lang: u8) -> Vec<i64> {
    match lang {
        0 => vec![100, -1, 23, 24],
        1 => vec![0, 65536, -900],
        _ => vec![2147483647, -25, 1],
    }
}

/// Stage a Conway transaction with `spend` spend redeemers, `mint` mint redeemers, `datums` datums and the
/// given language views (None = `language_views` never set), build it, and return the parts of the EMITTED
/// transaction: redeemer bytes and datum bytes as they appear in the witness set, script_data_hash of the body.
fn build_once(spend: usize, mint: usize, datums: usize, langs: &Option<Vec<u8>>, salt: u8) -> Result<Value, String> {
    let mut st = StagingTransaction::new().fee(170_000);
    // insertion order varies with the salt; every staging owns fresh HashMaps (fresh RandomState)
    let mut order: Vec<usize> = (0..spend.max(1)).collect();
    order.rotate_left(salt as usize % spend.max(1));
    for i in order {
        let inp = Input::new(Hash::<32>::from([(i as u8).wrapping_mul(37).wrapping_add(1); 32]), (i % 3) as u64);
        st = st.input(inp.clone());
        if i < spend {
            // redeemer data differ per redeemer so that a different order gives different bytes
            st = st.add_spend_redeemer(inp, vec![0x18, 0x64 + i as u8], Some(ExUnits { mem: 1000 + i as u64, steps: 70_000 }));
        }
    }
    for j in 0..mint {
        let pol = Hash::<28>::from([0xa0 + (j as u8) * 7; 28]);
        st = st.mint_asset(pol, vec![0x41 + j as u8], 5 + j as i64).map_err(|e| e.to_string())?;
        st = st.add_mint_redeemer(pol, vec![0xd8, 0x79, 0x9f, j as u8, 0xff], Some(ExUnits { mem: 7, steps: 9 + j as u64 }));
    }
    for k in 0..datums {
        st = st.datum(if k % 2 == 0 { vec![0x43, 1, 2, k as u8] } else { vec![0x9f, 0x18, k as u8, 0xff] });
    }
    if let Some(ls) = langs {
        st = st.language_views(LanguageViews(BTreeMap::new()));
        for l in ls {
            st = st.add_language([ScriptKind::PlutusV1, ScriptKind::PlutusV2, ScriptKind::PlutusV3][*l as usize], txb_costs(*l));
        }
    }
    let built = st.build_conway_raw().map_err(|e| e.to_string())?;
    let tx: Tx = minicbor::decode(&built.tx_bytes.0).map_err(|e| format!("built tx does not decode: {e}"))?;
    let ws = &tx.transaction_witness_set;
    let r = ws.redeemer.as_ref().map(|x| x.raw_cbor().to_vec()).unwrap_or_default();
    let d = ws.plutus_data.as_ref().map(|x| x.raw_cbor().to_vec()).unwrap_or_default();
    let sorted = match ws.redeemer.as_ref().map(|x| (**x).clone()) {
        Some(pallas_primitives::conway::Redeemers::List(v)) => v.windows(2).all(|w| (w[0].tag, w[0].index) <= (w[1].tag, w[1].index)),
        _ => true,
    };
    let ls: Vec<Value> = langs.iter().flatten().map(|l| json!({"lang": l, "costs": txb_costs(*l)})).collect();
    Ok(json!({"r": bytes_json(&r), "d": bytes_json(&d), "langs": ls, "views_set": langs.is_some(),
              "body": tx.transaction_body.script_data_hash.map(|h| h.to_string()).unwrap_or_default(),
              "n_redeemers": spend + mint, "sorted": sorted}))
}

/// staged cases x several fresh builds; identical outcomes are merged (count kept)
fn txb_parts(out: &mut Ndjson, thorough: bool) {
    let spends: &[usize] = if thorough { &[0, 1, 2, 3, 4, 6, 8] } else { &[0, 1, 3, 6] };
    let mints: &[usize] = if thorough { &[0, 1, 2] } else { &[0, 2] };
    let lang_sets: Vec<Option<Vec<u8>>> = if thorough {
        vec![None, Some(vec![]), Some(vec![0]), Some(vec![1]), Some(vec![2]), Some(vec![0, 1]), Some(vec![0, 2]), Some(vec![1, 2]), Some(vec![0, 1, 2])]
    } else {
        vec![None, Some(vec![]), Some(vec![0]), Some(vec![1, 2]), Some(vec![0, 1, 2])]
    };
    let builds = if thorough { 8 } else { 4 };
    for &s in spends {
        for &m in mints {
            for dn in [0usize, 2] {
                for ls in &lang_sets {
                    let case = format!("txb/s{s}m{m}d{dn}/{}", match ls { None => "unset".to_string(), Some(v) => format!("v{}", v.iter().map(|x| x.to_string()).collect::<String>()) });
                    let mut seen: Vec<(Value, usize)> = vec![];
                    for b in 0..builds {
                        let v = match catch(|| build_once(s, m, dn, ls, b as u8)) {
                            Ok(Ok(v)) => v,
                            Ok(Err(e)) => json!({"error": e}),
                            Err(p) => json!({"panic": p}),
                        };
                        match seen.iter_mut().find(|(x, _)| *x == v) {
                            Some((_, c)) => *c += 1,
                            None => seen.push((v, 1)),
                        }
                    }
                    for (k, (mut v, c)) in seen.into_iter().enumerate() {
                        v["name"] = json!(format!("{case}#{k}"));
                        v["builds"] = json!(c);
                        if v.get("r").is_none() {
                            v["r"] = json!([]);
                            v["d"] = json!([]);
                            v["langs"] = json!([]);
                        }
                        out.ev(v);
                    }
                }
            }
        }
    }
}

/// `scriptdata-parts --costs costs.json --out parts.ndjson [--txb quick|thorough]`
pub fn parts(args: &Args) {
    let costs: Value = pv_core::serde_json::from_str(&std::fs::read_to_string(args.get("costs")).unwrap_or_else(|e| pv_core::die(&e.to_string())))
        .unwrap_or_else(|e| pv_core::die(&e.to_string()));
    let mut out = Ndjson::create(args.get("out"));
    for (name, langs) in REAL.iter() {
        let bytes = load_tx(name);
        let tx: Tx = minicbor::decode(&bytes).unwrap_or_else(|e| pv_core::die(&format!("{name}: {e}")));
        let ws = &tx.transaction_witness_set;
        let r = ws.redeemer.as_ref().map(|x| x.raw_cbor().to_vec()).unwrap_or_default();
        let d = ws.plutus_data.as_ref().map(|x| x.raw_cbor().to_vec()).unwrap_or_default();
        let ls: Vec<Value> = langs.iter().map(|l| json!({"lang": l, "costs": costs[l.to_string()].clone()})).collect();
        out.ev(json!({"name": name, "r": bytes_json(&r), "d": bytes_json(&d), "langs": ls}));
    }
    if let Some(t) = args.opt("txb") {
        txb_parts(&mut out, t == "thorough");
    }
    out.finish();
}

fn views(langs: &Value, real: bool) -> LanguageViews {
    jarr(langs)
        .iter()
        .map(|l| {
            let cs: Vec<i64> = jarr(&l["costs"]).iter().map(|c| if real { jint(c) } else { den(c) }).collect();
            (jint(&l["lang"]) as u8, cs)
        })
        .collect()
}

fn digests(row: &Value) -> Vec<Value> {
    jarr(&row["pre"]).iter().map(|p| json!(Hasher::<256>::hash(&jbytes(p)).to_string())).collect()
}

/// `scriptdata-replay --in vectors.ndjson --parts parts.ndjson --out results.ndjson`
pub fn replay(args: &Args) {
    let rows = pv_core::read_ndjson(args.get("in"));
    let parts = args.opt("parts").map(pv_core::read_ndjson).unwrap_or_default();
    let mut out = Ndjson::create(args.get("out"));
    for (i, row) in rows.iter().enumerate() {
        let want = digests(row);
        let r = match jstr(&row["kind"]) {
            "gen" => {
                let ws_bytes = jbytes(&row["ws"]);
                let lv = views(&row["langs"], false);
                let go = |opt: Option<LanguageViews>| {
                    catch(|| {
                        minicbor::decode::<WitnessSet>(&ws_bytes)
                            .map(|ws| ScriptData::build_for(&ws, &opt).map(|sd| sd.hash().to_string()))
                            .map_err(|e| e.to_string())
                    })
                };
                let some = go(Some(lv.clone()));
                // an empty view set may also be passed as None
                let none = if lv.0.is_empty() { Some(go(None)) } else { None };
                let show = |x: &Result<Result<Option<String>, String>, String>| match x {
                    Ok(Ok(Some(h))) => json!({"st": "hash", "h": h}),
                    Ok(Ok(None)) => json!({"st": "nohash"}),
                    Ok(Err(e)) => json!({"st": "ws-decode-error", "msg": e}),
                    Err(p) => json!({"st": "panic", "msg": p}),
                };
                json!({"i": i, "kind": "gen", "got": show(&some), "got_none": none.as_ref().map(show), "want": want})
            }
            _ => {
                let name = jstr(&row["name"]);
                let part = parts.iter().find(|p| jstr(&p["name"]) == name).unwrap_or_else(|| pv_core::die("unknown real tx"));
                if name.starts_with("txb/") {
                    let got = match part["body"].as_str() {
                        Some(h) if !h.is_empty() => json!({"st": "hash", "h": h}),
                        _ => json!({"st": "nohash"}),
                    };
                    out.ev(json!({"i": i, "kind": "real", "name": name, "got": got, "want": want}));
                    continue;
                }
                let lv = views(&part["langs"], true);
                let opt = if lv.0.is_empty() { None } else { Some(lv) };
                let bytes = load_tx(name);
                let got = catch(|| {
                    let tx: Tx = minicbor::decode(&bytes).expect("real tx decodes");
                    let h = ScriptData::build_for(&tx.transaction_witness_set, &opt).map(|sd| sd.hash().to_string());
                    (h, tx.transaction_body.script_data_hash.map(|h| h.to_string()))
                });
                match got {
                    Ok((h, body)) => json!({"i": i, "kind": "real", "name": name, "got": match h { Some(h) => json!({"st": "hash", "h": h}), None => json!({"st": "nohash"}) },
                                            "body": body, "want": want}),
                    Err(p) => json!({"i": i, "kind": "real", "name": name, "got": {"st": "panic", "msg": p}, "want": want}),
                }
            }
        };
        out.ev(r);
    }
    out.finish();
}
