//! C08 — script integrity hash drivers.
//!  * `scriptdata-parts`: the raw parts (redeemer bytes, datum bytes as they appeared) of the five
//!    real transactions used by pallas' own test, for the specification to assemble pre-images from.
//!  * `scriptdata-replay`: TLC vectors (spec/ledger/GenScriptIntegrity.tla) -> decode the witness
//!    set, `ScriptData::build_for(..).hash()`, and `Hasher::<256>::hash` of every acceptable
//!    pre-image (the hash function is uninterpreted in the specification).
use pallas_codec::minicbor;
use pallas_crypto::hash::Hasher;
use pallas_primitives::conway::{LanguageViews, ScriptData, Tx, WitnessSet};
use pv_core::serde_json::Value;
use pv_core::{bytes_json, catch, jarr, jbytes, jint, json, jstr, Args, Ndjson};

/// (file, languages whose cost models the ledger used for that transaction)
const REAL: [(&str, &[u8]); 5] = [
    ("conway1.tx", &[1]),
    ("conway2.tx", &[0]),
    ("hydra-init.tx", &[1]),
    ("datum-only.tx", &[]),
    ("conway9.tx", &[0, 1, 2]),
];

fn load_tx(name: &str) -> Vec<u8> {
    let p = format!("{}/test_data/{}", pv_core::repo_root(), name);
    let s = std::fs::read_to_string(&p).unwrap_or_else(|e| pv_core::die(&format!("cannot read {p}: {e}")));
    pv_core::unhex(s.trim())
}

fn den(v: &Value) -> i64 {
    let m = jbytes(&v["m"]).iter().fold(0u128, |a, x| (a << 8) | *x as u128) as i128;
    let x = if v["neg"].as_bool().unwrap() { -1 - m } else { m };
    i64::try_from(x).unwrap_or_else(|_| pv_core::die("cost coefficient out of i64 range"))
}

/// `scriptdata-parts --costs costs.json --out parts.ndjson`
pub fn parts(args: &Args) {
    let costs: Value = pv_core::serde_json::from_str(&std::fs::read_to_string(args.get("costs")).unwrap_or_else(|e| pv_core::die(&e.to_string())))
        .unwrap_or_else(|e| pv_core::die(&e.to_string()));
    let mut out = Ndjson::create(args.get("out"));
    for (name, langs) in REAL.iter() {
        let bytes = load_tx(name);
        let tx: Tx = minicbor::decode(&bytes).unwrap_or_else(|e| pv_core::die(&format!("{name}: {e}")));
        let ws = &tx.transaction_witness_set;
        let r = ws.redeemer.as_ref().map(|x| x.raw_cbor().to_vec()).unwrap_or_default();
        let d = ws.plutus_data.as_ref().map(|x| x.raw_cbor().to_vec()).unwrap_or_default();
        let ls: Vec<Value> = langs.iter().map(|l| json!({"lang": l, "costs": costs[l.to_string()].clone()})).collect();
        out.ev(json!({"name": name, "r": bytes_json(&r), "d": bytes_json(&d), "langs": ls}));
    }
    out.finish();
}

fn views(langs: &Value, real: bool) -> LanguageViews {
    jarr(langs)
        .iter()
        .map(|l| {
            let cs: Vec<i64> = jarr(&l["costs"]).iter().map(|c| if real { jint(c) } else { den(c) }).collect();
            (jint(&l["lang"]) as u8, cs)
        })
        .collect()
}

fn digests(row: &Value) -> Vec<Value> {
    jarr(&row["pre"]).iter().map(|p| json!(Hasher::<256>::hash(&jbytes(p)).to_string())).collect()
}

/// `scriptdata-replay --in vectors.ndjson --parts parts.ndjson --out results.ndjson`
pub fn replay(args: &Args) {
    let rows = pv_core::read_ndjson(args.get("in"));
    let parts = args.opt("parts").map(pv_core::read_ndjson).unwrap_or_default();
    let mut out = Ndjson::create(args.get("out"));
    for (i, row) in rows.iter().enumerate() {
        let want = digests(row);
        let r = match jstr(&row["kind"]) {
            "gen" => {
                let ws_bytes = jbytes(&row["ws"]);
                let lv = views(&row["langs"], false);
                let go = |opt: Option<LanguageViews>| {
                    catch(|| {
                        minicbor::decode::<WitnessSet>(&ws_bytes)
                            .map(|ws| ScriptData::build_for(&ws, &opt).map(|sd| sd.hash().to_string()))
                            .map_err(|e| e.to_string())
                    })
                };
                let some = go(Some(lv.clone()));
                // an empty view set may also be passed as None
                let none = if lv.0.is_empty() { Some(go(None)) } else { None };
                let show = |x: &Result<Result<Option<String>, String>, String>| match x {
                    Ok(Ok(Some(h))) => json!({"st": "hash", "h": h}),
                    Ok(Ok(None)) => json!({"st": "nohash"}),
                    Ok(Err(e)) => json!({"st": "ws-decode-error", "msg": e}),
                    Err(p) => json!({"st": "panic", "msg": p}),
                };
                json!({"i": i, "kind": "gen", "got": show(&some), "got_none": none.as_ref().map(show), "want": want})
            }
            _ => {
                let name = jstr(&row["name"]);
                let part = parts.iter().find(|p| jstr(&p["name"]) == name).unwrap_or_else(|| pv_core::die("unknown real tx"));
                let lv = views(&part["langs"], true);
                let opt = if lv.0.is_empty() { None } else { Some(lv) };
                let bytes = load_tx(name);
                let got = catch(|| {
                    let tx: Tx = minicbor::decode(&bytes).expect("real tx decodes");
                    let h = ScriptData::build_for(&tx.transaction_witness_set, &opt).map(|sd| sd.hash().to_string());
                    (h, tx.transaction_body.script_data_hash.map(|h| h.to_string()))
                });
                match got {
                    Ok((h, body)) => json!({"i": i, "kind": "real", "name": name, "got": match h { Some(h) => json!({"st": "hash", "h": h}), None => json!({"st": "nohash"}) },
                                            "body": body, "want": want}),
                    Err(p) => json!({"i": i, "kind": "real", "name": name, "got": {"st": "panic", "msg": p}, "want": want}),
                }
            }
        };
        out.ev(r);
    }
    out.finish();
}
