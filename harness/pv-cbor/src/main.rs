//! Conformance drivers (pv-cbor). Sub-commands are added per property.
mod helpers;
mod numranges;

fn main() {
    let args = pv_core::Args::parse();
    match args.cmd.as_str() {
        "helpers-replay" => helpers::replay(&args),
        "numranges-replay" => numranges::replay(&args),
        other => pv_core::die(&format!("unknown sub-command {other}")),
    }
}
