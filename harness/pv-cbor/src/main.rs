//! Conformance drivers (pv-cbor). Sub-commands are added per property.
mod helpers;
mod numranges;
mod plutus;
mod scriptdata;

fn main() {
    let args = pv_core::Args::parse();
    match args.cmd.as_str() {
        "helpers-replay" => helpers::replay(&args),
        "numranges-replay" => numranges::replay(&args),
        "plutus-replay" => plutus::replay(&args),
        "plutus-cmp" => plutus::cmp_trace(&args),
        "scriptdata-parts" => scriptdata::parts(&args),
        "scriptdata-replay" => scriptdata::replay(&args),
        other => pv_core::die(&format!("unknown sub-command {other}")),
    }
}
