//! C04 — replay of TLC-generated vectors (spec/cbor/GenNumRanges.tla) into the real
//! decoders of `PositiveCoin`, `NonZeroInt`, `conway::Value`, `conway::Mint` and
//! `conway::TransactionBody`.  A successful decode is reported with the amounts
//! read back through the public conversions (`u64::from`, `i64::from`), as
//! denotations `{neg, m}` (value = m, or -1-m when neg).
use pallas_codec::minicbor;
use pallas_codec::utils::{NonZeroInt, PositiveCoin};
use pallas_primitives::conway::{Mint, Multiasset, TransactionBody, TransactionOutput, Value as CValue};
use pv_core::serde_json::Value;
use pv_core::{bytes_json, catch, jbytes, json, jstr, Args, Ndjson};

fn norm(x: u64) -> Value {
    let b: Vec<u8> = x.to_be_bytes().iter().copied().skip_while(|b| *b == 0).collect();
    bytes_json(&b)
}
fn den_u(x: u64) -> Value {
    json!({"neg": false, "m": norm(x)})
}
fn den_i(x: i64) -> Value {
    if x < 0 {
        json!({"neg": true, "m": norm((-1 - x) as u64)})
    } else {
        json!({"neg": false, "m": norm(x as u64)})
    }
}
fn coins(ma: &Multiasset<PositiveCoin>) -> Vec<Value> {
    ma.values().flat_map(|a| a.values()).map(|c| den_u(u64::from(c))).collect()
}
fn mints(ma: &Mint) -> Vec<Value> {
    ma.values().flat_map(|a| a.values()).map(|c| den_i(i64::from(c))).collect()
}
fn value_amounts(v: &CValue) -> Vec<Value> {
    match v {
        CValue::Coin(_) => vec![],
        CValue::Multiasset(_, ma) => coins(ma),
    }
}

fn decode(ctx: &str, bytes: &[u8]) -> Result<Vec<Value>, String> {
    let e = |e: minicbor::decode::Error| e.to_string();
    Ok(match ctx {
        "PositiveCoin" => vec![den_u(u64::from(minicbor::decode::<PositiveCoin>(bytes).map_err(e)?))],
        "NonZeroInt" => vec![den_i(i64::from(minicbor::decode::<NonZeroInt>(bytes).map_err(e)?))],
        "Value" => value_amounts(&minicbor::decode::<CValue>(bytes).map_err(e)?),
        "Mint" => mints(&minicbor::decode::<Mint>(bytes).map_err(e)?),
        "Body.donation" | "Body.mint" | "Body.output" => {
            let b: TransactionBody = minicbor::decode(bytes).map_err(e)?;
            let mut out = vec![];
            if let Some(d) = b.donation {
                out.push(den_u(u64::from(d)));
            }
            if let Some(m) = &b.mint {
                out.extend(mints(m));
            }
            for o in &b.outputs {
                match o {
                    TransactionOutput::PostAlonzo(p) => out.extend(value_amounts(&p.value)),
                    TransactionOutput::Legacy(_) => {}
                }
            }
            out
        }
        other => pv_core::die(&format!("unknown context {other}")),
    })
}

/// `numranges-replay --in vectors.ndjson --out results.ndjson`
pub fn replay(args: &Args) {
    let rows = pv_core::read_ndjson(args.get("in"));
    let mut out = Ndjson::create(args.get("out"));
    for (i, row) in rows.iter().enumerate() {
        let bytes = jbytes(&row["bytes"]);
        let ctx = jstr(&row["ctx"]);
        let r = match catch(|| decode(ctx, &bytes)) {
            Ok(Ok(a)) => json!({"i": i, "dec": "ok", "amounts": a}),
            Ok(Err(m)) => json!({"i": i, "dec": "err", "msg": m}),
            Err(p) => json!({"i": i, "dec": "panic", "msg": p}),
        };
        out.ev(r);
    }
    out.finish();
}
