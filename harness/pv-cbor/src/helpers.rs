//! C03 — replay of TLC-generated vectors (spec/cbor/GenCborHelpers.tla) into the real
//! helper types of `pallas_codec::utils`.
//!
//! Per vector the driver decodes the bytes as the named instantiation, projects the
//! value to the specification's abstract form (`Abs::abs`), re-encodes, decodes the
//! re-encoding again, applies the scripted `DerefMut` mutation (KeepRaw) and, from
//! the specification's abstract value, builds the value through the public API and
//! round-trips it.  It only reports what happened; the comparison with TLC's
//! expectations is done by checks/C03.py.
use pallas_codec::minicbor::{self, Decode, Encode};
use pallas_codec::utils::*;
use pv_core::serde_json::{Map, Value};
use pv_core::{bytes_json, catch, jarr, jbytes, json, jstr, Args, Ndjson};
use std::ops::{Deref, DerefMut};

fn norm(x: u64) -> Vec<u8> {
    x.to_be_bytes().iter().copied().skip_while(|b| *b == 0).collect()
}
fn norm_json(x: u64) -> Value {
    bytes_json(&norm(x))
}
fn val_of(v: &Value) -> Option<u64> {
    let b = jbytes(v);
    if b.len() > 8 {
        return None;
    }
    Some(b.iter().fold(0u64, |a, x| (a << 8) | *x as u64))
}

/// Projection to / construction from the abstract values of CborHelpers.tla (`View`).
pub trait Abs: Sized {
    fn abs(&self) -> Value;
    fn build(v: &Value) -> Option<Self>;
    fn same(&self, other: &Self) -> bool;
}

impl Abs for AnyUInt {
    fn abs(&self) -> Value {
        let w = match self {
            AnyUInt::MajorByte(_) => 0,
            AnyUInt::U8(_) => 1,
            AnyUInt::U16(_) => 2,
            AnyUInt::U32(_) => 4,
            AnyUInt::U64(_) => 8,
        };
        json!({"w": w, "v": norm_json(u64::from(self))})
    }
    fn build(v: &Value) -> Option<Self> {
        let x = val_of(&v["v"])?;
        Some(match v["w"].as_i64()? {
            0 => AnyUInt::MajorByte(u8::try_from(x).ok()?),
            1 => AnyUInt::U8(u8::try_from(x).ok()?),
            2 => AnyUInt::U16(u16::try_from(x).ok()?),
            4 => AnyUInt::U32(u32::try_from(x).ok()?),
            _ => AnyUInt::U64(x),
        })
    }
    fn same(&self, o: &Self) -> bool {
        self == o
    }
}

impl Abs for u32 {
    fn abs(&self) -> Value {
        norm_json(*self as u64)
    }
    fn build(v: &Value) -> Option<Self> {
        u32::try_from(val_of(v)?).ok()
    }
    fn same(&self, o: &Self) -> bool {
        self == o
    }
}
impl Abs for u64 {
    fn abs(&self) -> Value {
        norm_json(*self)
    }
    fn build(v: &Value) -> Option<Self> {
        val_of(v)
    }
    fn same(&self, o: &Self) -> bool {
        self == o
    }
}
impl Abs for bool {
    fn abs(&self) -> Value {
        Value::Bool(*self)
    }
    fn build(v: &Value) -> Option<Self> {
        v.as_bool()
    }
    fn same(&self, o: &Self) -> bool {
        self == o
    }
}
impl Abs for Int {
    fn abs(&self) -> Value {
        let i = i128::from(*self);
        if i < 0 {
            json!({"neg": true, "m": norm_json((-1 - i) as u64)})
        } else {
            json!({"neg": false, "m": norm_json(i as u64)})
        }
    }
    fn build(v: &Value) -> Option<Self> {
        let m = val_of(&v["m"])? as i128;
        let i = if v["neg"].as_bool()? { -1 - m } else { m };
        Int::try_from(i).ok()
    }
    fn same(&self, o: &Self) -> bool {
        self == o
    }
}
impl Abs for Bytes {
    fn abs(&self) -> Value {
        bytes_json(self.deref())
    }
    fn build(v: &Value) -> Option<Self> {
        Some(Bytes::from(jbytes(v)))
    }
    fn same(&self, o: &Self) -> bool {
        self == o
    }
}
fn abs_seq<T: Abs>(xs: &[T]) -> Value {
    Value::Array(xs.iter().map(|x| x.abs()).collect())
}
fn build_seq<T: Abs>(v: &Value) -> Option<Vec<T>> {
    jarr(v).iter().map(|x| T::build(x)).collect()
}
fn same_seq<T: Abs>(a: &[T], b: &[T]) -> bool {
    a.len() == b.len() && a.iter().zip(b).all(|(x, y)| x.same(y))
}
impl<T: Abs> Abs for Vec<T> {
    fn abs(&self) -> Value {
        abs_seq(self)
    }
    fn build(v: &Value) -> Option<Self> {
        build_seq(v)
    }
    fn same(&self, o: &Self) -> bool {
        same_seq(self, o)
    }
}
impl<T: Abs + PartialEq> Abs for Set<T> {
    fn abs(&self) -> Value {
        abs_seq(self.deref())
    }
    fn build(v: &Value) -> Option<Self> {
        Some(Set::from(build_seq(v)?))
    }
    fn same(&self, o: &Self) -> bool {
        self == o
    }
}
impl<T: Abs + PartialEq> Abs for NonEmptySet<T> {
    fn abs(&self) -> Value {
        abs_seq(self.deref())
    }
    fn build(v: &Value) -> Option<Self> {
        NonEmptySet::try_from(build_seq(v)?).ok()
    }
    fn same(&self, o: &Self) -> bool {
        self == o
    }
}
impl<T: Abs + PartialEq> Abs for MaybeIndefArray<T> {
    fn abs(&self) -> Value {
        json!({"def": matches!(self, MaybeIndefArray::Def(_)), "xs": abs_seq(self.deref())})
    }
    fn build(v: &Value) -> Option<Self> {
        let xs = build_seq(&v["xs"])?;
        Some(if v["def"].as_bool()? { MaybeIndefArray::Def(xs) } else { MaybeIndefArray::Indef(xs) })
    }
    fn same(&self, o: &Self) -> bool {
        self == o
    }
}
fn abs_kv<K: Abs, V: Abs>(kv: &[(K, V)]) -> Value {
    Value::Array(kv.iter().map(|(k, v)| json!([k.abs(), v.abs()])).collect())
}
fn build_kv<K: Abs, V: Abs>(v: &Value) -> Option<Vec<(K, V)>> {
    jarr(v).iter().map(|p| Some((K::build(&p[0])?, V::build(&p[1])?))).collect()
}
impl<K: Abs + Clone + PartialEq, V: Abs + Clone + PartialEq> Abs for KeyValuePairs<K, V> {
    fn abs(&self) -> Value {
        json!({"def": matches!(self, KeyValuePairs::Def(_)), "kv": abs_kv(self.deref())})
    }
    fn build(v: &Value) -> Option<Self> {
        let kv = build_kv(&v["kv"])?;
        Some(if v["def"].as_bool()? { KeyValuePairs::Def(kv) } else { KeyValuePairs::Indef(kv) })
    }
    fn same(&self, o: &Self) -> bool {
        self == o
    }
}
impl<K: Abs + Clone + PartialEq, V: Abs + Clone + PartialEq> Abs for NonEmptyKeyValuePairs<K, V> {
    fn abs(&self) -> Value {
        json!({"def": matches!(self, NonEmptyKeyValuePairs::Def(_)), "kv": abs_kv(self.deref())})
    }
    fn build(v: &Value) -> Option<Self> {
        let kv = build_kv(&v["kv"])?;
        Some(if v["def"].as_bool()? { NonEmptyKeyValuePairs::Def(kv) } else { NonEmptyKeyValuePairs::Indef(kv) })
    }
    fn same(&self, o: &Self) -> bool {
        self == o
    }
}
impl<T: Abs + Clone + PartialEq> Abs for Nullable<T> {
    fn abs(&self) -> Value {
        match self {
            Nullable::Null => json!({"n": "null", "x": []}),
            Nullable::Undefined => json!({"n": "undef", "x": []}),
            Nullable::Some(x) => json!({"n": "some", "x": x.abs()}),
        }
    }
    fn build(v: &Value) -> Option<Self> {
        Some(match jstr(&v["n"]) {
            "null" => Nullable::Null,
            "undef" => Nullable::Undefined,
            _ => Nullable::Some(T::build(&v["x"])?),
        })
    }
    fn same(&self, o: &Self) -> bool {
        self == o
    }
}
impl<T: Abs> Abs for KeepRaw<'_, T> {
    fn abs(&self) -> Value {
        json!({"raw": bytes_json(self.raw_cbor()), "inner": self.deref().abs()})
    }
    /// Built through `From<T>`: no raw bytes (documented by pallas), so equality of
    /// built values is equality of the content.
    fn build(v: &Value) -> Option<Self> {
        Some(KeepRaw::from(T::build(&v["inner"])?))
    }
    fn same(&self, o: &Self) -> bool {
        self.deref().same(o.deref()) && (self.raw_cbor() == o.raw_cbor() || self.raw_cbor().is_empty() || o.raw_cbor().is_empty())
    }
}
impl Abs for AnyCbor {
    fn abs(&self) -> Value {
        bytes_json(self.raw_bytes())
    }
    fn build(v: &Value) -> Option<Self> {
        Some(AnyCbor::from_raw_bytes(jbytes(v)))
    }
    fn same(&self, o: &Self) -> bool {
        self == o
    }
}
impl<T: Abs + PartialEq> Abs for CborWrap<T> {
    fn abs(&self) -> Value {
        self.0.abs()
    }
    fn build(v: &Value) -> Option<Self> {
        Some(CborWrap(T::build(v)?))
    }
    fn same(&self, o: &Self) -> bool {
        self.0.same(&o.0)
    }
}
impl<T: Abs + PartialEq> Abs for TagWrap<T, 30> {
    fn abs(&self) -> Value {
        self.0.abs()
    }
    fn build(v: &Value) -> Option<Self> {
        Some(TagWrap::new(T::build(v)?))
    }
    fn same(&self, o: &Self) -> bool {
        self == o
    }
}
impl<T: Abs> Abs for ZeroOrOneArray<T> {
    fn abs(&self) -> Value {
        Value::Array(self.deref().iter().map(|x| x.abs()).collect())
    }
    /// no public constructor
    fn build(_: &Value) -> Option<Self> {
        None
    }
    fn same(&self, o: &Self) -> bool {
        match (self.deref(), o.deref()) {
            (None, None) => true,
            (Some(a), Some(b)) => a.same(b),
            _ => false,
        }
    }
}
impl Abs for EmptyMap {
    fn abs(&self) -> Value {
        json!("emptymap")
    }
    fn build(_: &Value) -> Option<Self> {
        Some(EmptyMap)
    }
    fn same(&self, o: &Self) -> bool {
        self == o
    }
}

/// One entry of an `OrderPreservingProperties` map: a key and its value.
#[derive(Debug, Clone, PartialEq)]
pub struct Prop(u32, u32);
impl<'b, C> Decode<'b, C> for Prop {
    fn decode(d: &mut minicbor::Decoder<'b>, _: &mut C) -> Result<Self, minicbor::decode::Error> {
        Ok(Prop(d.u32()?, d.u32()?))
    }
}
impl<C> Encode<C> for Prop {
    fn encode<W: minicbor::encode::Write>(&self, e: &mut minicbor::Encoder<W>, _: &mut C) -> Result<(), minicbor::encode::Error<W::Error>> {
        e.u32(self.0)?.u32(self.1)?;
        Ok(())
    }
}
impl Abs for OrderPreservingProperties<Prop> {
    fn abs(&self) -> Value {
        Value::Array(self.iter().map(|p| json!([p.0.abs(), p.1.abs()])).collect())
    }
    fn build(v: &Value) -> Option<Self> {
        let ps: Option<Vec<Prop>> = jarr(v).iter().map(|p| Some(Prop(u32::build(&p[0])?, u32::build(&p[1])?))).collect();
        Some(OrderPreservingProperties::from(ps?))
    }
    fn same(&self, o: &Self) -> bool {
        self == o
    }
}

/// A `codec_by_datatype!` enum (same shape as the one in pallas-codec's own test).
#[derive(Clone, Debug, PartialEq)]
pub enum Thing {
    Coin(u32),
    Change(bool),
    Multi(bool, u64, u32),
}
pallas_codec::codec_by_datatype! {
    Thing,
    U8 | U16 | U32 => Coin,
    Bool => Change,
    (b, u, i => Multi)
}
impl Abs for Thing {
    fn abs(&self) -> Value {
        match self {
            Thing::Coin(c) => json!({"v": "coin", "x": [c.abs()]}),
            Thing::Change(b) => json!({"v": "change", "x": [b]}),
            Thing::Multi(b, u, i) => json!({"v": "multi", "x": [b, u.abs(), i.abs()]}),
        }
    }
    fn build(v: &Value) -> Option<Self> {
        let x = &v["x"];
        Some(match jstr(&v["v"]) {
            "coin" => Thing::Coin(u32::build(&x[0])?),
            "change" => Thing::Change(x[0].as_bool()?),
            _ => Thing::Multi(x[0].as_bool()?, u64::build(&x[1])?, u32::build(&x[2])?),
        })
    }
    fn same(&self, o: &Self) -> bool {
        self == o
    }
}

/// Scripted mutation through `DerefMut` (CborHelpers!Mutate): push the number 3.
trait Script {
    fn script(&mut self) -> bool {
        false
    }
}
impl Script for KeepRaw<'_, Vec<u32>> {
    fn script(&mut self) -> bool {
        self.deref_mut().push(3);
        true
    }
}
impl Script for KeepRaw<'_, MaybeIndefArray<AnyUInt>> {
    fn script(&mut self) -> bool {
        match self.deref_mut() {
            MaybeIndefArray::Def(x) | MaybeIndefArray::Indef(x) => x.push(AnyUInt::MajorByte(3)),
        }
        true
    }
}
impl Script for Vec<KeepRaw<'_, MaybeIndefArray<AnyUInt>>> {
    fn script(&mut self) -> bool {
        if let Some(x) = self.first_mut() {
            x.script();
        }
        true
    }
}
impl Script for KeepRaw<'_, Vec<KeepRaw<'_, MaybeIndefArray<AnyUInt>>>> {
    fn script(&mut self) -> bool {
        self.deref_mut().script()
    }
}
impl Script for CborWrap<KeepRaw<'_, Vec<u32>>> {
    fn script(&mut self) -> bool {
        self.0.script()
    }
}
macro_rules! no_script { ($($t:ty),* $(,)?) => { $( impl Script for $t {} )* } }
no_script!(
    AnyUInt, MaybeIndefArray<AnyUInt>, MaybeIndefArray<MaybeIndefArray<AnyUInt>>,
    MaybeIndefArray<KeyValuePairs<AnyUInt, MaybeIndefArray<AnyUInt>>>,
    KeyValuePairs<AnyUInt, AnyUInt>, KeyValuePairs<AnyUInt, MaybeIndefArray<AnyUInt>>, KeyValuePairs<u32, u32>,
    NonEmptyKeyValuePairs<AnyUInt, AnyUInt>, Nullable<AnyUInt>, Nullable<MaybeIndefArray<AnyUInt>>,
    AnyCbor, Vec<AnyCbor>, Set<u32>, NonEmptySet<u32>,
    CborWrap<u32>, CborWrap<MaybeIndefArray<AnyUInt>>, TagWrap<u32, 30>, ZeroOrOneArray<u32>,
    OrderPreservingProperties<Prop>, EmptyMap, Bytes, Int, Thing
);

/// bytes written before and after the script, for one way of holding the value
fn ba<X: Script + Encode<()>>(mut x: X) -> Value {
    let before = minicbor::to_vec(&x).expect("encode");
    x.script();
    let after = minicbor::to_vec(&x).expect("encode");
    json!({"before": bytes_json(&before), "after": bytes_json(&after)})
}

/// every way the public API offers to obtain a `KeepRaw` holding the decoded value
fn kr_origins<T>(v: KeepRaw<'_, T>) -> Map<String, Value>
where
    T: Clone + Encode<()>,
    for<'x> KeepRaw<'x, T>: Script,
{
    let mut m = Map::new();
    m.insert("owned".into(), ba(v.clone().to_owned()));
    m.insert("clone".into(), ba(v.clone()));
    m.insert("owned_clone".into(), ba(v.clone().to_owned().clone()));
    m.insert("from".into(), ba(KeepRaw::from(v.deref().clone())));
    m.insert("decoded".into(), ba(v));
    m
}

type Mia = MaybeIndefArray<AnyUInt>;

fn origins(ty: &str, bytes: &[u8]) -> Option<Value> {
    let r = catch(|| match ty {
        "keepraw<vec<u32>>" => minicbor::decode::<KeepRaw<'_, Vec<u32>>>(bytes).ok().map(|v| {
            let mut m = kr_origins(v.clone());
            // serde: Serialize shows the content, Deserialize builds a KeepRaw without raw bytes
            if let Ok(j) = pv_core::serde_json::to_value(&v) {
                if let Ok(d) = pv_core::serde_json::from_value::<KeepRaw<'static, Vec<u32>>>(j) {
                    m.insert("serde".into(), ba(d));
                }
            }
            m
        }),
        "keepraw<mia<anyuint>>" => minicbor::decode::<KeepRaw<'_, Mia>>(bytes).ok().map(kr_origins),
        "keepraw<vec<keepraw<mia<anyuint>>>>" => minicbor::decode::<KeepRaw<'_, Vec<KeepRaw<'_, Mia>>>>(bytes).ok().map(kr_origins),
        "vec<keepraw<mia<anyuint>>>" => minicbor::decode::<Vec<KeepRaw<'_, Mia>>>(bytes).ok().map(|v| {
            let owned: Vec<KeepRaw<'static, Mia>> = v.iter().cloned().map(|x| x.to_owned()).collect();
            let mut m = Map::new();
            m.insert("owned_clone".into(), ba(owned.clone()));
            m.insert("owned".into(), ba(owned));
            m.insert("clone".into(), ba(v.clone()));
            m.insert("from".into(), ba(v.iter().map(|x| KeepRaw::from(x.deref().clone())).collect::<Vec<KeepRaw<'static, Mia>>>()));
            m.insert("decoded".into(), ba(v));
            m
        }),
        "cborwrap<keepraw<vec<u32>>>" => minicbor::decode::<CborWrap<KeepRaw<'_, Vec<u32>>>>(bytes).ok().map(|v| {
            let mut m = Map::new();
            m.insert("owned".into(), ba(CborWrap(v.0.clone().to_owned())));
            m.insert("owned_clone".into(), ba(CborWrap(v.0.clone().to_owned()).clone()));
            m.insert("clone".into(), ba(v.clone()));
            m.insert("from".into(), ba(CborWrap(KeepRaw::from(v.0.deref().clone()))));
            m.insert("decoded".into(), ba(v));
            m
        }),
        _ => None,
    });
    match r {
        Ok(Some(m)) => Some(Value::Object(m)),
        Ok(None) => None,
        Err(p) => Some(json!({"panic": p})),
    }
}

macro_rules! run_as {
    ($T:ty, $row:expr) => {{
        let row: &Value = $row;
        let bytes = jbytes(&row["bytes"]);
        let mut res = Map::new();
        // 1. decode the vector, re-encode, decode again, mutate
        let r = catch(|| {
            minicbor::decode::<$T>(&bytes).map(|v| {
                let mut o = Map::new();
                o.insert("view".into(), v.abs());
                let enc = minicbor::to_vec(&v).expect("encode to Vec is infallible");
                match minicbor::decode::<$T>(&enc) {
                    Ok(v2) => {
                        o.insert("redec".into(), json!({"ok": true, "same": v2.same(&v), "view": v2.abs()}));
                    }
                    Err(e) => {
                        o.insert("redec".into(), json!({"ok": false, "msg": e.to_string()}));
                    }
                }
                o.insert("enc".into(), bytes_json(&enc));
                let mut m = v;
                if m.script() {
                    o.insert("mut".into(), bytes_json(&minicbor::to_vec(&m).expect("encode")));
                    o.insert("mut_view".into(), m.abs());
                }
                o
            })
        });
        match r {
            Ok(Ok(o)) => {
                res.insert("dec".into(), json!("ok"));
                res.extend(o);
            }
            Ok(Err(e)) => {
                res.insert("dec".into(), json!("err"));
                res.insert("msg".into(), json!(e.to_string()));
            }
            Err(p) => {
                res.insert("dec".into(), json!("panic"));
                res.insert("msg".into(), json!(p));
            }
        }
        // 2. the specification's value, built through the public API, round-trips
        if row["acc"].as_bool() == Some(true) {
            let b = catch(|| {
                <$T as Abs>::build(&row["view"]).map(|v| {
                    let enc = minicbor::to_vec(&v).expect("encode");
                    match minicbor::decode::<$T>(&enc) {
                        Ok(v2) => json!({"enc": bytes_json(&enc), "ok": true, "same": v2.same(&v), "view": v2.abs(), "view0": v.abs()}),
                        Err(e) => json!({"enc": bytes_json(&enc), "ok": false, "msg": e.to_string()}),
                    }
                })
            });
            match b {
                Ok(Some(j)) => {
                    res.insert("built".into(), j);
                }
                Ok(None) => {}
                Err(p) => {
                    res.insert("built".into(), json!({"ok": false, "panic": p}));
                }
            }
        }
        Value::Object(res)
    }};
}

fn dispatch(row: &Value) -> Value {
    type U = AnyUInt;
    type A<T> = MaybeIndefArray<T>;
    match jstr(&row["ty"]) {
        "anyuint" => run_as!(U, row),
        "mia<anyuint>" => run_as!(A<U>, row),
        "mia<mia<anyuint>>" => run_as!(A<A<U>>, row),
        "mia<kvp<anyuint,mia<anyuint>>>" => run_as!(A<KeyValuePairs<U, A<U>>>, row),
        "kvp<anyuint,anyuint>" => run_as!(KeyValuePairs<U, U>, row),
        "kvp<anyuint,mia<anyuint>>" => run_as!(KeyValuePairs<U, A<U>>, row),
        "kvp<u32,u32>" => run_as!(KeyValuePairs<u32, u32>, row),
        "nekvp<anyuint,anyuint>" => run_as!(NonEmptyKeyValuePairs<U, U>, row),
        "nullable<anyuint>" => run_as!(Nullable<U>, row),
        "nullable<mia<anyuint>>" => run_as!(Nullable<A<U>>, row),
        "keepraw<vec<u32>>" => run_as!(KeepRaw<'_, Vec<u32>>, row),
        "keepraw<mia<anyuint>>" => run_as!(KeepRaw<'_, A<U>>, row),
        "vec<keepraw<mia<anyuint>>>" => run_as!(Vec<KeepRaw<'_, A<U>>>, row),
        "keepraw<vec<keepraw<mia<anyuint>>>>" => run_as!(KeepRaw<'_, Vec<KeepRaw<'_, A<U>>>>, row),
        "cborwrap<keepraw<vec<u32>>>" => run_as!(CborWrap<KeepRaw<'_, Vec<u32>>>, row),
        "anycbor" => run_as!(AnyCbor, row),
        "vec<anycbor>" => run_as!(Vec<AnyCbor>, row),
        "set<u32>" => run_as!(Set<u32>, row),
        "neset<u32>" => run_as!(NonEmptySet<u32>, row),
        "cborwrap<u32>" => run_as!(CborWrap<u32>, row),
        "cborwrap<mia<anyuint>>" => run_as!(CborWrap<A<U>>, row),
        "tagwrap30<u32>" => run_as!(TagWrap<u32, 30>, row),
        "z1<u32>" => run_as!(ZeroOrOneArray<u32>, row),
        "opp" => run_as!(OrderPreservingProperties<Prop>, row),
        "emptymap" => run_as!(EmptyMap, row),
        "bytes" => run_as!(Bytes, row),
        "int" => run_as!(Int, row),
        "thing" => run_as!(Thing, row),
        other => pv_core::die(&format!("unknown wrapper instantiation {other}")),
    }
}

/// `helpers-replay --in vectors.ndjson --out results.ndjson`
pub fn replay(args: &Args) {
    let rows = pv_core::read_ndjson(args.get("in"));
    let mut out = Ndjson::create(args.get("out"));
    for (i, row) in rows.iter().enumerate() {
        let mut r = dispatch(row);
        if row["mutable"].as_bool() == Some(true) {
            if let Some(o) = origins(jstr(&row["ty"]), &jbytes(&row["bytes"])) {
                r["origins"] = o;
            }
        }
        r["i"] = json!(i);
        r["ty"] = row["ty"].clone();
        out.ev(r);
    }
    out.finish();
}
