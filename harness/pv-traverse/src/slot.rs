//! C32 — slot / epoch / wall-clock conversions (spec/traverse/SlotTime.tla).
use pallas_traverse::wellknown::GenesisValues;
use pv_core::*;
use serde_json::Value;

fn genesis_from(g: &Value) -> GenesisValues {
    GenesisValues {
        magic: 0,
        network_id: 0,
        byron_epoch_length: jint(&g["bel"]) as u32,
        byron_slot_length: jint(&g["bsl"]) as u32,
        byron_known_slot: jint(&g["bks"]) as u64,
        byron_known_hash: String::new(),
        byron_known_time: jint(&g["bkt"]) as u64,
        shelley_epoch_length: jint(&g["sel"]) as u32,
        shelley_slot_length: jint(&g["ssl"]) as u32,
        shelley_known_slot: jint(&g["sks"]) as u64,
        shelley_known_hash: String::new(),
        shelley_known_time: jint(&g["skt"]) as u64,
    }
}

/// M1: TLC vectors {g, wf, cont, rows:[[slot, epoch, sub, back, t0, t1]..]} -> real GenesisValues.
/// Output: one line per genesis record with the first mismatches.
pub fn replay(args: &Args) {
    let vecs = read_ndjson(args.get("in"));
    let mut out = Ndjson::create(args.get("out"));
    for (i, v) in vecs.iter().enumerate() {
        let gv = genesis_from(&v["g"]);
        let mut bad = Vec::new();
        let mut rows = 0u64;
        for row in jarr(&v["rows"]) {
            let r: Vec<i64> = jarr(row).iter().map(jint).collect();
            let s = r[0] as u64;
            rows += 1;
            let got = catch(|| {
                let (e, sub) = gv.absolute_slot_to_relative(s);
                let back = gv.relative_slot_to_absolute(e, sub);
                let t0 = gv.slot_to_wallclock(s);
                let t1 = gv.slot_to_wallclock(s + 1);
                vec![s as i64, e as i64, sub as i64, back as i64, t0 as i64, t1 as i64]
            });
            match got {
                Ok(g) if g == r => {}
                Ok(g) => {
                    if bad.len() < 4 {
                        let f = if g[1..3] != r[1..3] {
                            "absolute_slot_to_relative"
                        } else if g[3] != r[3] {
                            "relative_slot_to_absolute"
                        } else {
                            "slot_to_wallclock"
                        };
                        bad.push(json!({"fn": f, "slot": s, "want": r, "got": g}));
                    }
                }
                Err(p) => {
                    if bad.len() < 4 {
                        bad.push(json!({"fn": "panic", "slot": s, "want": r, "panic": p}));
                    }
                }
            }
        }
        out.ev(json!({"i": i, "g": v["g"], "wf": v["wf"], "cont": v["cont"], "rows": rows, "ok": bad.is_empty(), "bad": bad}));
    }
    out.finish();
}

fn big(v: u64) -> Value {
    big_json_u64(v)
}

fn networks() -> Vec<(&'static str, GenesisValues)> {
    vec![
        ("mainnet", GenesisValues::mainnet()),
        ("testnet", GenesisValues::testnet()),
        ("preview", GenesisValues::preview()),
        ("preprod", GenesisValues::preprod()),
    ]
}

const TOP: u64 = 1 << 40;

/// Slots sampled densely around every boundary the conversions know about.
fn sample_slots(g: &GenesisValues, rng: &mut Rng, n_random: u64, window: u64) -> Vec<u64> {
    let bes = (g.byron_epoch_length / g.byron_slot_length.max(1)).max(1) as u64;
    let ses = (g.shelley_epoch_length / g.shelley_slot_length.max(1)).max(1) as u64;
    let sks = g.shelley_known_slot;
    let mut v: Vec<u64> = Vec::new();
    let around = |v: &mut Vec<u64>, c: u64, w: u64| {
        for s in c.saturating_sub(w)..=c.saturating_add(w) {
            v.push(s);
        }
    };
    for s in 0..=40 {
        v.push(s);
    }
    // Byron epoch boundaries (first ones, the ones before the fork, and one in the middle)
    let start_epoch = sks / bes;
    let mut ks = vec![1, 2, 3, 4, start_epoch / 2, start_epoch.saturating_sub(1), start_epoch];
    ks.push(rng.range(1, start_epoch.max(1)));
    for k in ks {
        around(&mut v, k * bes, 3);
    }
    // seconds-per-epoch multiples (where a remainder modulo seconds would coincide / differ)
    around(&mut v, g.byron_epoch_length as u64, 2);
    around(&mut v, 5 * g.byron_epoch_length as u64, 2);
    // the era boundary
    around(&mut v, sks, window);
    // Shelley epoch boundaries
    let kmax = (TOP - sks) / ses;
    let mut ks = vec![1, 2, 3, 10, 100, 1000, kmax / 2, kmax - 1, kmax];
    ks.push(rng.range(1, kmax));
    ks.push(rng.range(1, 1000));
    for k in ks {
        around(&mut v, sks + k * ses, 3);
    }
    // powers of two
    for k in 6..=40 {
        around(&mut v, 1u64 << k, 1);
    }
    // random: uniform, log-uniform, Byron range
    for _ in 0..n_random {
        v.push(rng.below(TOP));
        let bits = rng.range(1, 40);
        v.push(rng.below(1u64 << bits));
        if sks > 0 {
            v.push(rng.below(sks));
        }
    }
    v.retain(|s| *s < TOP);
    v.sort_unstable();
    v.dedup();
    // deterministic shuffle keeps neighbouring slots apart (each event is self-contained anyway)
    v
}

/// M3: the four well-known networks; events for TraceSlotTime.tla.
pub fn trace(args: &Args) {
    let mut rng = Rng::new(args.seed());
    let n_random = args.num("random", 100);
    let window = args.num("window", 60);
    let mut out = Ndjson::create(args.get("out"));
    for (name, g) in networks() {
        let e0 = catch(|| g.shelley_start_epoch());
        let e0 = match e0 {
            Ok(e) => e,
            Err(p) => {
                out.ev(json!({"ev": "panic", "net": name, "call": "shelley_start_epoch", "panic": p}));
                continue;
            }
        };
        out.ev(json!({"ev": "net", "name": name, "e0": big(e0), "g": {
            "bsl": g.byron_slot_length, "bel": g.byron_epoch_length,
            "ssl": g.shelley_slot_length, "sel": g.shelley_epoch_length,
            "bks": big(g.byron_known_slot), "bkt": big(g.byron_known_time),
            "sks": big(g.shelley_known_slot), "skt": big(g.shelley_known_time)}}));
        for s in sample_slots(&g, &mut rng, n_random, window) {
            match catch(|| g.absolute_slot_to_relative(s)) {
                Ok((e, sub)) => {
                    out.ev(json!({"ev": "rel", "slot": big(s), "epoch": big(e), "sub": big(sub)}));
                    match catch(|| g.relative_slot_to_absolute(e, sub)) {
                        Ok(b) => out.ev(json!({"ev": "abs", "epoch": big(e), "sub": big(sub), "slot": big(b)})),
                        Err(p) => out.ev(json!({"ev": "panic", "net": name, "call": "relative_slot_to_absolute", "slot": big(s), "panic": p})),
                    }
                }
                Err(p) => out.ev(json!({"ev": "panic", "net": name, "call": "absolute_slot_to_relative", "slot": big(s), "panic": p})),
            }
            match catch(|| (g.slot_to_wallclock(s), g.slot_to_wallclock(s + 1))) {
                Ok((t0, t1)) => out.ev(json!({"ev": "wall", "slot": big(s), "t0": big(t0), "t1": big(t1)})),
                Err(p) => out.ev(json!({"ev": "panic", "net": name, "call": "slot_to_wallclock", "slot": big(s), "panic": p})),
            }
        }
        out.ev(json!({"ev": "reset"}));
    }
    out.finish();
}
