//! C31 — UTxO effects follow the phase-2 validity rule (spec/traverse/UtxoEffects.tla).
use crate::raw;
use pallas_codec::minicbor;
use pallas_primitives::{babbage, conway};
use pallas_traverse::{Era, MultiEraInput, MultiEraOutput, MultiEraTx};
use pv_core::*;
use serde_json::Value;
use std::collections::BTreeSet;
use std::ops::Deref;

// ------------------------------------------------------------------ observation
type Ref = (Vec<u8>, u64);
type Fp = (Vec<u8>, u64);

fn obs_ref(i: &MultiEraInput) -> Ref {
    (i.hash().to_vec(), i.index())
}

/// fingerprint of an output returned by the library: (address bytes, lovelace)
fn obs_fp(o: &MultiEraOutput) -> Fp {
    let addr = match o {
        MultiEraOutput::AlonzoCompatible(x, _) => x.address.to_vec(),
        MultiEraOutput::Babbage(x) => match x.deref().deref() {
            babbage::TransactionOutput::Legacy(x) => x.address.to_vec(),
            babbage::TransactionOutput::PostAlonzo(x) => x.address.to_vec(),
        },
        MultiEraOutput::Conway(x) => match x.deref().deref() {
            conway::TransactionOutput::Legacy(x) => x.address.to_vec(),
            conway::TransactionOutput::PostAlonzo(x) => x.address.to_vec(),
        },
        MultiEraOutput::Byron(x) => minicbor::to_vec(&x.address).unwrap(),
        _ => vec![],
    };
    (addr, o.value().coin())
}

struct Observed {
    is_valid: bool,
    consumes: Vec<Ref>,
    produces: Vec<(u64, Fp)>,
    produces_at: Vec<Option<Fp>>,
    sorted: Vec<Ref>,
}

fn observe(tx: &MultiEraTx, n_outputs: usize) -> Result<Observed, String> {
    catch(|| Observed {
        is_valid: tx.is_valid(),
        consumes: tx.consumes().iter().map(obs_ref).collect(),
        produces: tx.produces().iter().map(|(i, o)| (*i as u64, obs_fp(o))).collect(),
        produces_at: (0..n_outputs + 2).map(|i| tx.produces_at(i).map(|o| obs_fp(&o))).collect(),
        sorted: tx.inputs_sorted_set().iter().map(obs_ref).collect(),
    })
}

// ------------------------------------------------------------------ M1
fn put_refs(e: &mut minicbor::Encoder<Vec<u8>>, refs: &[Value], tagged: bool) {
    if tagged {
        e.tag(minicbor::data::Tag::new(258)).unwrap();
    }
    e.array(refs.len() as u64).unwrap();
    for r in refs {
        let t = jint(&r[0]) as u8;
        e.array(2).unwrap().bytes(&[t; 32]).unwrap().u64(jint(&r[1]) as u64).unwrap();
    }
}

fn addr_for(coin: u64) -> Vec<u8> {
    let mut a = vec![0x61];
    a.extend_from_slice(&[coin as u8; 28]);
    a
}

fn put_out(e: &mut minicbor::Encoder<Vec<u8>>, coin: u64, post_alonzo: bool) {
    if post_alonzo {
        e.map(2).unwrap().u8(0).unwrap().bytes(&addr_for(coin)).unwrap().u8(1).unwrap().u64(coin).unwrap();
    } else {
        e.array(2).unwrap().bytes(&addr_for(coin)).unwrap().u64(coin).unwrap();
    }
}

/// Wire bytes of the synthetic transaction described by a TLC vector.
fn build_tx(tx: &Value, variant: usize) -> (Era, Vec<u8>) {
    let era = match jstr(&tx["era"]) {
        "alonzo" => Era::Alonzo,
        "babbage" => Era::Babbage,
        "conway" => Era::Conway,
        other => die(&format!("unknown era {other}")),
    };
    let inputs = jarr(&tx["inputs"]);
    let coll = jarr(&tx["collateral"]);
    let outs = jarr(&tx["outputs"]);
    let collret = jint(&tx["collret"]) as u64;
    let tagged = era == Era::Conway && variant % 2 == 1;
    let post = era != Era::Alonzo;
    let mut fields = 3;
    if !coll.is_empty() {
        fields += 1;
    }
    if collret != 0 {
        fields += 1;
    }
    let mut e = minicbor::Encoder::new(Vec::new());
    e.array(4).unwrap();
    e.map(fields).unwrap();
    e.u8(0).unwrap();
    put_refs(&mut e, inputs, tagged);
    e.u8(1).unwrap();
    e.array(outs.len() as u64).unwrap();
    for (k, o) in outs.iter().enumerate() {
        put_out(&mut e, jint(o) as u64, post && (k + variant) % 2 == 0);
    }
    e.u8(2).unwrap().u64(170000 + variant as u64).unwrap();
    if !coll.is_empty() {
        e.u8(13).unwrap();
        put_refs(&mut e, coll, tagged);
    }
    if collret != 0 {
        e.u8(16).unwrap();
        put_out(&mut e, collret, variant % 3 != 0);
    }
    e.map(0).unwrap();
    e.bool(tx["valid"].as_bool().unwrap()).unwrap();
    e.null().unwrap();
    (era, e.into_writer())
}

fn label_ref(r: &Ref) -> Value {
    json!([r.0[0], r.1])
}

/// M1: TLC vectors -> synthetic transactions -> MultiEraTx observers.
pub fn replay(args: &Args) {
    let vecs = read_ndjson(args.get("in"));
    let mut out = Ndjson::create(args.get("out"));
    for (i, v) in vecs.iter().enumerate() {
        let tx = &v["tx"];
        let (era, bytes) = build_tx(tx, i);
        let n = jarr(&tx["outputs"]).len();
        let decoded = MultiEraTx::decode_for_era(era, &bytes);
        let mtx = match decoded {
            Ok(t) => t,
            Err(e) => {
                out.ev(json!({"i": i, "ok": false, "why": "decode", "err": format!("{e}"), "tx": tx, "cbor": hex(&bytes)}));
                continue;
            }
        };
        let o = match observe(&mtx, n) {
            Ok(o) => o,
            Err(p) => {
                out.ev(json!({"i": i, "ok": false, "why": "panic", "panic": p, "tx": tx, "cbor": hex(&bytes)}));
                continue;
            }
        };
        let consumes: Vec<Value> = o.consumes.iter().map(label_ref).collect();
        let mut consumes_sorted = o.consumes.clone();
        consumes_sorted.sort();
        let consumes_sorted: Vec<Value> = consumes_sorted.iter().map(label_ref).collect();
        let produces: Vec<Value> = o.produces.iter().map(|(k, f)| json!([k, f.1])).collect();
        let mut produces_sorted = o.produces.clone();
        produces_sorted.sort();
        let produces_sorted: Vec<Value> = produces_sorted.iter().map(|(k, f)| json!([k, f.1])).collect();
        let mut want_produces: Vec<(i64, i64)> = jarr(&v["produces"]).iter().map(|p| (jint(&p[0]), jint(&p[1]))).collect();
        want_produces.sort();
        let want_produces: Vec<Value> = want_produces.iter().map(|(a, b)| json!([a, b])).collect();
        let at: Vec<Value> = o.produces_at.iter().map(|f| json!(f.as_ref().map(|f| f.1).unwrap_or(0))).collect();
        let sorted: Vec<Value> = o.sorted.iter().map(label_ref).collect();
        let mut why = Vec::new();
        if json!(o.is_valid) != tx["valid"] {
            why.push("is_valid");
        }
        if Value::Array(consumes_sorted.clone()) != v["consumes_set"] {
            why.push("consumes");
        }
        if Value::Array(produces_sorted) != Value::Array(want_produces) {
            why.push("produces");
        }
        if Value::Array(at.clone()) != v["produces_at"] {
            why.push("produces_at");
        }
        if Value::Array(sorted.clone()) != v["sorted"] {
            why.push("inputs_sorted_set");
        }
        let mut drift = Vec::new();
        if why.is_empty() {
            if Value::Array(consumes.clone()) != v["consumes_seq"] {
                drift.push("consumes-order");
            }
            if Value::Array(produces.clone()) != v["produces"] {
                drift.push("produces-order");
            }
        }
        let mut r = json!({"i": i, "ok": why.is_empty(), "why": why, "drift": drift, "era": tx["era"], "valid": tx["valid"]});
        if !why.is_empty() || !drift.is_empty() {
            r["want"] = v.clone();
            r["got"] = json!({"is_valid": o.is_valid, "consumes": consumes, "produces": produces, "produces_at": at, "sorted": sorted});
            r["cbor"] = json!(hex(&bytes));
        }
        out.ev(r);
    }
    out.finish();
}

// ------------------------------------------------------------------ M3
fn tx_event(src: &str, era: &str, flag: &str, valid: bool, proj: &raw::TxProj, o: &Observed) -> Value {
    // order-preserving interning of transaction ids, first-appearance interning of outputs
    let mut ids: BTreeSet<&Vec<u8>> = BTreeSet::new();
    for r in proj.inputs.iter().chain(proj.collateral.iter()).chain(o.consumes.iter()).chain(o.sorted.iter()) {
        ids.insert(&r.0);
    }
    let ids: Vec<&Vec<u8>> = ids.into_iter().collect();
    let rank = |r: &Ref| json!([ids.binary_search(&&r.0).unwrap() + 1, r.1]);
    let mut fps: Vec<Fp> = Vec::new();
    let mut fp_id = |f: &Fp| -> u64 {
        match fps.iter().position(|x| x == f) {
            Some(p) => p as u64 + 1,
            None => {
                fps.push(f.clone());
                fps.len() as u64
            }
        }
    };
    let outputs: Vec<u64> = proj.outputs.iter().map(&mut fp_id).collect();
    let collret = proj.collret.as_ref().map(&mut fp_id).unwrap_or(0);
    let produces: Vec<Value> = o.produces.iter().map(|(k, f)| json!([k, fp_id(f)])).collect();
    let at: Vec<u64> = o.produces_at.iter().map(|f| f.as_ref().map(&mut fp_id).unwrap_or(0)).collect();
    json!({
        "ev": "tx", "src": src, "flag": flag,
        "tx": {
            "era": era, "valid": valid,
            "inputs": proj.inputs.iter().map(rank).collect::<Vec<_>>(),
            "collateral": proj.collateral.iter().map(rank).collect::<Vec<_>>(),
            "outputs": outputs, "collret": collret,
        },
        "is_valid": o.is_valid,
        "consumes": o.consumes.iter().map(rank).collect::<Vec<_>>(),
        "produces": produces,
        "produces_at": at,
        "sorted": o.sorted.iter().map(rank).collect::<Vec<_>>(),
    })
}

fn era_of(tag: u64) -> Era {
    match tag {
        0 | 1 => Era::Byron,
        2 => Era::Shelley,
        3 => Era::Allegra,
        4 => Era::Mary,
        5 => Era::Alonzo,
        6 => Era::Babbage,
        _ => Era::Conway,
    }
}

struct Stats {
    txs: u64,
    events: u64,
    skipped: u64,
    too_big: u64,
}

fn emit_tx(out: &mut Ndjson, st: &mut Stats, src: &str, era: Era, era_name: &str, bytes: &[u8], body: &[u8], valid: bool, flag: &str) {
    let proj = if era == Era::Byron { raw::project_byron_tx(body) } else { raw::project_tx_body(body) };
    let proj = match proj {
        Ok(p) => p,
        Err(e) => {
            st.skipped += 1;
            out.ev(json!({"ev": "skip", "src": src, "why": format!("projection: {e}")}));
            return;
        }
    };
    if proj.inputs.iter().chain(proj.collateral.iter()).any(|r| r.1 >= (1 << 30)) || proj.inputs.len() > 400 {
        st.too_big += 1;
        return;
    }
    match MultiEraTx::decode_for_era(era, bytes) {
        Ok(tx) => match observe(&tx, proj.outputs.len()) {
            Ok(o) => {
                st.events += 1;
                let mut e = tx_event(src, era_name, flag, valid, &proj, &o);
                e["seq"] = json!(st.events);
                out.ev(e);
            }
            Err(p) => {
                st.events += 1;
                out.ev(json!({"ev": "panic", "seq": st.events, "src": src, "flag": flag, "panic": p}))
            }
        },
        Err(e) => {
            st.skipped += 1;
            out.ev(json!({"ev": "skip", "src": src, "why": format!("decode_for_era: {e}")}));
        }
    }
}

/// M3: every transaction of the corpus blocks (and stand-alone .tx files) under both validity flags.
pub fn trace(args: &Args) {
    let mut rng = Rng::new(args.seed());
    let max_chunk = args.num("chunk-blocks", 0) as usize;
    let per_block = args.num("per-block", 1_000_000) as usize;
    let mut out = Ndjson::create(args.get("out"));
    let mut st = Stats { txs: 0, events: 0, skipped: 0, too_big: 0 };
    let mut blocks = raw::corpus_files(".block");
    if max_chunk > 0 {
        let mut cb = raw::chunk_blocks(usize::MAX);
        // seeded sample of the chunk blocks that contain transactions
        rng.shuffle(&mut cb);
        let mut taken = 0;
        for (n, b) in cb {
            if taken >= max_chunk {
                break;
            }
            if let Ok(rb) = raw::parse_block(&b) {
                if !rb.bodies.is_empty() {
                    blocks.push((n, b));
                    taken += 1;
                }
            }
        }
    }
    for (name, buf) in &blocks {
        let rb = match raw::parse_block(buf) {
            Ok(rb) => rb,
            Err(e) => {
                out.ev(json!({"ev": "skip", "src": name, "why": format!("block: {e}")}));
                continue;
            }
        };
        let era = era_of(rb.tag);
        let mut idx: Vec<usize> = (0..rb.bodies.len()).collect();
        if idx.len() > per_block {
            rng.shuffle(&mut idx);
            idx.truncate(per_block);
            idx.sort_unstable();
        }
        for i in idx {
            st.txs += 1;
            let src = format!("{name}#{i}");
            let body = &buf[rb.bodies[i].0..rb.bodies[i].1];
            if era == Era::Byron {
                let bytes = raw::assemble_byron_tx(buf, rb.bodies[i], rb.wits[i]);
                emit_tx(&mut out, &mut st, &src, era, "Byron", &bytes, body, true, "orig");
                continue;
            }
            let listed_invalid = rb.invalid.as_ref().map(|v| v.contains(&(i as u64))).unwrap_or(false);
            for (flag, valid) in [("orig", !listed_invalid), ("flipped", listed_invalid)] {
                let bytes = raw::assemble_tx(buf, rb.bodies[i], rb.wits[i], valid, rb.aux.get(&(i as u64)).copied());
                emit_tx(&mut out, &mut st, &src, era, raw::era_name(rb.tag), &bytes, body, valid, flag);
            }
        }
    }
    // stand-alone transactions: [body, wits, valid, aux]
    for (name, buf) in raw::corpus_files(".tx") {
        let root = match crate::cbor::parse(&buf) {
            Ok(r) => r,
            Err(_) => continue,
        };
        let items = match root.array() {
            Ok(a) if a.len() == 4 => a,
            _ => {
                out.ev(json!({"ev": "skip", "src": name, "why": "not a 4-element transaction"}));
                continue;
            }
        };
        let orig_valid = items[2].raw(&buf) == [0xf5];
        let tx = match MultiEraTx::decode(&buf) {
            Ok(t) => t,
            Err(_) => {
                out.ev(json!({"ev": "skip", "src": name, "why": "MultiEraTx::decode failed"}));
                continue;
            }
        };
        let era = tx.era();
        let era_name = format!("{era:?}");
        st.txs += 1;
        let aux = if items[3].is_null() { None } else { Some(raw::span(&items[3])) };
        for (flag, valid) in [("orig", orig_valid), ("flipped", !orig_valid)] {
            let bytes = raw::assemble_tx(&buf, raw::span(&items[0]), raw::span(&items[1]), valid, aux);
            emit_tx(&mut out, &mut st, &name, era, &era_name, &bytes, items[0].raw(&buf), valid, flag);
        }
    }
    out.ev(json!({"ev": "stats", "txs": st.txs, "events": st.events, "skipped": st.skipped, "too_big": st.too_big}));
    out.finish();
}
