//! Conformance drivers (pv-traverse). Sub-commands are added per property.
mod slot;

fn main() {
    let args = pv_core::Args::parse();
    match args.cmd.as_str() {
        "slot-replay" => slot::replay(&args),
        "slot-trace" => slot::trace(&args),
        other => pv_core::die(&format!("unknown sub-command {other}")),
    }
}
