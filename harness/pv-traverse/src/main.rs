//! Conformance drivers (pv-traverse). Sub-commands are added per property.
mod block;
mod cbor;
mod identity;
mod raw;
mod slot;
mod utxo;

fn main() {
    let args = pv_core::Args::parse();
    match args.cmd.as_str() {
        "slot-replay" => slot::replay(&args),
        "slot-trace" => slot::trace(&args),
        "block-replay" => block::replay(&args),
        "block-trace" => block::trace(&args),
        "identity-trace" => identity::trace(&args),
        "utxo-replay" => utxo::replay(&args),
        "utxo-trace" => utxo::trace(&args),
        other => pv_core::die(&format!("unknown sub-command {other}")),
    }
}
