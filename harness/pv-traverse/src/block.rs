//! C30 — block traversal pairs each transaction with its own parts (spec/traverse/BlockTraverse.tla).
use crate::raw;
use pallas_codec::minicbor;
use pallas_traverse::{MultiEraBlock, MultiEraTx};
use pv_core::*;
use serde_json::Value;
use std::collections::HashMap;

fn template_header(tag: u64) -> Vec<u8> {
    let file = match tag {
        2 => "shelley1.block",
        3 => "allegra1.block",
        4 => "mary1.block",
        5 => "alonzo1.block",
        6 => "babbage1.block",
        7 => "conway1.block",
        other => die(&format!("no template for tag {other}")),
    };
    let path = format!("{}/test_data/{}", repo_root(), file);
    let buf = unhex(std::fs::read_to_string(&path).unwrap_or_else(|e| die(&format!("{path}: {e}"))).trim());
    let rb = raw::parse_block(&buf).unwrap_or_else(|e| die(&format!("template {file}: {e}")));
    if rb.tag != tag {
        die(&format!("template {file} has tag {} instead of {tag}", rb.tag));
    }
    buf[rb.header.0..rb.header.1].to_vec()
}

/// Wire bytes of the block described by a TLC vector: part with label k is
/// recognisable through the public API (body: fee = k; witness set: one vkey
/// witness whose key is [k; 32]; aux data: metadata {k: k}).
fn build_block(blk: &Value, headers: &mut HashMap<u64, Vec<u8>>) -> Vec<u8> {
    let tag = jint(&blk["tag"]) as u64;
    let header = headers.entry(tag).or_insert_with(|| template_header(tag)).clone();
    let bodies = jarr(&blk["bodies"]);
    let wits = jarr(&blk["wits"]);
    let aux = jarr(&blk["aux"]);
    let invalid: Vec<i64> = jarr(&blk["invalid"]).iter().map(jint).collect();
    let has_invalid = blk["has_invalid"].as_bool().unwrap_or_else(|| die("has_invalid missing"));
    let mut e = minicbor::Encoder::new(Vec::new());
    e.array(2).unwrap().u64(tag).unwrap();
    e.array(if has_invalid { 5 } else { 4 }).unwrap();
    e.writer_mut().extend_from_slice(&header);
    e.array(bodies.len() as u64).unwrap();
    for b in bodies {
        let k = jint(b) as u64;
        e.map(3).unwrap();
        e.u8(0).unwrap().array(1).unwrap().array(2).unwrap().bytes(&[k as u8; 32]).unwrap().u8(0).unwrap();
        e.u8(1).unwrap().array(0).unwrap();
        e.u8(2).unwrap().u64(k).unwrap();
    }
    e.array(wits.len() as u64).unwrap();
    for w in wits {
        let k = jint(w) as u8;
        e.map(1).unwrap().u8(0).unwrap().array(1).unwrap().array(2).unwrap().bytes(&[k; 32]).unwrap().bytes(&[0u8; 64]).unwrap();
    }
    e.map(aux.len() as u64).unwrap();
    for p in aux {
        let k = jint(&p[1]) as u64;
        e.u64(jint(&p[0]) as u64).unwrap();
        e.map(1).unwrap().u64(k).unwrap().u64(k).unwrap();
    }
    if has_invalid {
        e.array(invalid.len() as u64).unwrap();
        for i in invalid {
            e.u64(i as u64).unwrap();
        }
    }
    e.into_writer()
}

fn api_labels(tx: &MultiEraTx) -> Value {
    let body = tx.fee().unwrap_or(0);
    let wits = tx.vkey_witnesses().first().map(|w| w.vkey.first().copied().unwrap_or(0)).unwrap_or(0);
    let md = tx.metadata();
    let meta: Vec<(u64, &pallas_primitives::alonzo::Metadatum)> = md.collect();
    let aux = meta.first().map(|(k, _)| *k).unwrap_or(0);
    json!({"body": body, "wits": wits, "aux": aux, "valid": tx.is_valid()})
}

/// M1: TLC vectors -> generated blocks -> MultiEraBlock::decode -> era / count / txs through the public API.
pub fn replay(args: &Args) {
    let vecs = read_ndjson(args.get("in"));
    let mut out = Ndjson::create(args.get("out"));
    let mut headers = HashMap::new();
    for (i, v) in vecs.iter().enumerate() {
        let bytes = build_block(&v["blk"], &mut headers);
        let got = catch(|| match MultiEraBlock::decode(&bytes) {
            Ok(b) => {
                let txs: Vec<Value> = b.txs().iter().map(api_labels).collect();
                json!({"era": format!("{:?}", b.era()), "count": b.tx_count(), "txs": txs})
            }
            Err(e) => json!({"decode_error": format!("{e}")}),
        });
        let tag = v["blk"]["tag"].clone();
        match got {
            Ok(g) => {
                let mut why = Vec::new();
                if g.get("decode_error").is_some() {
                    why.push("decode");
                } else {
                    if g["era"] != v["era"] {
                        why.push("era");
                    }
                    if g["count"] != v["count"] {
                        why.push("tx_count");
                    }
                    if g["txs"] != v["txs"] {
                        why.push("txs");
                    }
                }
                let mut r = json!({"i": i, "ok": why.is_empty(), "why": why, "tag": tag});
                if !why.is_empty() {
                    r["want"] = v.clone();
                    r["got"] = g;
                    r["cbor"] = json!(hex(&bytes));
                }
                out.ev(r);
            }
            Err(p) => out.ev(json!({"i": i, "ok": false, "why": ["panic"], "tag": tag, "panic": p, "want": v, "cbor": hex(&bytes)})),
        }
    }
    out.finish();
}

// ------------------------------------------------------------------ M3
struct Interner {
    map: HashMap<Vec<u8>, u64>,
}
impl Interner {
    fn id(&mut self, b: &[u8]) -> u64 {
        let n = self.map.len() as u64 + 1;
        *self.map.entry(b.to_vec()).or_insert(n)
    }
}

/// wire bytes of the parts of a traversed transaction, as the library holds them
fn tx_parts<'a>(tx: &'a MultiEraTx) -> (&'a [u8], &'a [u8], Option<&'a [u8]>) {
    use pallas_codec::utils::Nullable;
    macro_rules! parts {
        ($x:expr) => {
            (
                $x.transaction_body.raw_cbor(),
                $x.transaction_witness_set.raw_cbor(),
                match &$x.auxiliary_data {
                    Nullable::Some(a) => Some(a.raw_cbor()),
                    _ => None,
                },
            )
        };
    }
    match tx {
        MultiEraTx::AlonzoCompatible(x, _) => parts!(x),
        MultiEraTx::Babbage(x) => parts!(x),
        MultiEraTx::Conway(x) => parts!(x),
        MultiEraTx::Byron(x) => (x.transaction.raw_cbor(), x.witness.raw_cbor(), None),
        _ => (&[], &[], None),
    }
}

fn block_event(seq: usize, src: &str, buf: &[u8], rb: &raw::RawBlock, blk: &MultiEraBlock) -> Value {
    let mut ids = Interner { map: HashMap::new() };
    let s = |sp: &raw::Span| &buf[sp.0..sp.1];
    let bodies: Vec<u64> = rb.bodies.iter().map(|sp| ids.id(s(sp))).collect();
    let wits: Vec<u64> = rb.wits.iter().map(|sp| ids.id(s(sp))).collect();
    let aux: Vec<Value> = rb.aux_order.iter().map(|k| json!([k, ids.id(s(&rb.aux[k]))])).collect();
    let txs: Vec<Value> = blk
        .txs()
        .iter()
        .map(|tx| {
            let (b, w, a) = tx_parts(tx);
            json!({"body": ids.id(b), "wits": ids.id(w), "aux": a.map(|a| ids.id(a)).unwrap_or(0), "valid": tx.is_valid()})
        })
        .collect();
    json!({
        "ev": "block", "seq": seq, "src": src,
        "blk": {"tag": rb.tag, "bodies": bodies, "wits": wits, "aux": aux,
                "has_invalid": rb.invalid.is_some(), "invalid": rb.invalid.clone().unwrap_or_default()},
        "era": format!("{:?}", blk.era()),
        "tx_count": blk.tx_count(),
        "txs": txs,
    })
}

/// A variant of a real Shelley+ block (every wrapper tag 2..7 - the eras share the block type): same header, bodies and witness sets, but a random invalid list
/// (any order, repeated / out-of-range indices) and the aux data re-keyed to random distinct indices in a
/// random wire order.
fn variant(buf: &[u8], rb: &raw::RawBlock, rng: &mut Rng) -> Vec<u8> {
    let n = rb.bodies.len() as u64;
    let mut e = minicbor::Encoder::new(Vec::new());
    e.array(2).unwrap().u64(rb.tag).unwrap().array(5).unwrap();
    let w = e.writer_mut();
    w.extend_from_slice(&buf[rb.header.0..rb.header.1]);
    w.extend_from_slice(&buf[rb.bodies_arr.0..rb.bodies_arr.1]);
    w.extend_from_slice(&buf[rb.wits_arr.0..rb.wits_arr.1]);
    // aux data re-keyed to random distinct indices (one may be out of range, some far out), written in a
    // random wire order (the map is not ordered by the CDDL)
    let mut keys: Vec<u64> = (0..=n).collect();
    if rng.chance(1, 3) {
        keys.push(n + 1 + rng.below(1000));
    }
    rng.shuffle(&mut keys);
    let mut vals: Vec<&raw::Span> = rb.aux.values().collect();
    let keep = if vals.is_empty() { 0 } else { rng.range(0, vals.len().min(keys.len()) as u64) as usize };
    rng.shuffle(&mut vals);
    let mut entries: Vec<(u64, &raw::Span)> = keys.into_iter().zip(vals.into_iter()).take(keep).collect();
    match rng.below(3) {
        0 => entries.sort(),
        1 => {
            entries.sort();
            entries.reverse()
        }
        _ => {} // shuffled
    }
    e.map(entries.len() as u64).unwrap();
    for (k, sp) in entries {
        e.u64(k).unwrap();
        e.writer_mut().extend_from_slice(&buf[sp.0..sp.1]);
    }
    // invalid list: any order, possibly repeated and out-of-range indices (only membership matters)
    let mut invalid: Vec<u64> = (0..=n).filter(|_| rng.chance(1, 3)).collect();
    if !invalid.is_empty() && rng.chance(1, 3) {
        let d = *rng.pick(&invalid);
        invalid.push(d);
    }
    if rng.chance(1, 4) {
        invalid.push(n + 1 + rng.below(100_000));
    }
    match rng.below(4) {
        0 => {} // ascending (+ extras at the end)
        1 => invalid.reverse(),
        _ => rng.shuffle(&mut invalid),
    }
    e.array(invalid.len() as u64).unwrap();
    for i in invalid {
        e.u64(i).unwrap();
    }
    e.into_writer()
}

/// M3: all test_data blocks (+ immutable-DB chunk blocks), projected independently from the wire bytes.
pub fn trace(args: &Args) {
    let mut rng = Rng::new(args.seed());
    let max_chunk = args.num("chunk-blocks", 0) as usize;
    let n_variants = args.num("variants", 0);
    let max_variant_blocks = args.num("variant-blocks", 40) as usize;
    let mut out = Ndjson::create(args.get("out"));
    let mut blocks = raw::corpus_files(".block");
    if max_chunk > 0 {
        let mut cb = raw::chunk_blocks(usize::MAX);
        let total = cb.len();
        if max_chunk < total {
            // keep every block with transactions first, fill up with a seeded sample of the rest
            let (mut with_tx, mut empty): (Vec<_>, Vec<_>) =
                cb.drain(..).partition(|(_, b)| raw::parse_block(b).map(|r| !r.bodies.is_empty()).unwrap_or(true));
            rng.shuffle(&mut with_tx);
            rng.shuffle(&mut empty);
            with_tx.extend(empty);
            with_tx.truncate(max_chunk);
            cb = with_tx;
        }
        out.ev(json!({"ev": "info", "chunk_blocks_total": total, "chunk_blocks_used": cb.len()}));
        blocks.extend(cb);
    }
    // generated variants with random invalid lists / sparse aux maps (Alonzo+ blocks with transactions)
    let mut vblocks = Vec::new();
    if n_variants > 0 {
        let mut cands: Vec<usize> = (0..blocks.len())
            .filter(|i| raw::parse_block(&blocks[*i].1).map(|r| r.tag >= 2 && !r.bodies.is_empty() && r.bodies.len() <= 60).unwrap_or(false))
            .collect();
        rng.shuffle(&mut cands);
        cands.truncate(max_variant_blocks);
        cands.sort_unstable();
        for i in cands {
            let (name, buf) = &blocks[i];
            let rb = raw::parse_block(buf).unwrap();
            for k in 0..n_variants {
                vblocks.push((format!("{name}~v{k}"), variant(buf, &rb, &mut rng)));
            }
        }
    }
    let n_variants_built = vblocks.len();
    blocks.extend(vblocks);
    let mut seq = 0;
    let mut skipped = 0;
    for (name, buf) in &blocks {
        let rb = match raw::parse_block(buf) {
            Ok(rb) => rb,
            Err(e) => {
                skipped += 1;
                out.ev(json!({"ev": "skip", "src": name, "why": format!("wire projection: {e}")}));
                continue;
            }
        };
        if rb.aux_dup_keys {
            skipped += 1;
            out.ev(json!({"ev": "skip", "src": name, "why": "duplicate aux map keys (property silent)"}));
            continue;
        }
        let ev = catch(|| match MultiEraBlock::decode(buf) {
            Ok(blk) => Ok(block_event(seq + 1, name, buf, &rb, &blk)),
            Err(e) => Err(format!("{e}")),
        });
        match ev {
            Ok(Ok(e)) => {
                seq += 1;
                out.ev(e);
            }
            Ok(Err(e)) => {
                skipped += 1;
                out.ev(json!({"ev": "skip", "src": name, "why": format!("MultiEraBlock::decode: {}", &e[..e.len().min(120)])}));
            }
            Err(p) => {
                seq += 1;
                out.ev(json!({"ev": "panic", "seq": seq, "src": name, "panic": p}));
            }
        }
    }
    out.ev(json!({"ev": "stats", "blocks": blocks.len(), "events": seq, "skipped": skipped, "variants": n_variants_built}));
    out.finish();
}
