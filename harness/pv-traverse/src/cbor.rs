#![allow(dead_code)]
//! A small structural CBOR reader / writer, independent of minicbor and of
//! pallas: items are parsed into a tree that remembers the byte span of every
//! node (so the harness can project blocks and transactions straight from the
//! wire bytes) and the exact head widths / definiteness (so a re-serialisation
//! with `Style::Same` is byte-identical, and other styles give semantically
//! equal re-encodings: definite <-> indefinite containers, non-minimal heads).
use pv_core::Rng;

#[derive(Clone, Debug)]
pub enum Kind {
    UInt(u64),
    NInt(u64), // value is -1 - n
    Bytes(Vec<Vec<u8>>, bool), // chunks, indefinite
    Text(Vec<Vec<u8>>, bool),
    Array(Vec<Node>, bool),
    Map(Vec<(Node, Node)>, bool),
    Tag(u64, Box<Node>),
    Simple(Vec<u8>), // major 7, raw bytes (false/true/null/undefined/floats/simple)
}

#[derive(Clone, Debug)]
pub struct Node {
    pub kind: Kind,
    pub start: usize,
    pub end: usize,
    /// width code of the head argument: 0 = in the initial byte, 1, 2, 4, 8
    pub width: u8,
}

pub struct Parser<'a> {
    pub buf: &'a [u8],
    pub pos: usize,
}

type R<T> = Result<T, String>;

impl<'a> Parser<'a> {
    pub fn new(buf: &'a [u8]) -> Self {
        Parser { buf, pos: 0 }
    }
    fn byte(&mut self) -> R<u8> {
        let b = *self.buf.get(self.pos).ok_or("eof")?;
        self.pos += 1;
        Ok(b)
    }
    fn take(&mut self, n: usize) -> R<&'a [u8]> {
        if self.pos + n > self.buf.len() {
            return Err("eof".into());
        }
        let s = &self.buf[self.pos..self.pos + n];
        self.pos += n;
        Ok(s)
    }
    /// returns (major, info, argument, width)
    fn head(&mut self) -> R<(u8, u8, u64, u8)> {
        let b = self.byte()?;
        let major = b >> 5;
        let info = b & 0x1f;
        let (arg, w) = match info {
            0..=23 => (info as u64, 0),
            24 => (self.byte()? as u64, 1),
            25 => (u16::from_be_bytes(self.take(2)?.try_into().unwrap()) as u64, 2),
            26 => (u32::from_be_bytes(self.take(4)?.try_into().unwrap()) as u64, 4),
            27 => (u64::from_be_bytes(self.take(8)?.try_into().unwrap()), 8),
            31 => (0, 0),
            _ => return Err(format!("reserved additional info {info}")),
        };
        Ok((major, info, arg, w))
    }
    fn at_break(&self) -> bool {
        self.buf.get(self.pos) == Some(&0xff)
    }
    pub fn item(&mut self) -> R<Node> {
        let start = self.pos;
        let (major, info, arg, width) = self.head()?;
        let indef = info == 31;
        let kind = match major {
            0 if !indef => Kind::UInt(arg),
            1 if !indef => Kind::NInt(arg),
            2 | 3 => {
                let mut chunks = Vec::new();
                if indef {
                    while !self.at_break() {
                        let (m2, i2, a2, _) = self.head()?;
                        if m2 != major || i2 == 31 {
                            return Err("bad chunk".into());
                        }
                        chunks.push(self.take(a2 as usize)?.to_vec());
                    }
                    self.pos += 1;
                } else {
                    chunks.push(self.take(arg as usize)?.to_vec());
                }
                if major == 2 {
                    Kind::Bytes(chunks, indef)
                } else {
                    Kind::Text(chunks, indef)
                }
            }
            4 => {
                let mut items = Vec::new();
                if indef {
                    while !self.at_break() {
                        items.push(self.item()?);
                    }
                    self.pos += 1;
                } else {
                    for _ in 0..arg {
                        items.push(self.item()?);
                    }
                }
                Kind::Array(items, indef)
            }
            5 => {
                let mut items = Vec::new();
                if indef {
                    while !self.at_break() {
                        let k = self.item()?;
                        let v = self.item()?;
                        items.push((k, v));
                    }
                    self.pos += 1;
                } else {
                    for _ in 0..arg {
                        let k = self.item()?;
                        let v = self.item()?;
                        items.push((k, v));
                    }
                }
                Kind::Map(items, indef)
            }
            6 if !indef => Kind::Tag(arg, Box::new(self.item()?)),
            7 if !indef => Kind::Simple(self.buf[start..self.pos].to_vec()),
            _ => return Err(format!("bad head major {major} info {info}")),
        };
        Ok(Node { kind, start, end: self.pos, width })
    }
}

/// Parse exactly one item covering the whole buffer.
pub fn parse(buf: &[u8]) -> R<Node> {
    let mut p = Parser::new(buf);
    let n = p.item()?;
    if p.pos != buf.len() {
        return Err(format!("trailing bytes: {} of {}", p.pos, buf.len()));
    }
    Ok(n)
}

impl Node {
    /// a node that is serialised verbatim (used to splice hand-written items into a parsed tree)
    pub fn verbatim(bytes: &[u8]) -> Node {
        Node { kind: Kind::Simple(bytes.to_vec()), start: 0, end: 0, width: 0 }
    }
    pub fn untag_mut(&mut self) -> &mut Node {
        match self.kind {
            Kind::Tag(_, ref mut inner) => inner.untag_mut(),
            _ => self,
        }
    }
    /// the value of an integer-keyed map entry, inserted (as an empty definite array) when missing
    pub fn map_entry_array(&mut self, key: u8) -> Option<&mut Vec<Node>> {
        if let Kind::Map(items, _) = &mut self.kind {
            let pos = items.iter().position(|(k, _)| matches!(k.kind, Kind::UInt(x) if x == key as u64));
            let pos = match pos {
                Some(p) => p,
                None => {
                    let arr = Node { kind: Kind::Array(vec![], false), start: 0, end: 0, width: 0 };
                    items.push((Node::verbatim(&[key]), arr));
                    items.len() - 1
                }
            };
            if let Kind::Array(v, _) = &mut items[pos].1.untag_mut().kind {
                return Some(v);
            }
        }
        None
    }
    pub fn raw<'a>(&self, buf: &'a [u8]) -> &'a [u8] {
        &buf[self.start..self.end]
    }
    pub fn array(&self) -> R<&Vec<Node>> {
        match &self.kind {
            Kind::Array(v, _) => Ok(v),
            _ => Err("expected array".into()),
        }
    }
    pub fn map(&self) -> R<&Vec<(Node, Node)>> {
        match &self.kind {
            Kind::Map(v, _) => Ok(v),
            _ => Err("expected map".into()),
        }
    }
    pub fn uint(&self) -> R<u64> {
        match &self.kind {
            Kind::UInt(v) => Ok(*v),
            _ => Err("expected uint".into()),
        }
    }
    pub fn bytes(&self) -> R<Vec<u8>> {
        match &self.kind {
            Kind::Bytes(c, _) => Ok(c.concat()),
            _ => Err("expected bytes".into()),
        }
    }
    /// strip any number of tags
    pub fn untag(&self) -> &Node {
        match &self.kind {
            Kind::Tag(_, inner) => inner.untag(),
            _ => self,
        }
    }
    pub fn map_get(&self, key: u64) -> Option<&Node> {
        match &self.kind {
            Kind::Map(v, _) => v.iter().find(|(k, _)| matches!(k.kind, Kind::UInt(x) if x == key)).map(|(_, v)| v),
            _ => None,
        }
    }
    pub fn is_null(&self) -> bool {
        matches!(&self.kind, Kind::Simple(b) if b == &[0xf6])
    }
}

/// How to re-serialise a tree.
#[derive(Clone, Copy, Debug, PartialEq)]
pub enum Style {
    /// exactly as parsed (byte-identical)
    Same,
    /// definite containers / strings become indefinite and vice versa, with probability num/8 per node
    FlipDefinite(u64),
    /// every head argument is widened to the next width (0->1, 1->2, 2->4, 4->8), with probability num/8 per node
    Widen(u64),
    /// minimal heads and definite containers everywhere (canonical-ish; order kept)
    Minimal,
    /// the entries of a map are emitted in a shuffled order, with probability num/8 per map
    ShuffleMaps(u64),
    /// set tags (#6.258) are dropped, with probability num/8 per tag
    UntagSets(u64),
}

fn put_head(out: &mut Vec<u8>, major: u8, arg: u64, width: u8) {
    let min = if arg < 24 {
        0
    } else if arg <= 0xff {
        1
    } else if arg <= 0xffff {
        2
    } else if arg <= 0xffff_ffff {
        4
    } else {
        8
    };
    let w = width.max(min);
    match w {
        0 => out.push((major << 5) | arg as u8),
        1 => {
            out.push((major << 5) | 24);
            out.push(arg as u8)
        }
        2 => {
            out.push((major << 5) | 25);
            out.extend_from_slice(&(arg as u16).to_be_bytes())
        }
        4 => {
            out.push((major << 5) | 26);
            out.extend_from_slice(&(arg as u32).to_be_bytes())
        }
        _ => {
            out.push((major << 5) | 27);
            out.extend_from_slice(&arg.to_be_bytes())
        }
    }
}

fn wider(w: u8) -> u8 {
    match w {
        0 => 1,
        1 => 2,
        2 => 4,
        _ => 8,
    }
}

pub struct Writer<'r> {
    pub style: Style,
    pub rng: &'r mut Rng,
    pub changed: usize,
}

impl<'r> Writer<'r> {
    fn width(&mut self, w: u8) -> u8 {
        match self.style {
            Style::Same | Style::FlipDefinite(_) | Style::ShuffleMaps(_) | Style::UntagSets(_) => w,
            Style::Minimal => 0,
            Style::Widen(p) => {
                if w < 8 && self.rng.below(8) < p {
                    self.changed += 1;
                    wider(w)
                } else {
                    w
                }
            }
        }
    }
    fn indef(&mut self, was: bool) -> bool {
        match self.style {
            Style::Same | Style::Widen(_) | Style::ShuffleMaps(_) | Style::UntagSets(_) => was,
            Style::Minimal => false,
            Style::FlipDefinite(p) => {
                if self.rng.below(8) < p {
                    self.changed += 1;
                    !was
                } else {
                    was
                }
            }
        }
    }
    pub fn ser(&mut self, n: &Node, out: &mut Vec<u8>) {
        match &n.kind {
            Kind::UInt(v) => {
                let w = self.width(n.width);
                put_head(out, 0, *v, w)
            }
            Kind::NInt(v) => {
                let w = self.width(n.width);
                put_head(out, 1, *v, w)
            }
            Kind::Bytes(chunks, indef) | Kind::Text(chunks, indef) => {
                let major = if matches!(n.kind, Kind::Bytes(..)) { 2 } else { 3 };
                let ind = self.indef(*indef);
                if ind {
                    out.push((major << 5) | 31);
                    for c in chunks {
                        put_head(out, major, c.len() as u64, 0);
                        out.extend_from_slice(c);
                    }
                    out.push(0xff);
                } else {
                    let all = chunks.concat();
                    let w = if *indef { 0 } else { self.width(n.width) };
                    put_head(out, major, all.len() as u64, w);
                    out.extend_from_slice(&all);
                }
            }
            Kind::Array(items, indef) => {
                let ind = self.indef(*indef);
                if ind {
                    out.push(0x9f);
                } else {
                    let w = if *indef { 0 } else { self.width(n.width) };
                    put_head(out, 4, items.len() as u64, w);
                }
                for i in items {
                    self.ser(i, out);
                }
                if ind {
                    out.push(0xff);
                }
            }
            Kind::Map(items, indef) => {
                let ind = self.indef(*indef);
                if ind {
                    out.push(0xbf);
                } else {
                    let w = if *indef { 0 } else { self.width(n.width) };
                    put_head(out, 5, items.len() as u64, w);
                }
                let mut order: Vec<usize> = (0..items.len()).collect();
                if let Style::ShuffleMaps(p) = self.style {
                    if items.len() > 1 && self.rng.below(8) < p {
                        let before = order.clone();
                        self.rng.shuffle(&mut order);
                        if order != before {
                            self.changed += 1;
                        }
                    }
                }
                for i in order {
                    let (k, v) = &items[i];
                    self.ser(k, out);
                    self.ser(v, out);
                }
                if ind {
                    out.push(0xff);
                }
            }
            Kind::Tag(t, inner) => {
                if let Style::UntagSets(p) = self.style {
                    if *t == 258 && self.rng.below(8) < p {
                        self.changed += 1;
                        self.ser(inner, out);
                        return;
                    }
                }
                // embedded CBOR (#6.24(bytes .cbor x)): re-encode x as well, then wrap it again
                if *t == 24 && self.style != Style::Same {
                    if let Kind::Bytes(chunks, _) = &inner.kind {
                        let all = chunks.concat();
                        if let Ok(x) = parse(&all) {
                            let mut nested = Vec::new();
                            let before = self.changed;
                            self.ser(&x, &mut nested);
                            if self.changed > before {
                                put_head(out, 6, *t, n.width);
                                put_head(out, 2, nested.len() as u64, 0);
                                out.extend_from_slice(&nested);
                                return;
                            }
                        }
                    }
                }
                let w = self.width(n.width);
                put_head(out, 6, *t, w);
                self.ser(inner, out);
            }
            Kind::Simple(raw) => out.extend_from_slice(raw),
        }
    }
}

pub fn reserialize(n: &Node, style: Style, rng: &mut Rng) -> (Vec<u8>, usize) {
    let mut w = Writer { style, rng, changed: 0 };
    let mut out = Vec::new();
    w.ser(n, &mut out);
    (out, w.changed)
}
