//! Projections of blocks and transactions taken directly from the wire bytes
//! (cbor.rs tree), independent of pallas-primitives / pallas-traverse.
use crate::cbor::{self, Kind, Node};
use pv_core::*;
use std::collections::BTreeMap;

pub type Span = (usize, usize);

pub fn span(n: &Node) -> Span {
    (n.start, n.end)
}

/// Hex block files of test_data (one hex string per file).
pub fn corpus_files(ext: &str) -> Vec<(String, Vec<u8>)> {
    let dir = format!("{}/test_data", repo_root());
    let mut names: Vec<String> = std::fs::read_dir(&dir)
        .unwrap_or_else(|e| die(&format!("cannot list {dir}: {e}")))
        .filter_map(|e| e.ok())
        .map(|e| e.file_name().to_string_lossy().to_string())
        .filter(|n| n.ends_with(ext))
        .collect();
    names.sort();
    let mut out = Vec::new();
    for n in names {
        let s = std::fs::read_to_string(format!("{dir}/{n}")).unwrap_or_else(|e| die(&format!("cannot read {n}: {e}")));
        match hex::decode(s.trim()) {
            Ok(b) => out.push((n, b)),
            Err(_) => {}
        }
    }
    out
}

/// All blocks of the immutable test DB (pallas-hardano reader; the reader is
/// trusted glue here - the blocks are just more wire bytes).
pub fn chunk_blocks(limit: usize) -> Vec<(String, Vec<u8>)> {
    let dir = format!("{}/test_data", repo_root());
    let mut out = Vec::new();
    let it = match pallas_hardano::storage::immutable::read_blocks(std::path::Path::new(&dir)) {
        Ok(it) => it,
        Err(e) => die(&format!("cannot open immutable db: {e}")),
    };
    for (i, b) in it.enumerate() {
        if out.len() >= limit {
            break;
        }
        match b {
            Ok(bytes) => out.push((format!("chunk#{i}"), bytes)),
            Err(e) => die(&format!("immutable db read error at block {i}: {e}")),
        }
    }
    out
}

/// Wire-level view of a block `[era_tag, block]`.
pub struct RawBlock {
    pub tag: u64,
    pub header: Span,
    /// the arrays of bodies / witness sets as a whole (Shelley+)
    pub bodies_arr: Span,
    pub wits_arr: Span,
    /// per transaction: body span, witness span
    pub bodies: Vec<Span>,
    pub wits: Vec<Span>,
    /// aux data by transaction index (Shelley+), first occurrence of a key
    pub aux: BTreeMap<u64, Span>,
    /// the keys in wire order
    pub aux_order: Vec<u64>,
    pub aux_dup_keys: bool,
    /// indices listed as invalid (Alonzo+); None when the block has no such field
    pub invalid: Option<Vec<u64>>,
}

pub fn era_name(tag: u64) -> &'static str {
    match tag {
        0 | 1 => "Byron",
        2 => "Shelley",
        3 => "Allegra",
        4 => "Mary",
        5 => "Alonzo",
        6 => "Babbage",
        7 => "Conway",
        _ => "?",
    }
}

pub fn parse_block(buf: &[u8]) -> Result<RawBlock, String> {
    let root = cbor::parse(buf)?;
    let top = root.array()?;
    if top.len() != 2 {
        return Err("block wrapper is not a pair".into());
    }
    let tag = top[0].uint()?;
    let blk = top[1].array()?;
    let mut rb = RawBlock {
        tag,
        header: span(&blk[0]),
        bodies_arr: (0, 0),
        wits_arr: (0, 0),
        bodies: vec![],
        wits: vec![],
        aux: BTreeMap::new(),
        aux_order: vec![],
        aux_dup_keys: false,
        invalid: None,
    };
    match tag {
        0 => {} // epoch boundary block: [header, body, extra] - no transactions
        1 => {
            // [header, [tx_payload, ssc, dlg, upd], extra]; tx_payload = [[tx, witnesses] ...]
            let body = blk.get(1).ok_or("byron body")?.array()?;
            for p in body.first().ok_or("tx payload")?.array()? {
                let pair = p.array()?;
                rb.bodies.push(span(&pair[0]));
                rb.wits.push(span(&pair[1]));
            }
        }
        2..=7 => {
            rb.bodies_arr = span(&blk[1]);
            rb.wits_arr = span(blk.get(2).ok_or("witnesses")?);
            for b in blk.get(1).ok_or("bodies")?.array()? {
                rb.bodies.push(span(b));
            }
            for w in blk.get(2).ok_or("witnesses")?.array()? {
                rb.wits.push(span(w));
            }
            for (k, v) in blk.get(3).ok_or("aux")?.map()? {
                let k = k.uint()?;
                if rb.aux.contains_key(&k) {
                    rb.aux_dup_keys = true;
                } else {
                    rb.aux.insert(k, span(v));
                    rb.aux_order.push(k);
                }
            }
            if let Some(inv) = blk.get(4) {
                let mut v = Vec::new();
                for i in inv.untag().array()? {
                    v.push(i.uint()?);
                }
                rb.invalid = Some(v);
            }
        }
        other => return Err(format!("unknown era tag {other}")),
    }
    Ok(rb)
}

/// Shelley+ transaction as it travels on its own: [body, witnesses, valid, aux / null]
pub fn assemble_tx(buf: &[u8], body: Span, wits: Span, valid: bool, aux: Option<Span>) -> Vec<u8> {
    let mut out = vec![0x84];
    out.extend_from_slice(&buf[body.0..body.1]);
    out.extend_from_slice(&buf[wits.0..wits.1]);
    out.push(if valid { 0xf5 } else { 0xf4 });
    match aux {
        Some(a) => out.extend_from_slice(&buf[a.0..a.1]),
        None => out.push(0xf6),
    }
    out
}

/// Byron transaction payload: [tx, witnesses]
pub fn assemble_byron_tx(buf: &[u8], body: Span, wits: Span) -> Vec<u8> {
    let mut out = vec![0x82];
    out.extend_from_slice(&buf[body.0..body.1]);
    out.extend_from_slice(&buf[wits.0..wits.1]);
    out
}

/// What the UTxO rules look at, read from the body's wire bytes.
#[derive(Debug, Default)]
pub struct TxProj {
    pub inputs: Vec<(Vec<u8>, u64)>,
    pub collateral: Vec<(Vec<u8>, u64)>,
    /// outputs as fingerprints (address bytes, lovelace)
    pub outputs: Vec<(Vec<u8>, u64)>,
    pub collret: Option<(Vec<u8>, u64)>,
}

fn refs_of(n: &Node) -> Result<Vec<(Vec<u8>, u64)>, String> {
    let mut v = Vec::new();
    for i in n.untag().array()? {
        let p = i.array()?;
        v.push((p[0].bytes()?, p[1].uint()?));
    }
    Ok(v)
}

fn coin_of(v: &Node) -> Result<u64, String> {
    match &v.kind {
        Kind::UInt(c) => Ok(*c),
        Kind::Array(items, _) => items.first().ok_or("empty value")?.uint(),
        _ => Err("bad value".into()),
    }
}

fn out_fp(n: &Node) -> Result<(Vec<u8>, u64), String> {
    match &n.kind {
        Kind::Array(items, _) => Ok((items[0].bytes()?, coin_of(&items[1])?)),
        Kind::Map(..) => Ok((
            n.map_get(0).ok_or("no address")?.bytes()?,
            coin_of(n.map_get(1).ok_or("no value")?)?,
        )),
        _ => Err("bad output".into()),
    }
}

pub fn project_tx_body(body: &[u8]) -> Result<TxProj, String> {
    let n = cbor::parse(body)?;
    let mut p = TxProj::default();
    if let Some(i) = n.map_get(0) {
        p.inputs = refs_of(i)?;
    }
    if let Some(o) = n.map_get(1) {
        for o in o.array()? {
            p.outputs.push(out_fp(o)?);
        }
    }
    if let Some(c) = n.map_get(13) {
        p.collateral = refs_of(c)?;
    }
    if let Some(r) = n.map_get(16) {
        p.collret = Some(out_fp(r)?);
    }
    Ok(p)
}

/// Byron tx: [inputs, outputs, attributes]; input = [0, #6.24(bytes .cbor [txid, index])];
/// output = [address, coin] with address = [#6.24(bytes), crc] (fingerprint: raw address item).
pub fn project_byron_tx(body: &[u8]) -> Result<TxProj, String> {
    let n = cbor::parse(body)?;
    let t = n.array()?;
    let mut p = TxProj::default();
    for i in t[0].array()? {
        let pair = i.array()?;
        if pair[0].uint()? != 0 {
            return Err("unknown byron input variant".into());
        }
        let inner = pair[1].untag().bytes()?;
        let r = cbor::parse(&inner)?;
        let r = r.array()?;
        p.inputs.push((r[0].bytes()?, r[1].uint()?));
    }
    for o in t[1].array()? {
        let pair = o.array()?;
        p.outputs.push((pair[0].raw(body).to_vec(), pair[1].uint()?));
    }
    Ok(p)
}
