//! C05 — identity hashes are taken over the original wire bytes (spec/traverse/Identity.tla).
//!
//! For every artefact the harness locates the wire bytes itself (cbor.rs tree),
//! interns them, states the candidate pre-image (`cat` fact) and its digest
//! (`hash` fact, Hasher::<256/224>::hash) and logs the identifier the library
//! reports (`id` event).  Interning is per block (a `reset` event starts a new
//! block), so events stay small: ids, not bytes.
use crate::cbor::{self, Kind, Node, Style};
use crate::raw;
use pallas_crypto::hash::Hasher;
use pallas_primitives::conway;
use pallas_traverse::{ComputeHash, MultiEraBlock, MultiEraHeader, MultiEraTx, OriginalHash};
use pv_core::*;
use serde_json::Value;
use std::collections::{HashMap, HashSet};

fn prefix_for(kind: &str) -> &'static [u8] {
    match kind {
        "byron_ebb_header" => &[0x82, 0x00],
        "byron_header" => &[0x82, 0x01],
        "native_script" => &[0x00],
        "plutus_v1" => &[0x01],
        "plutus_v2" => &[0x02],
        "plutus_v3" => &[0x03],
        _ => &[],
    }
}

struct Run {
    out: Ndjson,
    bytes: HashMap<Vec<u8>, u64>,
    digests: HashMap<Vec<u8>, u64>,
    hashed: HashSet<(u32, u64)>,
    catted: HashSet<(Vec<u8>, u64)>,
    seq: u64,
    ids: u64,
    by_kind: HashMap<String, u64>,
    noncanon: u64,
    finds: u64,
}

impl Run {
    fn ev(&mut self, mut v: Value) {
        self.seq += 1;
        v["seq"] = json!(self.seq);
        self.out.ev(v);
    }
    fn reset(&mut self, src: &str) {
        self.bytes.clear();
        self.digests.clear();
        self.hashed.clear();
        self.catted.clear();
        self.ev(json!({"ev": "reset", "src": src}));
    }
    fn bid(&mut self, b: &[u8]) -> u64 {
        let n = self.bytes.len() as u64 + 1;
        *self.bytes.entry(b.to_vec()).or_insert(n)
    }
    fn did(&mut self, d: &[u8]) -> u64 {
        let n = self.digests.len() as u64 + 1;
        *self.digests.entry(d.to_vec()).or_insert(n)
    }
    /// One artefact: wire bytes located by the harness, identifier reported by the library.
    fn artefact(&mut self, kind: &str, wire: &[u8], reported: &[u8], api: &str, at: &str) {
        let w = self.bid(wire);
        let prefix = prefix_for(kind);
        let mut pre = prefix.to_vec();
        pre.extend_from_slice(wire);
        let p = self.bid(&pre);
        if !prefix.is_empty() && self.catted.insert((prefix.to_vec(), w)) {
            self.ev(json!({"ev": "cat", "prefix": prefix, "part": w, "whole": p}));
        }
        let size: u32 = if reported.len() == 28 { 224 } else { 256 };
        if self.hashed.insert((size, p)) {
            let d = if size == 224 { Hasher::<224>::hash(&pre).to_vec() } else { Hasher::<256>::hash(&pre).to_vec() };
            let d = self.did(&d);
            self.ev(json!({"ev": "hash", "size": size, "of": p, "digest": d}));
        }
        let r = self.did(reported);
        self.ev(json!({"ev": "id", "kind": kind, "wire": w, "reported": r, "api": api, "at": at}));
        self.ids += 1;
        *self.by_kind.entry(kind.to_string()).or_insert(0) += 1;
    }
}

fn header_kind(tag: u64) -> &'static str {
    match tag {
        0 => "byron_ebb_header",
        1 => "byron_header",
        _ => "header",
    }
}

fn items_of<'a>(n: Option<&'a Node>) -> Vec<&'a Node> {
    match n.map(|n| n.untag()) {
        Some(Node { kind: Kind::Array(v, _), .. }) => v.iter().collect(),
        _ => vec![],
    }
}

/// script artefact inside a script_ref / witness list
fn plutus_kind(v: u64) -> &'static str {
    match v {
        1 => "plutus_v1",
        2 => "plutus_v2",
        _ => "plutus_v3",
    }
}

fn tx_artefacts(run: &mut Run, src: &str, i: usize, tx: &MultiEraTx, body: &[u8], wits: &[u8]) -> Result<(), String> {
    let at = format!("{src}#{i}");
    run.artefact("tx", body, tx.hash().as_ref(), "MultiEraTx::hash", &at);
    if matches!(tx, MultiEraTx::Byron(_)) {
        return Ok(());
    }
    let w = cbor::parse(wits)?;
    // native scripts (key 1), datums (key 4): OriginalHash over KeepRaw
    let ns = items_of(w.map_get(1));
    let lib_ns = tx.native_scripts();
    if ns.len() != lib_ns.len() {
        return Err(format!("{at}: {} native scripts on the wire, {} reported", ns.len(), lib_ns.len()));
    }
    for (n, l) in ns.iter().zip(lib_ns) {
        run.artefact("native_script", n.raw(wits), l.original_hash().as_ref(), "KeepRaw<NativeScript>::original_hash", &at);
    }
    let ds = items_of(w.map_get(4));
    let lib_ds = tx.plutus_data();
    if ds.len() != lib_ds.len() {
        return Err(format!("{at}: {} datums on the wire, {} reported", ds.len(), lib_ds.len()));
    }
    for (n, l) in ds.iter().zip(lib_ds) {
        run.artefact("datum", n.raw(wits), l.original_hash().as_ref(), "KeepRaw<PlutusData>::original_hash", &at);
    }
    // lookups by hash observe the datum identity as well: by the hash of the wire bytes (must find) and by the
    // hash of the library's re-encoding when that differs (must not find, unless it is another datum's wire hash)
    if !ds.is_empty() && ds.len() <= 40 {
        let among: Vec<u64> = ds.iter().map(|n| run.bid(n.raw(wits))).collect();
        for (n, l) in ds.iter().zip(lib_ds) {
            let wire = n.raw(wits);
            let canon = pallas_codec::minicbor::to_vec(std::ops::Deref::deref(l)).unwrap_or_default();
            let mut probes = vec![("wire", Hasher::<256>::hash(wire))];
            if canon != wire && !canon.is_empty() {
                probes.push(("re-encoding", Hasher::<256>::hash(&canon)));
            }
            for (what, h) in probes {
                let found = match tx.find_plutus_data(&h) {
                    Some(k) => run.bid(k.raw_cbor()),
                    None => 0,
                };
                let by = run.did(h.as_ref());
                run.ev(json!({"ev": "find", "kind": "datum", "among": among, "by": by, "found": found,
                              "api": format!("MultiEraTx::find_plutus_data(hash of {what})"), "at": at}));
                run.finds += 1;
            }
        }
    }
    // plutus scripts (keys 3, 6, 7): tag o content of the byte string
    let v1: Vec<Vec<u8>> = tx.plutus_v1_scripts().iter().map(|s| s.compute_hash().to_vec()).collect();
    let v2: Vec<Vec<u8>> = tx.plutus_v2_scripts().iter().map(|s| s.compute_hash().to_vec()).collect();
    let v3: Vec<Vec<u8>> = tx.plutus_v3_scripts().iter().map(|s| s.compute_hash().to_vec()).collect();
    for (key, ver, lib) in [(3u64, 1u64, &v1), (6, 2, &v2), (7, 3, &v3)] {
        let ps = items_of(w.map_get(key));
        if ps.len() != lib.len() {
            return Err(format!("{at}: {} plutus v{ver} scripts on the wire, {} reported", ps.len(), lib.len()));
        }
        for (n, l) in ps.iter().zip(lib.iter()) {
            run.artefact(plutus_kind(ver), &n.bytes()?, l, "PlutusScript::compute_hash", &at);
        }
    }
    // outputs: inline datums (key 2 = [1, #6.24(bytes)]) and reference scripts (key 3 = #6.24(bytes .cbor [t, script]))
    let b = cbor::parse(body)?;
    let outs = items_of(b.map_get(1));
    let lib_outs = tx.outputs();
    if outs.len() != lib_outs.len() {
        return Err(format!("{at}: {} outputs on the wire, {} reported", outs.len(), lib_outs.len()));
    }
    for (k, (o, lo)) in outs.iter().zip(lib_outs.iter()).enumerate() {
        if !matches!(o.kind, Kind::Map(..)) {
            continue;
        }
        let at_o = format!("{at}/out{k}");
        if let Some(d) = o.map_get(2) {
            let parts = d.array()?;
            if parts.len() == 2 && parts[0].uint()? == 1 {
                let datum_wire = parts[1].untag().bytes()?;
                match lo.datum() {
                    Some(conway::DatumOption::Data(wrapped)) => {
                        run.artefact("datum", &datum_wire, wrapped.0.original_hash().as_ref(), "inline KeepRaw<PlutusData>::original_hash", &at_o);
                        let opt = conway::DatumOption::Data(wrapped);
                        run.artefact("datum", &datum_wire, opt.compute_hash().as_ref(), "DatumOption::compute_hash", &at_o);
                    }
                    _ => return Err(format!("{at_o}: inline datum on the wire, none reported")),
                }
            }
        }
        if let Some(s) = o.map_get(3) {
            let inner = s.untag().bytes()?;
            let sn = cbor::parse(&inner)?;
            let parts = sn.array()?;
            let t = parts[0].uint()?;
            match (t, lo.script_ref()) {
                (0, Some(conway::ScriptRef::NativeScript(k))) => {
                    run.artefact("native_script", parts[1].raw(&inner), k.original_hash().as_ref(), "script_ref KeepRaw<NativeScript>::original_hash", &at_o)
                }
                (1, Some(conway::ScriptRef::PlutusV1Script(p))) => run.artefact("plutus_v1", &parts[1].bytes()?, p.compute_hash().as_ref(), "script_ref PlutusScript::compute_hash", &at_o),
                (2, Some(conway::ScriptRef::PlutusV2Script(p))) => run.artefact("plutus_v2", &parts[1].bytes()?, p.compute_hash().as_ref(), "script_ref PlutusScript::compute_hash", &at_o),
                (3, Some(conway::ScriptRef::PlutusV3Script(p))) => run.artefact("plutus_v3", &parts[1].bytes()?, p.compute_hash().as_ref(), "script_ref PlutusScript::compute_hash", &at_o),
                (t, _) => return Err(format!("{at_o}: script_ref type {t} on the wire does not match the reported one")),
            }
        }
    }
    Ok(())
}

/// All artefacts of one block. Returns false when the library does not decode the bytes.
fn block_artefacts(run: &mut Run, src: &str, buf: &[u8]) -> Result<bool, String> {
    let rb = raw::parse_block(buf)?;
    let blk = match MultiEraBlock::decode(buf) {
        Ok(b) => b,
        Err(_) => return Ok(false),
    };
    run.reset(src);
    let header = &buf[rb.header.0..rb.header.1];
    let kind = header_kind(rb.tag);
    run.artefact(kind, header, blk.hash().as_ref(), "MultiEraBlock::hash", src);
    // the header decoded on its own (node-to-node form: tag = era - 1, Byron subtag)
    let (t, sub) = match rb.tag {
        0 => (0u8, Some(0u8)),
        1 => (0, Some(1)),
        n => ((n - 1) as u8, None),
    };
    if let Ok(h) = MultiEraHeader::decode(t, sub, header) {
        run.artefact(kind, header, h.hash().as_ref(), "MultiEraHeader::hash", src);
    }
    let txs = blk.txs();
    if txs.len() != rb.bodies.len() {
        return Err(format!("{src}: {} bodies on the wire, {} transactions traversed", rb.bodies.len(), txs.len()));
    }
    for (i, tx) in txs.iter().enumerate() {
        let body = &buf[rb.bodies[i].0..rb.bodies[i].1];
        let wits = &buf[rb.wits[i].0..rb.wits[i].1];
        tx_artefacts(run, src, i, tx, body, wits)?;
    }
    Ok(true)
}

/// Semantically equal re-encoding of `buf`, changing only nodes inside `focus`.
fn rewrite(buf: &[u8], root: &Node, focus: raw::Span, style: Style, rng: &mut Rng) -> (Vec<u8>, usize) {
    fn go(n: &Node, buf: &[u8], focus: raw::Span, style: Style, rng: &mut Rng, out: &mut Vec<u8>, changed: &mut usize) {
        let inside = n.start >= focus.0 && n.end <= focus.1;
        let overlaps = n.start < focus.1 && n.end > focus.0;
        if inside {
            let (b, c) = cbor::reserialize(n, style, rng);
            out.extend_from_slice(&b);
            *changed += c;
        } else if !overlaps {
            out.extend_from_slice(n.raw(buf));
        } else {
            // container around the focus: keep its own head, descend
            match &n.kind {
                Kind::Array(items, indef) => {
                    let head_end = items.first().map(|i| i.start).unwrap_or(n.end - if *indef { 1 } else { 0 });
                    out.extend_from_slice(&buf[n.start..head_end]);
                    for i in items {
                        go(i, buf, focus, style, rng, out, changed);
                    }
                    if *indef {
                        out.push(0xff);
                    }
                }
                Kind::Map(items, indef) => {
                    let head_end = items.first().map(|(k, _)| k.start).unwrap_or(n.end - if *indef { 1 } else { 0 });
                    out.extend_from_slice(&buf[n.start..head_end]);
                    for (k, v) in items {
                        go(k, buf, focus, style, rng, out, changed);
                        go(v, buf, focus, style, rng, out, changed);
                    }
                    if *indef {
                        out.push(0xff);
                    }
                }
                Kind::Tag(_, inner) => {
                    out.extend_from_slice(&buf[n.start..inner.start]);
                    go(inner, buf, focus, style, rng, out, changed);
                }
                _ => out.extend_from_slice(n.raw(buf)),
            }
        }
    }
    let mut out = Vec::new();
    let mut changed = 0;
    go(root, buf, focus, style, rng, &mut out, &mut changed);
    (out, changed)
}

// ------------------------------------------------------------------ minimal artefacts
/// datums whose whole encoding is one byte, two bytes, and non-canonical spellings of small values
const DATUMS_1: &[&[u8]] = &[&[0x00], &[0x17], &[0x20], &[0x37], &[0x80], &[0xa0], &[0x40]];
const DATUMS_2: &[&[u8]] = &[&[0x18, 0x18], &[0x38, 0x18], &[0x41, 0x00], &[0x81, 0x00], &[0x81, 0x80], &[0xa1, 0x00, 0x00], &[0xd8, 0x79, 0x80], &[0xd8, 0x66, 0x82, 0x05, 0x80]];
const DATUMS_NC: &[&[u8]] = &[&[0x18, 0x00], &[0x18, 0x01], &[0x19, 0x00, 0x01], &[0x38, 0x00], &[0x9f, 0xff], &[0xbf, 0xff], &[0x5f, 0xff],
    &[0x58, 0x00], &[0x98, 0x00], &[0xb8, 0x00], &[0xd8, 0x79, 0x9f, 0xff], &[0xd9, 0x00, 0x79, 0x80], &[0x1b, 0, 0, 0, 0, 0, 0, 0, 0]];
/// smallest native scripts: all [] / any [] / at-least 0 of [] / invalid_before 0 / invalid_hereafter 0, and spellings
const NATIVES: &[&[u8]] = &[&[0x82, 0x01, 0x80], &[0x82, 0x02, 0x80], &[0x83, 0x03, 0x00, 0x80], &[0x82, 0x04, 0x00], &[0x82, 0x05, 0x00]];
const NATIVES_NC: &[&[u8]] = &[&[0x82, 0x01, 0x9f, 0xff], &[0x9f, 0x01, 0x80, 0xff], &[0x82, 0x18, 0x01, 0x80], &[0x82, 0x04, 0x18, 0x00], &[0x82, 0x01, 0x98, 0x00]];
/// smallest plutus scripts (the content of the byte string is what is hashed)
const PLUTUS: &[&[u8]] = &[&[0x40], &[0x41, 0x00], &[0x58, 0x01, 0x00]];

fn bytes_item(content: &[u8]) -> Vec<u8> {
    let mut e = pallas_codec::minicbor::Encoder::new(Vec::new());
    e.bytes(content).unwrap();
    e.into_writer()
}

/// A real block of an Alonzo+ era with minimal artefacts spliced into transaction `i`:
/// datums and scripts into its witness set, and (Babbage+) outputs carrying the datums inline and the
/// scripts as reference scripts.  Everything else is the block's own wire bytes.
fn inject(buf: &[u8], tag: u64, i: usize, datums: &[&[u8]], natives: &[&[u8]], plutus: &[&[u8]], inline_only: bool) -> Result<Vec<u8>, String> {
    let mut root = cbor::parse(buf)?;
    let blk = match &mut root.kind {
        Kind::Array(top, _) => match &mut top[1].kind {
            Kind::Array(b, _) => b,
            _ => return Err("block".into()),
        },
        _ => return Err("wrapper".into()),
    };
    // witness set of tx i
    {
        let wits = match &mut blk[2].kind {
            Kind::Array(w, _) => &mut w[i],
            _ => return Err("witness sets".into()),
        };
        for (key, items) in [(4u8, datums), (1u8, natives)] {
            if items.is_empty() || inline_only {
                continue;
            }
            let arr = wits.map_entry_array(key).ok_or("witness entry")?;
            for d in items {
                arr.push(Node::verbatim(d));
            }
        }
        let keys: &[u8] = if tag >= 7 { &[3, 6, 7] } else if tag == 6 { &[3, 6] } else { &[3] };
        for key in keys {
            if plutus.is_empty() {
                continue;
            }
            let arr = wits.map_entry_array(*key).ok_or("witness entry")?;
            for p in plutus {
                arr.push(Node::verbatim(p));
            }
        }
    }
    // outputs of tx i (post-Alonzo map form only exists from Babbage on)
    if tag >= 6 {
        let body = match &mut blk[1].kind {
            Kind::Array(b, _) => &mut b[i],
            _ => return Err("bodies".into()),
        };
        let outs = body.map_entry_array(1).ok_or("outputs")?;
        let mut addr = vec![0x58, 0x1d, 0x61];
        addr.extend_from_slice(&[0x5a; 28]);
        let mut push_out = |extra_key: u8, extra: Vec<u8>| {
            let mut o = vec![0xa3, 0x00];
            o.extend_from_slice(&addr);
            o.extend_from_slice(&[0x01, 0x1a, 0x00, 0x0f, 0x42, 0x40, extra_key]);
            o.extend_from_slice(&extra);
            outs.push(Node::verbatim(&o));
        };
        for d in datums {
            let mut v = vec![0x82, 0x01, 0xd8, 0x18];
            v.extend_from_slice(&bytes_item(d));
            push_out(0x02, v);
        }
        for (t, list) in [(0u8, natives), (1u8, plutus), (2u8, plutus)] {
            for sc in list {
                let mut inner = vec![0x82, t];
                inner.extend_from_slice(sc);
                let mut v = vec![0xd8, 0x18];
                v.extend_from_slice(&bytes_item(&inner));
                push_out(0x03, v);
            }
        }
    }
    let mut rng = Rng::new(0);
    Ok(cbor::reserialize(&root, Style::Same, &mut rng).0)
}

fn pick_style(rng: &mut Rng, p: u64) -> Style {
    match rng.below(6) {
        0 | 1 => Style::FlipDefinite(p),
        2 | 3 => Style::Widen(p),
        4 => Style::ShuffleMaps(p + 2),
        _ => Style::UntagSets(p + 4),
    }
}

pub fn trace(args: &Args) {
    let mut rng = Rng::new(args.seed());
    let max_chunk = args.num("chunk-blocks", 0) as usize;
    let attempts = args.num("rewrites", 4);
    let mut run = Run {
        out: Ndjson::create(args.get("out")),
        bytes: HashMap::new(),
        digests: HashMap::new(),
        hashed: HashSet::new(),
        catted: HashSet::new(),
        seq: 0,
        ids: 0,
        by_kind: HashMap::new(),
        noncanon: 0,
        finds: 0,
    };
    let mut info = Ndjson::create(args.get("info"));
    let mut blocks = raw::corpus_files(".block");
    if max_chunk > 0 {
        let mut cb = raw::chunk_blocks(usize::MAX);
        if max_chunk < cb.len() {
            let (mut with_tx, mut empty): (Vec<_>, Vec<_>) =
                cb.drain(..).partition(|(_, b)| raw::parse_block(b).map(|r| !r.bodies.is_empty()).unwrap_or(true));
            rng.shuffle(&mut with_tx);
            rng.shuffle(&mut empty);
            with_tx.extend(empty);
            with_tx.truncate(max_chunk);
            cb = with_tx;
        }
        blocks.extend(cb);
    }
    let (mut tried, mut decoded, mut same) = (0u64, 0u64, 0u64);
    let mut by_focus: HashMap<&'static str, (u64, u64)> = HashMap::new();
    for (name, buf) in &blocks {
        match block_artefacts(&mut run, name, buf) {
            Ok(true) => {}
            Ok(false) => {
                info.ev(json!({"ev": "skip", "src": name, "why": "MultiEraBlock::decode failed"}));
                continue;
            }
            Err(e) => {
                info.ev(json!({"ev": "skip", "src": name, "why": e}));
                continue;
            }
        }
        // semantically equal re-encodings of the same block
        let root = match cbor::parse(buf) {
            Ok(r) => r,
            Err(_) => continue,
        };
        let rb = raw::parse_block(buf).unwrap();
        for k in 0..attempts {
            let mut foci: Vec<(&'static str, raw::Span)> = vec![("header", rb.header), ("block", (0, buf.len()))];
            if !rb.bodies.is_empty() {
                let i = rng.below(rb.bodies.len() as u64) as usize;
                foci.push(("body", rb.bodies[i]));
                foci.push(("witness", rb.wits[i]));
            }
            let (fname, focus) = *rng.pick(&foci);
            let p = rng.range(1, 4);
            let style = pick_style(&mut rng, p);
            let (nb, changed) = rewrite(buf, &root, focus, style, &mut rng);
            tried += 1;
            let e = by_focus.entry(fname).or_insert((0, 0));
            e.0 += 1;
            if changed == 0 || nb == *buf {
                same += 1;
                continue;
            }
            // same tree, different bytes: does the library still decode it, and what does it report?
            let src = format!("{name}~{fname}{k}");
            match block_artefacts(&mut run, &src, &nb) {
                Ok(true) => {
                    decoded += 1;
                    run.noncanon += 1;
                    by_focus.get_mut(fname).unwrap().1 += 1;
                }
                Ok(false) => {}
                Err(e) => info.ev(json!({"ev": "skip", "src": src, "why": e})),
            }
        }
    }
    // minimal artefacts (1-byte / 2-byte datums, empty containers, smallest scripts, canonical and not) spliced
    // into real transactions of every Alonzo+ era
    let inj_per_era = args.num("inject-blocks", 2) as usize;
    let (mut inj_tried, mut inj_decoded) = (0u64, 0u64);
    for tag in 5u64..=7 {
        let mut cands: Vec<&(String, Vec<u8>)> = blocks
            .iter()
            .filter(|(_, b)| raw::parse_block(b).map(|r| r.tag == tag && !r.bodies.is_empty() && r.wits.len() == r.bodies.len()).unwrap_or(false))
            .filter(|(_, b)| MultiEraBlock::decode(b).is_ok())
            .collect();
        cands.sort_by_key(|(_, b)| b.len());
        for (name, buf) in cands.into_iter().take(inj_per_era) {
            let n = raw::parse_block(buf).unwrap().bodies.len();
            let i = rng.below(n as u64) as usize;
            let mut groups: Vec<(String, Vec<&[u8]>, Vec<&[u8]>, Vec<&[u8]>)> = vec![
                ("one-byte".into(), DATUMS_1.to_vec(), NATIVES.to_vec(), PLUTUS.to_vec()),
                ("two-byte".into(), DATUMS_2.to_vec(), vec![], vec![]),
            ];
            for (k, d) in DATUMS_NC.iter().enumerate() {
                groups.push((format!("nc-datum{k}"), vec![*d], vec![], vec![]));
            }
            for (k, sc) in NATIVES_NC.iter().enumerate() {
                groups.push((format!("nc-native{k}"), vec![], vec![*sc], vec![]));
            }
            for (g, ds, ns, ps) in groups {
                inj_tried += 1;
                let src = format!("{name}+{g}@{i}");
                match inject(buf, tag, i, &ds, &ns, &ps, false) {
                    Ok(nb) => match block_artefacts(&mut run, &src, &nb) {
                        Ok(true) => inj_decoded += 1,
                        Ok(false) => info.ev(json!({"ev": "skip", "src": src, "why": "injected block not decoded by the library"})),
                        Err(e) => info.ev(json!({"ev": "skip", "src": src, "why": e})),
                    },
                    Err(e) => info.ev(json!({"ev": "skip", "src": src, "why": format!("inject: {e}")})),
                }
            }
        }
    }
    // stand-alone transactions
    for (name, buf) in raw::corpus_files(".tx") {
        let root = match cbor::parse(&buf) {
            Ok(r) => r,
            Err(_) => continue,
        };
        let items = match root.array() {
            Ok(a) if a.len() >= 2 => a,
            _ => continue,
        };
        let mut variants = vec![(name.clone(), buf.clone())];
        for k in 0..attempts {
            let p = rng.range(1, 4);
            let style = pick_style(&mut rng, p);
            let (nb, changed) = rewrite(&buf, &root, raw::span(&items[0]), style, &mut rng);
            tried += 1;
            if changed > 0 && nb != buf {
                variants.push((format!("{name}~body{k}"), nb));
            } else {
                same += 1;
            }
        }
        for (vi, (src, vb)) in variants.iter().enumerate() {
            let tx = match MultiEraTx::decode(vb) {
                Ok(t) => t,
                Err(_) => continue,
            };
            let r = cbor::parse(vb).unwrap();
            let it = r.array().unwrap();
            run.reset(src);
            let (body, wits) = (it[0].raw(vb), it[1].raw(vb));
            let res = if matches!(tx, MultiEraTx::Byron(_)) {
                run.artefact("tx", body, tx.hash().as_ref(), "MultiEraTx::hash", src);
                Ok(())
            } else {
                tx_artefacts(&mut run, src, 0, &tx, body, wits)
            };
            if let Err(e) = res {
                info.ev(json!({"ev": "skip", "src": src, "why": e}));
            } else if vi > 0 {
                decoded += 1;
                run.noncanon += 1;
            }
        }
    }
    // the tag-102 constructor with an indefinite outer array (general form [tag, fields]) as an inline datum
    // (inside #6.24 bytes; in a witness list the library does not decode it); kept at the end of the trace: one
    // block per era that has inline datums
    for tag in 6u64..=7 {
        let cand = blocks
            .iter()
            .filter(|(_, b)| raw::parse_block(b).map(|r| r.tag == tag && !r.bodies.is_empty() && r.wits.len() == r.bodies.len()).unwrap_or(false))
            .filter(|(_, b)| MultiEraBlock::decode(b).is_ok())
            .min_by_key(|(_, b)| b.len());
        if let Some((name, buf)) = cand {
            let src = format!("{name}+constr102-indef@0");
            inj_tried += 1;
            match inject(buf, tag, 0, &[&[0xd8, 0x66, 0x9f, 0x05, 0x80, 0xff]], &[], &[], true) {
                Ok(nb) => match block_artefacts(&mut run, &src, &nb) {
                    Ok(true) => inj_decoded += 1,
                    Ok(false) => info.ev(json!({"ev": "skip", "src": src, "why": "injected block not decoded by the library"})),
                    Err(e) => info.ev(json!({"ev": "skip", "src": src, "why": e})),
                },
                Err(e) => info.ev(json!({"ev": "skip", "src": src, "why": format!("inject: {e}")})),
            }
        }
    }
    let by_focus: HashMap<String, Value> = by_focus.into_iter().map(|(k, v)| (k.to_string(), json!({"tried": v.0, "decoded": v.1}))).collect();
    info.ev(json!({"ev": "stats", "blocks": blocks.len(), "ids": run.ids, "events": run.seq, "by_kind": run.by_kind,
                   "finds": run.finds, "injected_tried": inj_tried, "injected_decoded": inj_decoded, "rewrites_tried": tried, "rewrites_unchanged": same, "rewrites_decoded": decoded, "by_focus": by_focus}));
    info.finish();
    run.out.finish();
}
