#!/usr/bin/env python3
"""Generate src/fixtures_data.rs from the accepted (`successful_*`) tests of
/repo/pallas-validate/tests/*.rs.  Mechanical transcription (no retyping of hex
strings); run by hand when the upstream tests change:
    python3 tools/gen_fixtures.py /repo > src/fixtures_data.rs
The harness sub-command `fixtures-selfcheck` proves every generated fixture is
accepted by validate_tx."""
import re, sys

repo = sys.argv[1] if len(sys.argv) > 1 else "/repo"
T = repo + "/pallas-validate/tests/"

ATOM = re.compile(r"""
   (?P<txfile>include_str!\(\s*"\.\./\.\./test_data/(?P<txf>[\w.]+)"\s*\))
 | (?P<era>MultiEraTx::from_(?P<erafn>alonzo_compatible|babbage|conway|byron)\(\s*&\w+(?:,\s*Era::(?P<eraname>\w+))?\s*\))
 | (?P<listdef>let\s+(?:mut\s+)?(?P<lname>\w+)\s*:\s*[^=;]*=\s*(?:&\[|vec!\[))
 | (?P<call>\b(?P<fn>mk_utxo_for_\w+|mk_codec_safe_utxo_for_conway_tx|add_collateral_\w+|add_codec_safe_collateral_conway|add_ref_input_\w+|add_codec_safe_ref_input_conway)\((?P<args>[^;\[]*?)(?P<inl>&\[|\);))
 | (?P<addr>String::from\(\s*(?:"(?P<ahex>[0-9a-fA-F]+)"|(?P<aconst>[A-Z0-9_]+))\s*,?\s*\)(?:\s*,\s*(?P<bcn>[\d_]+)\s*,?\s*\))?)
 | (?P<coin>Value::Coin\(\s*(?P<cn>[\d_]+)\s*\))
 | (?P<ma>Value::Multiasset\(\s*(?P<mn>[\d_]+)\s*,)
 | (?P<policy>"(?P<pol>[0-9a-fA-F]{56})"\s*\.parse\(\))
 | (?P<asset>Bytes::from\(\s*hex::decode\(\s*"(?P<an>[0-9a-fA-F]*)"\s*,?\s*\)\s*\.unwrap\(\)\s*,?\s*\)\s*,\s*(?P<aq>[\d_]+)\s*[,)])
 | (?P<dhash>hex::decode\(\s*"(?P<dh>[0-9a-fA-F]{64})"\s*,?\s*\)\s*\.unwrap\(\)\s*\.as_slice\(\)\s*\.into\(\))
 | (?P<pdcbor>let\s+plutus_data_cbor[^=]*=\s*hex::decode\(\s*"(?P<pdc>[0-9a-fA-F]+)"\s*,?\s*\))
 | (?P<dbytes>let\s+datum_bytes\s*=\s*cbor_to_bytes\(\s*"(?P<dbh>[0-9a-fA-F]+)"\s*\))
 | (?P<inl1>DatumOption::Data\(CborWrap\(\s*KeepRaw::<PlutusData>::decode\(&mut\s+Decoder::new\(&plutus_data_cbor\))
 | (?P<inl2>Some\(datum_option(?:\.clone\(\))?\))
 | (?P<sref>ScriptRef::PlutusV(?P<sv>\d)Script\(\s*PlutusScript::<\d>\(\s*Bytes::from\(\s*hex::decode\(\s*"(?P<sh>[0-9a-fA-F]+)"\s*,?\s*\))
 | (?P<pp>prot_params:\s*MultiEraProtocolParameters::\w+\(\s*(?P<ppfn>\w+)\(\)\s*\))
 | (?P<magic>prot_magic:\s*(?P<mg>[\d_]+))
 | (?P<slot>block_slot:\s*(?P<sl>[\d_]+))
 | (?P<slot2>env\.block_slot\s*=\s*(?P<sl2>[\d_]+))
 | (?P<net>network_id:\s*(?P<nt>[\d_]+))
 | (?P<treas>treasury:\s*(?P<tr>[\d_]+))
 | (?P<resv>reserves:\s*(?P<rs>[\d_]+))
 | (?P<envmac>hardcoded_environment_values!\((?P<ov>[^)]*)\))
 | (?P<mary3env>&mary3_env\(\))
""", re.X)

def num(s): return int(s.replace("_", ""))

def functions(path):
    src = open(path).read()
    consts = dict(re.findall(r'const\s+(\w+):\s*&str\s*=\s*"([0-9a-fA-F]+)";', src))
    for m in re.finditer(r"#\[test\]\s*(?://[^\n]*\n\s*)*fn\s+(successful_\w+)\(\)\s*\{", src):
        start = m.end()
        nxt = src.find("#[test]", start)
        yield m.group(1), src[start:nxt if nxt > 0 else len(src)], consts

def kind_of(fn):
    if "collateral" in fn: return "collateral"
    if "ref_input" in fn: return "ref_inputs"
    return "inputs"

def parse(stem, name, body, consts):
    fx = dict(name="%s::%s" % (stem, name), era=None, tx_file=None, inputs=[], collateral=[], ref_inputs=[],
              params=None, magic=None, slot=None, net=None, treas=None, resv=None, setup="")
    lists, cur, curspec, policy = {}, None, None, None
    pdc = dbh = None
    for m in ATOM.finditer(body):
        g = m.lastgroup if False else None
        d = m.groupdict()
        if d["txfile"]: fx["tx_file"] = d["txf"]
        elif d["era"]:
            fx["era"] = {"babbage": "babbage", "conway": "conway", "byron": "byron"}.get(d["erafn"]) or d["eraname"].lower()
        elif d["listdef"]:
            lists[d["lname"]] = []; cur = lists[d["lname"]]
        elif d["call"]:
            k = kind_of(d["fn"])
            if d["inl"] == "&[":
                cur = fx[k]
            else:
                for a in re.findall(r"\w+", d["args"]):
                    if a in lists:
                        fx[k].extend(lists[a])
                cur = None
        elif d["addr"]:
            curspec = dict(addr=d["ahex"] or consts[d["aconst"]], coin=None, assets=[], dh=None, inl=None, sref=None)
            cur.append(curspec)
            if d["bcn"]: curspec["coin"] = num(d["bcn"])
        elif d["coin"]: curspec["coin"] = num(d["cn"])
        elif d["ma"]: curspec["coin"] = num(d["mn"])
        elif d["policy"]: policy = d["pol"]
        elif d["asset"]: curspec["assets"].append((policy, d["an"], num(d["aq"])))
        elif d["dhash"]: curspec["dh"] = d["dh"]
        elif d["pdcbor"]: pdc = d["pdc"]
        elif d["dbytes"]: dbh = d["dbh"]
        elif d["inl1"]: curspec["inl"] = pdc
        elif d["inl2"]: curspec["inl"] = dbh
        elif d["sref"]: curspec["sref"] = (int(d["sv"]), d["sh"])
        elif d["pp"]: fx["params"] = stem + "::" + d["ppfn"]
        elif d["magic"]: fx["magic"] = num(d["mg"])
        elif d["slot"]: fx["slot"] = num(d["sl"])
        elif d["slot2"]: fx["slot"] = num(d["sl2"])
        elif d["net"]: fx["net"] = num(d["nt"])
        elif d["treas"]: fx["treas"] = num(d["tr"])
        elif d["resv"]: fx["resv"] = num(d["rs"])
        elif d["envmac"]:
            ov = d["ov"].strip()
            if stem == "byron":
                fx.update(params="byron::default", magic=764824073, slot=6341, net=1)
            else:
                fx.update(params="shelley_ma::default" + ("" if not ov else "{" + re.sub(r"\s+", "", ov) + "}"),
                          magic=764824073, slot=fx["slot"] or 5281340, net=1, treas=261_254_564_000_000, resv=0)
        elif d["mary3env"]:
            fx.update(params="shelley_ma::mary3_env", magic=764824073, slot=29_035_358, net=1,
                      treas=374_930_989_230_000, resv=12_618_536_190_580_000)
    if name == "successful_mainnet_mary_tx_with_pool_reg": fx["setup"] = "mary2_rewards"
    if name == "successful_mainnet_mary_tx_with_stk_deleg": fx["setup"] = "mary3_pool"
    if name == "successful_mainnet_shelley_tx_with_changed_script": fx["setup"] = "shelley4_drop_wit"
    return fx

def opt(s): return "None" if s is None else 'Some("%s")' % s

def emit_spec(s):
    assets = ", ".join('("%s", "%s", %d)' % a for a in s["assets"])
    sref = "None" if s["sref"] is None else 'Some((%d, "%s"))' % s["sref"]
    return ('        OutSpec { addr: "%s", coin: %d, assets: &[%s], datum_hash: %s, inline_datum: %s, script_ref: %s },'
            % (s["addr"], s["coin"], assets, opt(s["dh"]), opt(s["inl"]), sref))

out = ["// GENERATED by tools/gen_fixtures.py from /repo/pallas-validate/tests/*.rs -- do not edit by hand.",
       "use crate::fixtures_types::{FixtureSpec, OutSpec};", "",
       "pub fn fixtures() -> Vec<FixtureSpec> {", "    vec!["]
for stem in ["byron", "shelley_ma", "alonzo", "babbage", "conway"]:
    for name, body, consts in functions(T + stem + ".rs"):
        fx = parse(stem, name, body, consts)
        for k in ("era", "tx_file", "params", "magic", "slot", "net"):
            assert fx[k] is not None, (fx["name"], k)
        assert fx["inputs"], fx["name"]
        acnt = "None" if fx["treas"] is None else "Some((%d, %d))" % (fx["treas"], fx["resv"])
        out.append("    FixtureSpec {")
        out.append('      name: "%s", era: "%s", tx_file: "%s",' % (fx["name"], fx["era"], fx["tx_file"]))
        for k in ("inputs", "collateral", "ref_inputs"):
            out.append("      %s: &[" % k)
            out.extend(emit_spec(s) for s in fx[k])
            out.append("      ],")
        out.append('      params: "%s", prot_magic: %d, block_slot: %d, network_id: %d, acnt: %s, setup: "%s",'
                   % (fx["params"], fx["magic"], fx["slot"], fx["net"], acnt, fx["setup"]))
        out.append("    },")
out += ["    ]", "}", ""]
print("\n".join(out))
