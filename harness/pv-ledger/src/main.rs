//! Conformance drivers (pv-ledger): phase-1 ledger validation (C33-C39).
#![recursion_limit = "512"]
mod c08v;
mod case;
mod cbor;
mod fixtures_data;
mod fixtures_types;
mod fx_selfcheck;
mod mutate;
mod params;
mod rules;
mod synth;
mod trace;
mod vtxs;

fn main() {
    let args = pv_core::Args::parse();
    match args.cmd.as_str() {
        "fixtures-selfcheck" => fx_selfcheck::run(&args),
        "phase1-trace" => trace::run(&args),
        "validate-txs-trace" => vtxs::run(&args),
        "phase1-synth" => synth::run(&args),
        "c08-validator" => c08v::run(&args),
        other => pv_core::die(&format!("unknown sub-command {other}")),
    }
}
