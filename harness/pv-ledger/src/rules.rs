//! C38: one mutator per implemented ledger rule.  Each takes an accepted case
//! and returns a copy that violates (as far as possible only) that rule; TLC
//! re-derives from the independent projection that the rule is indeed broken
//! (Phase1!Breaks) and demands a rejection.
use crate::case::Case;
use crate::cbor::Cb;
use crate::mutate::{val_coin, val_set_asset, val_set_coin, Mutant};
use pv_core::serde_json::Value;
use pv_core::Rng;

type Mutator = fn(&Case, &Value) -> Option<Case>;

fn strs(v: &Value) -> Vec<String> {
    v.as_array().map(|a| a.iter().filter_map(|x| x.as_str().map(|s| s.to_string())).collect()).unwrap_or_default()
}

fn ins_non_empty(c: &Case, _: &Value) -> Option<Case> {
    let mut c = c.clone();
    if c.is_byron() {
        c.body_mut().items_mut()?.get_mut(0)?.items_mut()?.clear();
    } else {
        c.body_mut().get_mut(0)?.items_mut()?.clear();
    }
    c.resign();
    Some(c)
}
fn remove_utxo(c: &Case, key: u64) -> Option<Case> {
    let mut c = c.clone();
    let u = c.utxo_index_of(key, 0)?;
    c.utxo.remove(u);
    Some(c)
}
fn ins_in_utxo(c: &Case, _: &Value) -> Option<Case> {
    remove_utxo(c, 0)
}
fn coll_in_utxo(c: &Case, _: &Value) -> Option<Case> {
    remove_utxo(c, 13)
}
fn ref_in_utxo(c: &Case, _: &Value) -> Option<Case> {
    if !matches!(c.era.as_str(), "babbage" | "conway") {
        return None;
    }
    if let Some(x) = remove_utxo(c, 18) {
        return Some(x);
    }
    let mut c = c.clone();
    c.body_mut().set(18, Cb::array(vec![Cb::array(vec![Cb::bytes(&[0xabu8; 32]), Cb::uint(0)])]));
    c.resign();
    Some(c)
}
fn validity_upper(c: &Case, _: &Value) -> Option<Case> {
    if c.is_byron() {
        return None;
    }
    let mut c = c.clone();
    match c.body().get(3).and_then(|x| x.as_u64()) {
        Some(ttl) => c.env.slot = ttl + 1,
        None => {
            let s = c.env.slot;
            c.body_mut().set(3, Cb::uint(s - 1));
            c.resign();
        }
    }
    Some(c)
}
fn validity_lower(c: &Case, _: &Value) -> Option<Case> {
    if !matches!(c.era.as_str(), "alonzo" | "babbage" | "conway") {
        return None;
    }
    let mut c = c.clone();
    let s = c.env.slot;
    c.body_mut().set(8, Cb::uint(s + 1));
    c.resign();
    Some(c)
}
fn min_ada(c: &Case, _: &Value) -> Option<Case> {
    let mut c = c.clone();
    let n = c.n_outputs();
    if n == 0 {
        return None;
    }
    let coin = c.out_coin(0);
    val_set_coin(c.out_value_mut(0)?, 0);
    if n >= 2 {
        let other = c.out_coin(1);
        val_set_coin(c.out_value_mut(1)?, other.checked_add(coin)?);
    } else if !c.is_byron() {
        let f = c.fee();
        c.set_fee(f.checked_add(coin)?);
    }
    c.resign();
    Some(c)
}
fn value_size(c: &Case, _: &Value) -> Option<Case> {
    if !matches!(c.era.as_str(), "alonzo" | "babbage" | "conway") {
        return None;
    }
    let mut c = c.clone();
    c.env.ov.max_value_size = Some(0);
    Some(c)
}
fn out_network(c: &Case, _: &Value) -> Option<Case> {
    if c.is_byron() {
        return None;
    }
    let mut c = c.clone();
    let a = c.out_addr_mut(0)?;
    if let Cb::Bytes(b, _) = a {
        if b.is_empty() || b[0] >> 4 > 7 {
            return None;
        }
        b[0] ^= 1;
    }
    c.resign();
    Some(c)
}
fn tx_network(c: &Case, _: &Value) -> Option<Case> {
    if !matches!(c.era.as_str(), "alonzo" | "babbage" | "conway") {
        return None;
    }
    let mut c = c.clone();
    let other = 1 - (c.env.net as u64 & 1);
    c.body_mut().set(15, Cb::uint(other));
    c.resign();
    Some(c)
}
fn plutus_wit(t: &Value) -> bool {
    t["plutusWit"].as_bool().unwrap_or(false)
}
fn collateral_count_max(c: &Case, t: &Value) -> Option<Case> {
    if !plutus_wit(t) || c.input_refs(13).is_empty() {
        return None;
    }
    let mut c = c.clone();
    c.env.ov.max_collateral_inputs = Some(0);
    Some(c)
}
fn collateral_count_none(c: &Case, t: &Value) -> Option<Case> {
    if !plutus_wit(t) {
        return None;
    }
    let mut c = c.clone();
    c.body_mut().get_mut(13)?.items_mut()?.clear();
    c.resign();
    Some(c)
}
fn collateral_kind(c: &Case, t: &Value) -> Option<Case> {
    if !plutus_wit(t) {
        return None;
    }
    let mut c = c.clone();
    let u = c.utxo_index_of(13, 0)?;
    if let Cb::Bytes(b, _) = c.utxo_addr_mut(u)? {
        if b.len() < 29 {
            return None;
        }
        b[0] = 0x70 | (b[0] & 0x0f);
        b.truncate(29);
    }
    Some(c)
}
fn collateral_assets(c: &Case, t: &Value) -> Option<Case> {
    if !plutus_wit(t) || c.body().get(16).is_some() {
        return None;
    }
    let mut c = c.clone();
    let u = c.utxo_index_of(13, 0)?;
    val_set_asset(c.utxo_value_mut(u)?, &[0x77u8; 28], b"C", Cb::uint(5));
    Some(c)
}
fn collateral_amount(c: &Case, t: &Value) -> Option<Case> {
    if !plutus_wit(t) {
        return None;
    }
    let mut c = c.clone();
    for k in 0..c.input_refs(13).len() {
        let u = c.utxo_index_of(13, k)?;
        val_set_coin(c.utxo_value_mut(u)?, 1);
    }
    c.body_mut().remove(16);
    c.body_mut().remove(17);
    c.resign();
    Some(c)
}
/// collateral exactly one lovelace below the required share: the largest `paid` with 100*paid < fee*pct
fn collateral_boundary(c: &Case, t: &Value) -> Option<Case> {
    if !plutus_wit(t) || c.input_refs(13).len() != 1 {
        return None;
    }
    let pct = t["pp"]["collPct"].as_u64()?;
    let need = c.fee() as u128 * pct as u128; // 100 * paid must reach this
    if need == 0 {
        return None;
    }
    let paid = ((need - 1) / 100) as u64;
    let mut c = c.clone();
    let u = c.utxo_index_of(13, 0)?;
    if c.utxo[u].role != "coll" {
        return None; // the collateral input is also spent: changing it would unbalance the transaction
    }
    let ret = match c.body().get(16) {
        Some(o @ Cb::Map(..)) => o.get(1).map(val_coin).unwrap_or(0),
        Some(o) => o.items().and_then(|i| i.get(1)).map(val_coin).unwrap_or(0),
        None => 0,
    };
    val_set_coin(c.utxo_value_mut(u)?, paid.checked_add(ret)?);
    if c.body().get(17).is_some() {
        c.body_mut().set(17, Cb::uint(paid));
        c.resign();
    }
    Some(c)
}
/// output 0 holds one lovelace less than the floor of the minimum-ada rule (the rest goes to a sibling output
/// or the fee); `datum`: the output also carries a datum hash, which Alonzo charges for
fn min_ada_floor(c: &Case, t: &Value, datum: bool) -> Option<Case> {
    if c.is_byron() || c.n_outputs() == 0 {
        return None;
    }
    if datum && !matches!(c.era.as_str(), "alonzo" | "babbage" | "conway") {
        return None;
    }
    let unit = crate_big(&t["pp"]["coinsPerByte"])?;
    let units = t["pp"]["minAdaUnits"].as_u64()? + if datum { t["pp"]["dhUnits"].as_u64()? } else { 0 };
    let floor = unit.checked_mul(units)?;
    if floor == 0 {
        return None;
    }
    let mut c = c.clone();
    // pick an ada-only output so that only the ada amount decides
    let n = c.n_outputs();
    let i = (0..n).find(|i| matches!(c.clone().out_value_mut(*i), Some(Cb::UInt(..))))?;
    let coin = c.out_coin(i);
    let target = floor - 1;
    val_set_coin(c.out_value_mut(i)?, target);
    if datum {
        let o = c.body_mut().get_mut(1)?.items_mut()?.get_mut(i)?;
        match o {
            Cb::Map(es, _) => {
                es.retain(|(k, _)| k.as_u64() != Some(2));
                es.push((Cb::uint(2), Cb::array(vec![Cb::uint(0), Cb::bytes(&[0x11u8; 32])])));
            }
            _ => {
                let it = o.items_mut()?;
                it.truncate(2);
                it.push(Cb::bytes(&[0x11u8; 32]));
            }
        }
    }
    if datum {
        c.pad_fee(2000); // the datum hash makes the transaction 34 bytes larger
    }
    // keep value preserved: the difference goes to another output, or to the fee
    let diff = coin as i128 - target as i128;
    if let Some(j) = (0..n).find(|j| *j != i) {
        let other = c.out_coin(j) as i128 + diff;
        if other <= 0 {
            return None;
        }
        val_set_coin(c.out_value_mut(j)?, other as u64);
    } else {
        let f = c.fee() as i128 + diff;
        if f < 0 {
            return None;
        }
        c.set_fee(f as u64);
    }
    c.resign();
    Some(c)
}
fn min_ada_floor_plain(c: &Case, t: &Value) -> Option<Case> {
    min_ada_floor(c, t, false)
}
fn min_ada_floor_datum(c: &Case, t: &Value) -> Option<Case> {
    min_ada_floor(c, t, true)
}
fn crate_big(v: &Value) -> Option<u64> {
    pv_core::big_from_json(v).parse::<u64>().ok()
}
fn collateral_annotation(c: &Case, t: &Value) -> Option<Case> {
    if !plutus_wit(t) || !matches!(c.era.as_str(), "babbage" | "conway") {
        return None;
    }
    let mut c = c.clone();
    let mut total: u64 = 0;
    for k in 0..c.input_refs(13).len() {
        let u = c.utxo_index_of(13, k)?;
        total = total.checked_add(val_coin(c.utxo_value_mut(u)?))?;
    }
    if total == 0 {
        return None;
    }
    let ret = match c.body().get(16) {
        Some(o) => match o {
            Cb::Map(..) => o.get(1).map(val_coin).unwrap_or(0),
            _ => o.items().and_then(|i| i.get(1)).map(val_coin).unwrap_or(0),
        },
        None => 0,
    };
    c.body_mut().set(17, Cb::uint(total.checked_sub(ret)? + 1));
    c.resign();
    Some(c)
}
fn mint_policy(c: &Case, _: &Value) -> Option<Case> {
    if !c.supports_mint() || c.n_outputs() == 0 {
        return None;
    }
    let mut c = c.clone();
    c.add_mint(&[0x99u8; 28], b"Q", 1);
    val_set_asset(c.out_value_mut(0)?, &[0x99u8; 28], b"Q", Cb::uint(1));
    c.resign();
    Some(c)
}
fn script_witness(c: &Case, t: &Value) -> Option<Case> {
    let need = strs(&t["needScripts"]);
    let wit = strs(&t["witScripts"]);
    let refs = strs(&t["refScripts"]);
    if !need.iter().any(|s| wit.contains(s) && !refs.contains(s)) {
        return None;
    }
    let mut c = c.clone();
    for k in [1u64, 3, 6, 7] {
        c.wits_mut().remove(k);
    }
    Some(c)
}
fn datum_witness(c: &Case, t: &Value) -> Option<Case> {
    if !t["plutus"].as_bool().unwrap_or(false) || strs(&t["inDatumHashes"]).is_empty() {
        return None;
    }
    let mut c = c.clone();
    c.wits_mut().remove(4)?;
    Some(c)
}
/// the spent script output asks for ANOTHER datum (its datum hash is changed in the UTxO) while the witness
/// datum stays and stays referenced (an output now carries its hash), so only the input's datum is missing
fn datum_hash_changed(c: &Case, t: &Value) -> Option<Case> {
    if !t["plutus"].as_bool().unwrap_or(false) {
        return None;
    }
    let want = strs(&t["inDatumHashes"]).first()?.clone();
    let orig = pv_core::unhex(&want);
    let mut c = c.clone();
    // find the spent entry carrying that datum hash
    let mut done = false;
    for k in 0..c.input_refs(0).len() {
        let u = c.utxo_index_of(0, k)?;
        let e = &mut c.utxo[u];
        let slot = match e.kind {
            "alonzo" => e.out.items_mut().and_then(|i| i.get_mut(2)),
            _ => e.out.get_mut(2).and_then(|d| d.items_mut()).and_then(|i| i.get_mut(1)),
        };
        if let Some(Cb::Bytes(b, _)) = slot {
            if b[..] == orig[..] {
                b[0] ^= 0xff;
                done = true;
                break;
            }
        }
    }
    if !done || c.n_outputs() == 0 {
        return None;
    }
    let o = c.body_mut().get_mut(1)?.items_mut()?.get_mut(0)?;
    match o {
        Cb::Map(es, _) => {
            if es.iter().any(|(k, _)| k.as_u64() == Some(2)) {
                return None;
            }
            es.push((Cb::uint(2), Cb::array(vec![Cb::uint(0), Cb::bytes(&orig)])));
        }
        _ => {
            let it = o.items_mut()?;
            if it.len() > 2 {
                return None;
            }
            it.push(Cb::bytes(&orig));
        }
    }
    c.pad_fee_and_collateral(2000)?;
    c.resign();
    Some(c)
}
fn redeemer_coverage(c: &Case, t: &Value) -> Option<Case> {
    if !t["plutus"].as_bool().unwrap_or(false) {
        return None;
    }
    let mut c = c.clone();
    let r = c.wits_mut().get_mut(5)?;
    match r {
        Cb::Map(es, _) => es.push((
            Cb::array(vec![Cb::uint(0), Cb::uint(999)]),
            Cb::array(vec![Cb::uint(0), Cb::array(vec![Cb::uint(0), Cb::uint(0)])]),
        )),
        _ => r.items_mut()?.push(Cb::array(vec![Cb::uint(0), Cb::uint(999), Cb::uint(0), Cb::array(vec![Cb::uint(0), Cb::uint(0)])])),
    }
    Some(c)
}
fn aux_hash(c: &Case, _: &Value) -> Option<Case> {
    if c.is_byron() {
        return None;
    }
    let mut c = c.clone();
    match c.body_mut().get_mut(7) {
        Some(Cb::Bytes(b, _)) if !b.is_empty() => {
            let k = 5 % b.len();
            b[k] ^= 0x10
        }
        _ => c.body_mut().set(7, Cb::bytes(&[0u8; 32])),
    }
    c.resign();
    Some(c)
}
fn aux_removed(c: &Case, _: &Value) -> Option<Case> {
    if c.is_byron() || c.body().get(7).is_none() {
        return None;
    }
    let mut c = c.clone();
    c.tx.items_mut()?[3] = Cb::null();
    Some(c)
}
fn script_integrity(c: &Case, _: &Value) -> Option<Case> {
    if c.is_byron() {
        return None;
    }
    let mut c = c.clone();
    match c.body_mut().get_mut(11) {
        Some(Cb::Bytes(b, _)) if !b.is_empty() => b[0] ^= 0x01,
        _ => return None,
    }
    c.resign();
    Some(c)
}
fn language(c: &Case, t: &Value) -> Option<Case> {
    if c.era != "conway" {
        return None;
    }
    let l = t["langsUsed"].as_array()?.first()?.as_u64()?;
    let mut c = c.clone();
    c.env.ov.drop_cost_model = Some(l as u8);
    Some(c)
}

/// Conway: two zero-lovelace withdrawals, one from a key credential and one from the credential of the
/// transaction's own Plutus script, plus a Reward redeemer with pointer `ptr`; `key_first`: the key hash
/// sorts below the script hash bytewise.  The script withdrawal is index 0 in the ledger's order (script
/// credentials come first), so ptr = 0 is the valid transaction and ptr = 1 points at the key withdrawal.
fn withdrawal_pointer(c: &Case, t: &Value, key_low: bool, ptr: u64) -> Option<Case> {
    if c.era != "conway" || !plutus_wit(t) || c.body().get(5).is_some() {
        return None;
    }
    let script_hash = pv_core::unhex(strs(&t["needScripts"]).first()?);
    let key_hash = [if key_low { 0x00u8 } else { 0xffu8 }; 28];
    let net = c.env.net & 1;
    let acct = |script: bool, h: &[u8]| [&[(if script { 0xf0 } else { 0xe0 }) | net][..], h].concat();
    let mut c = c.clone();
    c.body_mut().set(5, Cb::map(vec![(Cb::bytes(&acct(false, &key_hash)), Cb::uint(0)), (Cb::bytes(&acct(true, &script_hash)), Cb::uint(0))]));
    let r = c.wits_mut().get_mut(5)?;
    match r {
        Cb::Map(es, _) => es.push((Cb::array(vec![Cb::uint(3), Cb::uint(ptr)]), Cb::array(vec![Cb::uint(0), Cb::array(vec![Cb::uint(1), Cb::uint(1)])]))),
        _ => r.items_mut()?.push(Cb::array(vec![Cb::uint(3), Cb::uint(ptr), Cb::uint(0), Cb::array(vec![Cb::uint(1), Cb::uint(1)])])),
    }
    c.pad_fee_and_collateral(8000)?;
    if !crate::mutate::conway_fix_script_data_hash(&mut c) {
        return None;
    }
    c.resign();
    Some(c)
}
fn wd_low_ok(c: &Case, t: &Value) -> Option<Case> {
    withdrawal_pointer(c, t, true, 0)
}
fn wd_high_ok(c: &Case, t: &Value) -> Option<Case> {
    withdrawal_pointer(c, t, false, 0)
}
fn wd_low_wrong(c: &Case, t: &Value) -> Option<Case> {
    withdrawal_pointer(c, t, true, 1)
}
fn wd_high_wrong(c: &Case, t: &Value) -> Option<Case> {
    withdrawal_pointer(c, t, false, 1)
}

const TABLE: &[(&str, &str, Mutator)] = &[
    ("InsNonEmpty", "no-inputs", ins_non_empty),
    ("InsInUtxo", "spent-output-missing", ins_in_utxo),
    ("CollInUtxo", "collateral-output-missing", coll_in_utxo),
    ("RefInUtxo", "reference-output-missing", ref_in_utxo),
    ("ValidityUpper", "slot-after-ttl", validity_upper),
    ("ValidityLower", "slot-before-start", validity_lower),
    ("MinAda", "output-coin-0", min_ada),
    ("MinAda", "output-coin=floor-1", min_ada_floor_plain),
    ("MinAda", "datum-hash-output-coin=floor-1", min_ada_floor_datum),
    ("ValueSize", "max-value-size-0", value_size),
    ("OutNetwork", "output-address-other-network", out_network),
    ("TxNetwork", "body-network-id-other", tx_network),
    ("CollateralCount", "max-collateral-inputs-0", collateral_count_max),
    ("CollateralCount", "no-collateral-inputs", collateral_count_none),
    ("CollateralKind", "collateral-script-locked", collateral_kind),
    ("CollateralAssets", "collateral-with-assets", collateral_assets),
    ("CollateralAmount", "collateral-1-lovelace", collateral_amount),
    ("CollateralAmount", "collateral=required-1", collateral_boundary),
    ("CollateralAnnotation", "total-collateral+1", collateral_annotation),
    ("MintPolicy", "mint-unknown-policy", mint_policy),
    ("ScriptWitness", "scripts-removed", script_witness),
    ("DatumWitness", "datums-removed", datum_witness),
    ("DatumWitness", "input-datum-hash-changed", datum_hash_changed),
    ("RedeemerCoverage", "extra-redeemer", redeemer_coverage),
    ("", "withdrawals/key-hash-low/reward-pointer-0", wd_low_ok),
    ("", "withdrawals/key-hash-high/reward-pointer-0", wd_high_ok),
    ("RedeemerCoverage", "withdrawals/key-hash-low/reward-pointer-1", wd_low_wrong),
    ("RedeemerCoverage", "withdrawals/key-hash-high/reward-pointer-1", wd_high_wrong),
    ("AuxHash", "aux-hash-changed", aux_hash),
    ("AuxHash", "aux-data-removed", aux_removed),
    ("ScriptIntegrity", "script-data-hash-changed", script_integrity),
    ("Language", "cost-model-removed", language),
];

pub fn c38(base: &Case, rng: &mut Rng, thorough: bool) -> Vec<Mutant> {
    let t = base.run().proj;
    let mut out = vec![];
    for (rule, class, f) in TABLE {
        if let Some(c) = f(base, &t) {
            out.push(Mutant { class: class.to_string(), rule: rule.to_string(), boundary: false, case: c });
        }
    }
    // random pairs: the second mutator is applied on top of the first (the first rule is the labelled one)
    let pairs = if thorough { 12 } else { 4 };
    for _ in 0..pairs {
        let (r1, c1, f1) = rng.pick(TABLE);
        let (r2, c2, f2) = rng.pick(TABLE);
        if r1 == r2 {
            continue;
        }
        let Some(a) = f1(base, &t) else { continue };
        // env-only mutators commute; tx mutators re-sign, so the order does not matter for the verdict
        let Some(b) = f2(&a, &t) else { continue };
        // a pair carries no rule label: one mutator may undo the other's fact, so TLC only demands a
        // rejection when the projection shows some broken rule
        out.push(Mutant { class: format!("{c1}+{c2}"), rule: String::new(), boundary: false, case: b });
    }
    out
}

