//! C38: one mutator per implemented ledger rule (filled in below).
use crate::case::Case;
use crate::mutate::Mutant;
use pv_core::Rng;

pub fn c38(_base: &Case, _rng: &mut Rng, _thorough: bool) -> Vec<Mutant> {
    vec![]
}
