//! C39 `validate-txs-trace`: random sequences of valid / invalid Shelley-MA and
//! Alonzo fixtures through the real `validate_txs`; the certificate state is
//! fingerprinted (canonical structural dump -> interned id) before and after
//! every call, and the reference fold is obtained by applying `validate_tx` one
//! transaction at a time to a clone.
use crate::case::Case;
use crate::cbor::Cb;
use crate::fixtures_data::fixtures;
use pallas_traverse::{Era, MultiEraInput, MultiEraOutput, MultiEraTx};
use pallas_validate::phase1::{validate_tx, validate_txs};
use pallas_validate::utils::{CertState, UTxOs};
use pv_core::{json, Args, Ndjson, Rng};
use std::borrow::Cow;
use std::collections::HashMap;

fn dump(cs: &CertState) -> String {
    fn sorted<T: std::fmt::Debug>(it: impl Iterator<Item = T>) -> Vec<String> {
        let mut v: Vec<String> = it.map(|x| format!("{x:?}")).collect();
        v.sort();
        v
    }
    let p = &cs.pstate;
    let d = &cs.dstate;
    format!(
        "pools{:?} fut{:?} ret{:?} rew{:?} del{:?} ptr{:?} fgd{:?} gd{:?} ir0{:?} ir1{:?}",
        sorted(p.pool_params.iter()),
        sorted(p.fut_pool_params.iter()),
        sorted(p.retiring.iter()),
        sorted(d.rewards.iter()),
        sorted(d.delegations.iter()),
        sorted(d.ptrs.iter().map(|(k, v)| (k.slot, k.tx_ix, k.cert_ix, v))),
        sorted(d.fut_gen_delegs.iter()),
        sorted(d.gen_delegs.iter()),
        sorted(d.inst_rewards.0.iter()),
        sorted(d.inst_rewards.1.iter()),
    )
}

struct Intern(HashMap<String, usize>);
impl Intern {
    fn id(&mut self, cs: &CertState) -> usize {
        let n = self.0.len();
        *self.0.entry(dump(cs)).or_insert(n)
    }
}

struct Variant {
    name: String,
    bytes: Vec<u8>,
    era: String,
}

fn short(name: &str) -> String {
    name.rsplit("::").next().unwrap_or(name).replace("successful_", "").replace("mainnet_", "")
}

/// the transaction variants of one group (all valid under one environment) + the shared UTxO / environment case
fn group(which: &str) -> (Vec<Variant>, Case) {
    let mut cases: Vec<Case> = fixtures()
        .iter()
        .filter(|f| f.name.starts_with(which))
        .map(|f| {
            let mut c = Case::from_fixture(f);
            c.rekey();
            c
        })
        .collect();
    let renames: Vec<(Vec<u8>, Vec<u8>)> = cases.iter().flat_map(|c| c.renames.clone()).collect();
    let mut env_case = cases.iter().find(|c| c.setup == "mary2_rewards").cloned().unwrap_or_else(|| cases[0].clone());
    if which == "shelley_ma" {
        env_case.env.params = "shelley_ma::default{max_transaction_size=16384}".into();
        env_case.env.slot = 19282133;
    }
    let mut variants = vec![];
    let mut utxo = vec![];
    for c in cases.iter_mut() {
        c.apply_renames(&renames);
        // one slot for all: push every time-to-live beyond it
        if c.body().get(3).is_some() {
            c.body_mut().set(3, Cb::uint(env_case.env.slot + 1_000_000));
        }
        c.resign();
        for u in &c.utxo {
            if !utxo.iter().any(|x: &crate::case::UtxoEntry| x.hash == u.hash && x.idx == u.idx) {
                utxo.push(u.clone());
            }
        }
        variants.push(Variant { name: short(&c.name), bytes: c.tx_bytes(), era: c.era.clone() });
        // invalid siblings: (a) fee raised by one lovelace -> value not preserved (detected after the certificates
        // were processed), (b) first witness signature corrupted
        let mut bad = c.clone();
        let f = bad.fee();
        bad.set_fee(f + 1);
        bad.resign();
        variants.push(Variant { name: format!("{}!fee+1", short(&c.name)), bytes: bad.tx_bytes(), era: c.era.clone() });
        let mut bad = c.clone();
        if let Some(w) = bad.vkey_wits_mut() {
            if let Some(Cb::Bytes(sig, _)) = w[0].items_mut().map(|x| &mut x[1]) {
                sig[7] ^= 0x20;
            }
        }
        variants.push(Variant { name: format!("{}!badsig", short(&c.name)), bytes: bad.tx_bytes(), era: c.era.clone() });
    }
    env_case.utxo = utxo;
    (variants, env_case)
}

fn era_of(s: &str) -> Era {
    match s {
        "shelley" => Era::Shelley,
        "allegra" => Era::Allegra,
        "mary" => Era::Mary,
        _ => Era::Alonzo,
    }
}


#[allow(clippy::too_many_arguments)]
fn one_call(
    seq: &[usize],
    cs: &mut CertState,
    metxs: &[MultiEraTx],
    variants: &[Variant],
    env: &pallas_validate::utils::Environment,
    utxos: &UTxOs,
    intern: &mut Intern,
    log: &mut Ndjson,
    stats: &mut HashMap<&'static str, u64>,
) {
                // reference fold: validate_tx one at a time on a clone
                let mut refstate = cs.clone();
                for (ix, &k) in seq.iter().enumerate() {
                    let before = intern.id(&refstate);
                    let mut trial = refstate.clone();
                    let r = pv_core::catch(|| validate_tx(&metxs[k], ix as u32, env, utxos, &mut trial));
                    let ok = matches!(r, Ok(Ok(())));
                    let after = intern.id(&trial);
                    log.ev(json!({"ev": "step", "seq": log.lines + 1, "st": before, "tx": variants[k].name, "ix": ix, "ok": ok, "st2": after,
                                  "detail": match &r { Ok(Ok(())) => String::new(), Ok(Err(e)) => format!("{e:?}"), Err(p) => format!("panic {p}") }}));
                    if !ok {
                        break;
                    }
                    refstate = trial;
                }
                let before = intern.id(cs);
                let slice: Vec<MultiEraTx> = seq.iter().map(|&k| metxs[k].clone()).collect();
                let r = pv_core::catch(|| validate_txs(&slice, env, utxos, cs));
                let (res, detail) = match &r {
                    Ok(Ok(())) => ("Ok", String::new()),
                    Ok(Err(e)) => ("Err", format!("{e:?}")),
                    Err(p) => ("panic", p.clone()),
                };
                *stats.entry(res).or_default() += 1;
                let after = intern.id(cs);
                log.ev(json!({"ev": "call", "seq": log.lines + 1, "st": before, "txs": seq.iter().map(|&k| variants[k].name.clone()).collect::<Vec<_>>(),
                              "res": res, "st2": after, "detail": detail,
                              "pools": cs.pstate.pool_params.len(), "rewards": cs.dstate.rewards.len(), "delegations": cs.dstate.delegations.len()}));
}

pub fn run(args: &Args) {
    crate::case::install_panic_hook();
    let seed = args.seed();
    let runs = args.num("runs", 6);
    let calls = args.num("calls", 12);
    let mut log = Ndjson::create(args.get("out"));
    let mut intern = Intern(HashMap::new());
    let mut stats: HashMap<&'static str, u64> = HashMap::new();
    for (gi, which) in ["shelley_ma", "alonzo"].iter().enumerate() {
        let (variants, env_case) = group(which);
        // decode everything once; the decoded transactions borrow from `variants`
        let txs: Vec<pallas_primitives::alonzo::Tx> =
            variants.iter().map(|v| pallas_codec::minicbor::decode(&v.bytes).unwrap_or_else(|e| pv_core::die(&format!("{}: {e}", v.name)))).collect();
        let metxs: Vec<MultiEraTx> = txs.iter().zip(variants.iter()).map(|(t, v)| MultiEraTx::from_alonzo_compatible(t, era_of(&v.era))).collect();
        let outs: Vec<Vec<u8>> = env_case.utxo.iter().map(|u| u.out.to_vec()).collect();
        let mut utxos: UTxOs = UTxOs::new();
        for (u, o) in env_case.utxo.iter().zip(outs.iter()) {
            let out = MultiEraOutput::decode(Era::Alonzo, o).unwrap_or_else(|e| pv_core::die(&format!("utxo: {e}")));
            let input = MultiEraInput::AlonzoCompatible(Box::new(Cow::Owned(pallas_primitives::alonzo::TransactionInput {
                transaction_id: pallas_crypto::hash::Hash::<32>::from(u.hash),
                index: u.idx,
            })));
            utxos.insert(input, out);
        }
        let env = env_case.environment();
        // directed: every ordered pair / triple of valid variants from a fresh state (successful multi-transaction
        // sequences beginning and ending with state-changing as well as neutral transactions)
        let valid: Vec<usize> = (0..variants.len()).step_by(3).collect();
        let mut directed: Vec<Vec<usize>> = vec![];
        for &a in &valid {
            for &b in &valid {
                directed.push(vec![a, b]);
            }
        }
        for &a in &valid {
            directed.push(vec![a, valid[0], valid[valid.len() - 1]]);
        }
        for seq in directed {
            let mut cs: CertState = env_case.cert_state();
            log.ev(json!({"ev": "reset", "seq": log.lines + 1, "group": which, "st": intern.id(&cs)}));
            one_call(&seq, &mut cs, &metxs, &variants, &env, &utxos, &mut intern, &mut log, &mut stats);
        }
        for run in 0..runs {
            let mut rng = Rng::new(seed.wrapping_mul(7919).wrapping_add(run * 31 + gi as u64));
            let mut cs: CertState = env_case.cert_state();
            log.ev(json!({"ev": "reset", "seq": log.lines + 1, "group": which, "st": intern.id(&cs)}));
            for _ in 0..calls {
                let len = rng.below(5) as usize;
                // bias towards valid transactions so that long successful prefixes occur
                let seq: Vec<usize> = (0..len)
                    .map(|_| {
                        let k = rng.below(variants.len() as u64 / 3) as usize * 3;
                        if rng.chance(3, 4) { k } else { k + 1 + rng.below(2) as usize }
                    })
                    .collect();
                one_call(&seq, &mut cs, &metxs, &variants, &env, &utxos, &mut intern, &mut log, &mut stats);
            }
        }
    }
    let n = log.finish();
    println!("{}", json!({"events": n, "states": intern.0.len(), "stats": stats}));
}
