//! `c08-validator`: script-data shapes through the REAL Conway validator (binding of C08's formula to
//! pallas_validate::phase1::conway::check_script_data_hash).  Fully valid signed transactions are derived
//! from accepted fixtures: (a) datum-only (a supplemental datum in the witness set, referenced by an output's
//! datum hash; no redeemers, no Plutus scripts) with body hash = H(a0 || datums || a0), (b) one byte of that
//! hash flipped, (c) hash absent, (d) Plutus fixtures with their correct and a flipped hash.  Every event
//! carries the byte strings of the pre-image parts; the expected hash is Blake2b-256 of their concatenation.
use crate::case::{blake256, Case};
use crate::cbor::Cb;
use pallas_codec::minicbor;
use pv_core::{json, Args, Ndjson};

fn language_views_bytes(c: &Case) -> Option<Vec<u8>> {
    use pallas_primitives::conway;
    use pallas_validate::utils::MultiEraProtocolParameters as P;
    let P::Conway(pp) = c.prot_params() else { return None };
    let mut langs: Vec<u8> = vec![];
    for (k, l) in [(3u64, 0u8), (6, 1), (7, 2)] {
        if c.wits().get(k).and_then(|x| x.items()).map(|x| !x.is_empty()).unwrap_or(false) {
            langs.push(l);
        }
    }
    for u in &c.utxo {
        if u.role != "ref" {
            continue;
        }
        if let Some(Cb::Tag(24, _, inner)) = u.out.get(3) {
            if let Ok(s) = Cb::parse(inner.as_bytes()?) {
                match s.items().and_then(|i| i[0].as_u64()) {
                    Some(1) => langs.push(0),
                    Some(2) => langs.push(1),
                    Some(3) => langs.push(2),
                    _ => {}
                }
            }
        }
    }
    langs.sort();
    langs.dedup();
    let mut map = std::collections::BTreeMap::new();
    for l in langs {
        let cm = match l {
            0 => pp.cost_models_for_script_languages.plutus_v1.clone(),
            1 => pp.cost_models_for_script_languages.plutus_v2.clone(),
            _ => pp.cost_models_for_script_languages.plutus_v3.clone(),
        }?;
        map.insert(l, cm);
    }
    minicbor::to_vec(conway::LanguageViews(map)).ok()
}

fn log_case(log: &mut Ndjson, c: &Case, shape: &str) {
    let red = c.wits().get(5).map(|r| r.to_vec());
    let dat = c.wits().get(4).map(|d| d.to_vec()).unwrap_or_default();
    let views = language_views_bytes(c).unwrap_or_else(|| vec![0xa0]);
    let pre: Vec<u8> = [red.clone().unwrap_or_else(|| vec![0xa0]), dat.clone(), views.clone()].concat();
    let expected = blake256(&pre);
    let body_hash = c.body().get(11).and_then(|h| h.as_bytes()).map(hex::encode).unwrap_or_else(|| "none".into());
    let o = c.run();
    let error = o.detail.split('(').nth(1).map(|s| s.trim_end_matches(')').to_string()).unwrap_or_default();
    log.ev(json!({"ev": "c08v", "seq": log.lines + 1, "era": c.era, "fx": c.name, "shape": shape,
        "redeemer_bytes": red.map(hex::encode).unwrap_or_else(|| "none".into()), "datum_bytes": hex::encode(&dat),
        "views_bytes": hex::encode(&views), "pre": hex::encode(&pre), "body_hash": body_hash,
        "expected_hash": hex::encode(expected), "verdict": o.verdict, "error": error, "detail": o.detail}));
}

pub fn run(args: &Args) {
    crate::case::install_panic_hook();
    let mut log = Ndjson::create(args.get("out"));
    let cases = crate::trace::load_cases(Some("conway::"));
    // (a)-(c): datum-only transactions from the script-free Conway fixture, two datum shapes / set encodings
    let base = cases.iter().find(|c| c.name.ends_with("conway::successful_mainnet_tx")).unwrap_or_else(|| pv_core::die("conway fixture missing"));
    for (di, (datum_hex, tagged)) in [("d8799f4568656c6c6fff", false), ("9f0102ff", true), ("182a", false)].iter().enumerate() {
        let datum = Cb::parse(&pv_core::unhex(datum_hex)).unwrap();
        let mut c = base.clone();
        let set = Cb::array(vec![datum.clone()]);
        c.wits_mut().set(4, if *tagged { Cb::tag(258, set) } else { set });
        let dh = blake256(&datum.to_vec());
        let o = c.body_mut().get_mut(1).and_then(|o| o.items_mut()).and_then(|o| o.get_mut(0)).unwrap_or_else(|| pv_core::die("no output"));
        match o {
            Cb::Map(es, _) => es.push((Cb::uint(2), Cb::array(vec![Cb::uint(0), Cb::bytes(&dh)]))),
            _ => o.items_mut().unwrap().push(Cb::bytes(&dh)),
        }
        let pre: Vec<u8> = [vec![0xa0], c.wits().get(4).unwrap().to_vec(), vec![0xa0]].concat();
        c.body_mut().set(11, Cb::bytes(&blake256(&pre)));
        c.pad_fee(4000);
        c.resign();
        log_case(&mut log, &c, &format!("datum-only-{di}/correct-hash"));
        let mut b = c.clone();
        if let Some(Cb::Bytes(h, _)) = b.body_mut().get_mut(11) {
            h[di] ^= 0x01;
        }
        b.resign();
        log_case(&mut log, &b, &format!("datum-only-{di}/flipped-hash"));
        let mut n = c.clone();
        n.body_mut().remove(11);
        n.resign();
        log_case(&mut log, &n, &format!("datum-only-{di}/hash-absent"));
    }
    // (d): Plutus fixtures with their own and a flipped hash
    for c in cases.iter().filter(|c| c.wits().get(5).is_some()) {
        log_case(&mut log, c, "plutus/correct-hash");
        let mut b = c.clone();
        if let Some(Cb::Bytes(h, _)) = b.body_mut().get_mut(11) {
            h[31] ^= 0x80;
        }
        b.resign();
        log_case(&mut log, &b, "plutus/flipped-hash");
    }
    let n = log.finish();
    println!("{}", json!({"events": n}));
}
