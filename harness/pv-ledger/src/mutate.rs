//! Seeded, structure-aware mutators over a `Case` (transaction CBOR tree, UTxO
//! entries, environment).  Every mutator returns the mutated copy together
//! with its class label (finding keys are era/class) and, for C38, the rule it
//! is meant to break.  After a body edit the witnesses we own are re-signed so
//! that the validator gets past the signature checks.

use crate::case::{blake224, Case, UtxoEntry};
use crate::cbor::Cb;
use pv_core::Rng;

pub struct Mutant {
    pub class: String,
    pub rule: String,
    pub boundary: bool,
    pub case: Case,
}

fn m(class: &str, case: Case) -> Mutant {
    Mutant { class: class.to_string(), rule: String::new(), boundary: false, case }
}

pub const U63: u64 = 1 << 63;
pub const MAX: u64 = u64::MAX;

// ------------------------------------------------------------------ value helpers
pub fn val_coin(v: &Cb) -> u64 {
    match v {
        Cb::UInt(c, _) => *c,
        _ => v.items().and_then(|i| i.first()).and_then(|c| c.as_u64()).unwrap_or(0),
    }
}
pub fn val_set_coin(v: &mut Cb, c: u64) {
    match v {
        Cb::Array(items, _) if !items.is_empty() => items[0] = Cb::uint(c),
        _ => *v = Cb::uint(c),
    }
}
/// quantity node of the first asset of a value, if any
pub fn val_first_asset_mut(v: &mut Cb) -> Option<&mut Cb> {
    let items = v.items_mut()?;
    let pols = items.get_mut(1)?.entries_mut()?;
    let (_, assets) = pols.first_mut()?;
    assets.entries_mut()?.first_mut().map(|(_, q)| q)
}
pub fn val_first_asset_id(v: &Cb) -> Option<(Vec<u8>, Vec<u8>)> {
    let pols = v.items()?.get(1)?.entries()?;
    let (p, assets) = pols.first()?;
    let (n, _) = assets.entries()?.first()?;
    Some((p.as_bytes()?.clone(), n.as_bytes()?.clone()))
}
/// set (insert or replace) the quantity of one asset
pub fn val_set_asset(v: &mut Cb, policy: &[u8], name: &[u8], q: Cb) {
    if !matches!(v, Cb::Array(..)) {
        let c = val_coin(v);
        *v = Cb::array(vec![Cb::uint(c), Cb::map(vec![])]);
    }
    let items = v.items_mut().unwrap();
    if items.len() < 2 {
        items.push(Cb::map(vec![]));
    }
    let pols = items[1].entries_mut().unwrap();
    if let Some((_, assets)) = pols.iter_mut().find(|(p, _)| p.as_bytes().map(|b| &b[..] == policy).unwrap_or(false)) {
        let es = assets.entries_mut().unwrap();
        if let Some(e) = es.iter_mut().find(|(n, _)| n.as_bytes().map(|b| &b[..] == name).unwrap_or(false)) {
            e.1 = q;
        } else {
            es.push((Cb::bytes(name), q));
        }
    } else {
        pols.push((Cb::bytes(policy), Cb::map(vec![(Cb::bytes(name), q)])));
    }
}

impl Case {
    // ---- transaction outputs (body key 1; byron: tx[1])
    pub fn n_outputs(&self) -> usize {
        if self.is_byron() {
            return self.body().items().map(|t| t[1].items().map(|o| o.len()).unwrap_or(0)).unwrap_or(0);
        }
        self.body().get(1).and_then(|o| o.items()).map(|o| o.len()).unwrap_or(0)
    }
    pub fn out_value_mut(&mut self, i: usize) -> Option<&mut Cb> {
        if self.is_byron() {
            let o = self.body_mut().items_mut()?.get_mut(1)?.items_mut()?.get_mut(i)?;
            return o.items_mut()?.get_mut(1);
        }
        let o = self.body_mut().get_mut(1)?.items_mut()?.get_mut(i)?;
        match o {
            Cb::Map(..) => o.get_mut(1),
            _ => o.items_mut()?.get_mut(1),
        }
    }
    pub fn out_addr_mut(&mut self, i: usize) -> Option<&mut Cb> {
        let o = self.body_mut().get_mut(1)?.items_mut()?.get_mut(i)?;
        match o {
            Cb::Map(..) => o.get_mut(0),
            _ => o.items_mut()?.get_mut(0),
        }
    }
    pub fn out_coin(&mut self, i: usize) -> u64 {
        self.out_value_mut(i).map(|v| val_coin(v)).unwrap_or(0)
    }
    pub fn fee(&self) -> u64 {
        self.body().get(2).and_then(|f| f.as_u64()).unwrap_or(0)
    }
    pub fn set_fee(&mut self, f: u64) {
        self.body_mut().set(2, Cb::uint(f));
    }
    /// pay `extra` more fee out of the first spent output (keeps the balance; used when a mutator makes the
    /// transaction larger, so that the minimum fee stays covered)
    pub fn pad_fee(&mut self, extra: u64) {
        if self.is_byron() {
            return;
        }
        if let Some(u) = self.utxo_index_of(0, 0) {
            if let Some(v) = self.utxo_value_mut(u) {
                let c = val_coin(v);
                if let Some(nc) = c.checked_add(extra) {
                    val_set_coin(v, nc);
                    let f = self.fee();
                    self.set_fee(f + extra);
                }
            }
        }
    }
    /// `pad_fee`, and the collateral grows with the fee: taken out of the collateral return, annotation kept exact
    pub fn pad_fee_and_collateral(&mut self, extra: u64) -> Option<()> {
        self.pad_fee(extra);
        let more = extra * 2;
        if let Some(ret) = self.body_mut().get_mut(16) {
            let v = match ret {
                Cb::Map(..) => ret.get_mut(1)?,
                _ => ret.items_mut()?.get_mut(1)?,
            };
            let c = val_coin(v);
            val_set_coin(v, c.checked_sub(more)?);
            if let Some(t) = self.body().get(17).and_then(|t| t.as_u64()) {
                self.body_mut().set(17, Cb::uint(t + more));
            }
        }
        Some(())
    }
    /// index of the output with the largest ada amount
    pub fn richest_output(&mut self) -> usize {
        let n = self.n_outputs();
        (0..n).max_by_key(|i| self.clone().out_coin(*i)).unwrap_or(0)
    }

    // ---- UTxO entries
    pub fn utxo_value_mut(&mut self, i: usize) -> Option<&mut Cb> {
        let u = self.utxo.get_mut(i)?;
        match u.kind {
            "byron" | "alonzo" => u.out.items_mut()?.get_mut(1),
            _ => u.out.get_mut(1),
        }
    }
    pub fn utxo_addr_mut(&mut self, i: usize) -> Option<&mut Cb> {
        let u = self.utxo.get_mut(i)?;
        match u.kind {
            "byron" => None,
            "alonzo" => u.out.items_mut()?.get_mut(0),
            _ => u.out.get_mut(0),
        }
    }
    /// index (in self.utxo) of the entry the n-th input under `key` points at
    pub fn utxo_index_of(&self, key: u64, n: usize) -> Option<usize> {
        let (h, i) = *self.input_refs(key).get(n)?;
        self.utxo.iter().position(|u| u.hash == h && u.idx == i)
    }

    /// append a second spent input: a copy of the first spent output under a fresh reference
    pub fn add_input_copy(&mut self, tag: u8) -> Option<usize> {
        if self.is_byron() {
            return None;
        }
        let src = self.utxo_index_of(0, 0)?;
        let mut e: UtxoEntry = self.utxo[src].clone();
        e.hash = crate::case::blake256(&[&e.hash[..], &[tag]].concat());
        let input = Cb::array(vec![Cb::bytes(&e.hash), Cb::uint(e.idx)]);
        self.body_mut().get_mut(0)?.items_mut()?.push(input);
        self.utxo.push(e);
        Some(self.utxo.len() - 1)
    }

    // ---- witnesses
    pub fn vkey_wits_mut(&mut self) -> Option<&mut Vec<Cb>> {
        self.wits_mut().get_mut(0)?.items_mut()
    }
    pub fn n_vkey_wits(&self) -> usize {
        self.wits().get(0).and_then(|w| w.items()).map(|w| w.len()).unwrap_or(0)
    }
    /// append a witness from a fresh key of ours (signed when `good`, garbage signature otherwise)
    pub fn add_witness(&mut self, good: bool, tag: &[u8]) -> Vec<u8> {
        let k = self.new_key(tag);
        let sig = if good { vec![0u8; 64] } else { vec![0x5a; 64] };
        let w = Cb::array(vec![Cb::bytes(&k.pk), Cb::bytes(&sig)]);
        if self.wits().get(0).is_none() {
            self.wits_mut().set(0, Cb::array(vec![]));
        }
        self.vkey_wits_mut().unwrap().push(w);
        if good {
            self.resign();
        } else {
            // not one of "our" keys any more: resign must leave the garbage alone
            self.keys.pop();
        }
        blake224(&k.pk).to_vec()
    }

    // ---- non-canonical (but well-formed) re-encodings of the transaction
    pub const ENCODINGS: [&'static str; 4] = ["wide-body-header", "indef-witness-array", "indef-inputs-outputs", "reversed-body-keys"];
    /// returns false when the style does not apply
    pub fn reencode(&mut self, style: &str) -> bool {
        if self.is_byron() {
            return false;
        }
        let ok = match style {
            "wide-body-header" => match self.body_mut() {
                Cb::Map(_, w @ Some(_)) => {
                    *w = Some(1);
                    true
                }
                _ => false,
            },
            "indef-witness-array" => match self.wits_mut().get_mut(0) {
                Some(Cb::Array(_, w)) => {
                    *w = None;
                    true
                }
                Some(Cb::Tag(258, _, inner)) => match &mut **inner {
                    Cb::Array(_, w) => {
                        *w = None;
                        true
                    }
                    _ => false,
                },
                _ => false,
            },
            "indef-inputs-outputs" => {
                let mut n = 0;
                for k in [0u64, 1] {
                    match self.body_mut().get_mut(k) {
                        Some(Cb::Array(_, w)) => {
                            *w = None;
                            n += 1
                        }
                        Some(Cb::Tag(258, _, inner)) => {
                            if let Cb::Array(_, w) = &mut **inner {
                                *w = None;
                                n += 1
                            }
                        }
                        _ => {}
                    }
                }
                n > 0
            }
            "reversed-body-keys" => match self.body_mut() {
                Cb::Map(es, _) => {
                    es.reverse();
                    true
                }
                _ => false,
            },
            _ => false,
        };
        if ok {
            self.resign();
        }
        ok
    }
    /// Blake2b-256 of the body as pallas-primitives RE-ENCODES it (differs from the transaction id when the
    /// wire encoding is not the encoder's own)
    pub fn reencoded_body_hash(&self) -> Option<[u8; 32]> {
        use pallas_codec::minicbor;
        use pallas_primitives::{alonzo, babbage, conway};
        let bytes = self.tx_bytes();
        let body = match self.era.as_str() {
            "byron" => return None,
            "babbage" => minicbor::to_vec(&*minicbor::decode::<babbage::Tx>(&bytes).ok()?.transaction_body).ok()?,
            "conway" => minicbor::to_vec(&*minicbor::decode::<conway::Tx>(&bytes).ok()?.transaction_body).ok()?,
            _ => minicbor::to_vec(&*minicbor::decode::<alonzo::Tx>(&bytes).ok()?.transaction_body).ok()?,
        };
        Some(crate::case::blake256(&body))
    }
    /// sign every witness we own over `hash` (instead of the transaction id)
    pub fn resign_over(&mut self, hash: [u8; 32]) {
        let keys = self.keys.clone();
        if let Some(ws) = self.vkey_wits_mut() {
            for w in ws.iter_mut() {
                let Some(it) = w.items_mut() else { continue };
                let Some(pk) = it[0].as_bytes().cloned() else { continue };
                if let Some(k) = keys.iter().find(|k| k.pk[..] == pk[..]) {
                    let sk = pallas_crypto::key::ed25519::SecretKey::from(k.sk);
                    it[1] = Cb::bytes(sk.sign(hash).as_ref());
                }
            }
        }
    }
    /// another collateral input: a copy of the first collateral output under a fresh reference
    pub fn add_collateral_copy(&mut self, tag: u8, coin: u64) -> Option<()> {
        let src = self.utxo_index_of(13, 0)?;
        let mut e: UtxoEntry = self.utxo[src].clone();
        e.hash = crate::case::blake256(&[&e.hash[..], &[0xc0, tag]].concat());
        e.role = "coll";
        let input = Cb::array(vec![Cb::bytes(&e.hash), Cb::uint(e.idx)]);
        self.body_mut().get_mut(13)?.items_mut()?.push(input);
        self.utxo.push(e);
        let u = self.utxo.len() - 1;
        val_set_coin(self.utxo_value_mut(u)?, coin);
        Some(())
    }

    // ---- Byron: another input of a chosen address kind, owned by a fresh key of ours
    /// `redeem`: redeem-address UTxO (else public-key address); `front`: listed first (else last)
    pub fn byron_add_input(&mut self, redeem: bool, front: bool, coin: u64, tag: u8) -> Option<()> {
        use pallas_addresses::byron::{AddrType, AddressPayload, SpendingData};
        use pallas_codec::minicbor::{self, bytes::ByteVec};
        if !self.is_byron() {
            return None;
        }
        let k = self.new_key(&[b'b', tag]);
        let pk: Vec<u8> = if redeem { k.pk.to_vec() } else { [&k.pk[..], &[0u8; 32][..]].concat() };
        let payload = if redeem {
            AddressPayload::new(AddrType::Redeem, SpendingData::Redeem(ByteVec::from(pk.clone())), vec![].into())
        } else {
            AddressPayload::new(AddrType::PubKey, SpendingData::PubKey(ByteVec::from(pk.clone())), vec![].into())
        };
        let payload = minicbor::to_vec(&payload).ok()?;
        let hash = crate::case::blake256(&[b'B', tag, redeem as u8]);
        self.utxo.push(UtxoEntry {
            hash,
            idx: 0,
            kind: "byron",
            out: Cb::array(vec![Cb::array(vec![Cb::tag(24, Cb::bytes(&payload)), Cb::uint(3430631884)]), Cb::uint(coin)]),
            role: "in",
        });
        let input = Cb::array(vec![Cb::uint(0), Cb::tag(24, Cb::bytes(&Cb::array(vec![Cb::bytes(&hash), Cb::uint(0)]).to_vec()))]);
        let ins = self.body_mut().items_mut()?.get_mut(0)?.items_mut()?;
        if front {
            ins.insert(0, input);
        } else {
            ins.push(input);
        }
        let wit = Cb::array(vec![
            Cb::uint(if redeem { 2 } else { 0 }),
            Cb::tag(24, Cb::bytes(&Cb::array(vec![Cb::bytes(&pk), Cb::bytes(&[0u8; 64])]).to_vec())),
        ]);
        self.tx.items_mut()?.get_mut(1)?.items_mut()?.push(wit);
        self.resign();
        Some(())
    }
    /// Byron: make inputs - outputs equal to `minfee + delta` (None: exactly zero) by resizing the richest output
    pub fn byron_set_fee(&mut self, delta: Option<i128>) -> Option<()> {
        use pallas_validate::utils::MultiEraProtocolParameters as P;
        let P::Byron(pp) = self.prot_params() else { return None };
        let n = self.n_outputs();
        let i = self.richest_output();
        let total_in: u128 = (0..self.input_refs(0).len())
            .filter_map(|k| self.utxo_index_of(0, k))
            .map(|u| self.clone().utxo_value_mut(u).map(|v| val_coin(v)).unwrap_or(0) as u128)
            .sum();
        let others: u128 = (0..n).filter(|k| *k != i).map(|k| self.out_coin(k) as u128).sum();
        for _ in 0..4 {
            let size = (self.tx_bytes().len() - 1) as u128;
            let fee = match delta {
                Some(d) => (pp.summand as u128 + pp.multiplier as u128 * size) as i128 + d,
                None => 0,
            };
            let want = total_in as i128 - others as i128 - fee;
            if want <= 0 || want > MAX as i128 {
                return None;
            }
            val_set_coin(self.out_value_mut(i)?, want as u64);
            self.resign();
        }
        Some(())
    }

    // ---- minting with an always-true native policy (ScriptAll [])
    pub fn trivial_policy() -> (Vec<u8>, Cb) {
        let script = Cb::array(vec![Cb::uint(1), Cb::array(vec![])]);
        let h = blake224(&[&[0u8][..], &script.to_vec()].concat());
        (h.to_vec(), script)
    }
    pub fn ensure_trivial_policy(&mut self) -> Vec<u8> {
        let (h, script) = Case::trivial_policy();
        if self.wits().get(1).is_none() {
            self.wits_mut().set(1, Cb::array(vec![]));
        }
        let scripts = self.wits_mut().get_mut(1).unwrap().items_mut().unwrap();
        if !scripts.contains(&script) {
            scripts.push(script);
        }
        h
    }
    pub fn supports_mint(&self) -> bool {
        matches!(self.era.as_str(), "mary" | "alonzo" | "babbage" | "conway")
    }
    /// add `q` of asset (policy, name) to the mint field
    pub fn add_mint(&mut self, policy: &[u8], name: &[u8], q: i128) {
        if self.body().get(9).is_none() {
            self.body_mut().set(9, Cb::map(vec![]));
        }
        let mint = self.body_mut().get_mut(9).unwrap().entries_mut().unwrap();
        if let Some((_, assets)) = mint.iter_mut().find(|(p, _)| p.as_bytes().map(|b| &b[..] == policy).unwrap_or(false)) {
            assets.entries_mut().unwrap().push((Cb::bytes(name), Cb::int(q)));
        } else {
            mint.push((Cb::bytes(policy), Cb::map(vec![(Cb::bytes(name), Cb::int(q))])));
        }
    }
}

// ------------------------------------------------------------------ C33: hostile but decodable
pub fn c33(base: &Case, rng: &mut Rng, thorough: bool) -> Vec<Mutant> {
    let mut out = vec![];
    let byron = base.is_byron();
    let hostile = [0u64, 1, U63 - 1, U63, MAX];
    let pick = |rng: &mut Rng, all: &[u64]| -> Vec<u64> {
        if thorough {
            all.to_vec()
        } else {
            let mut v = vec![all[0], all[all.len() - 1]];
            v.push(*rng.pick(&all[1..all.len() - 1]));
            v
        }
    };
    // output / fee / spent quantities
    for q in pick(rng, &hostile) {
        let mut c = base.clone();
        let i = rng.below(c.n_outputs().max(1) as u64) as usize;
        if let Some(v) = c.out_value_mut(i) {
            val_set_coin(v, q);
            c.resign();
            out.push(m(&format!("out-coin/{q}"), c));
        }
        let mut c = base.clone();
        if let Some(u) = c.utxo_index_of(0, 0) {
            if let Some(v) = c.utxo_value_mut(u) {
                val_set_coin(v, q);
                out.push(m(&format!("utxo-coin/{q}"), c));
            }
        }
        if !byron {
            let mut c = base.clone();
            c.set_fee(q);
            c.resign();
            out.push(m(&format!("fee/{q}"), c));
            // balanced: the spent output and the fee grow together
            let mut c = base.clone();
            if let Some(u) = c.utxo_index_of(0, 0) {
                let old_fee = c.fee();
                let in_coin = c.utxo_value_mut(u).map(|v| val_coin(v)).unwrap_or(0);
                if q > old_fee && q - old_fee <= MAX - in_coin {
                    c.set_fee(q);
                    let v = c.utxo_value_mut(u).unwrap();
                    val_set_coin(v, in_coin + (q - old_fee));
                    c.resign();
                    out.push(m(&format!("fee-balanced/{q}"), c));
                }
            }
        }
    }
    if byron {
        // outputs exceed inputs
        let mut c = base.clone();
        if let Some(v) = c.out_value_mut(0) {
            val_set_coin(v, MAX / 2);
            c.resign();
            out.push(m("byron-outs-exceed-ins", c));
        }
        // two outputs whose sum wraps
        let mut c = base.clone();
        let n = c.n_outputs();
        if n >= 2 {
            val_set_coin(c.out_value_mut(0).unwrap(), U63);
            val_set_coin(c.out_value_mut(1).unwrap(), U63 + 5);
            c.resign();
            out.push(m("byron-outs-sum-wraps", c));
        }
        // spent output locked by a script-type / unknown-type Byron address
        for (ty, label) in [(1u64, "script"), (7, "other")] {
            let mut c = base.clone();
            if let Some(u) = c.utxo_index_of(0, 0) {
                let addr = &mut c.utxo[u].out.items_mut().unwrap()[0].items_mut().unwrap()[0];
                if let Cb::Tag(24, _, inner) = addr {
                    if let Ok(mut p) = Cb::parse(inner.as_bytes().unwrap()) {
                        p.items_mut().unwrap()[2] = Cb::uint(ty);
                        **inner = Cb::bytes(&p.to_vec());
                        out.push(m(&format!("byron-utxo-addr-type/{label}"), c));
                    }
                }
            }
        }
        // short public key / signature in the witness
        for (which, len, label) in [(0usize, 31usize, "pk-31"), (0, 0, "pk-0"), (1, 63, "sig-63"), (1, 65, "sig-65")] {
            let mut c = base.clone();
            let w = &mut c.tx.items_mut().unwrap()[1].items_mut().unwrap()[0];
            if let Some(Cb::Tag(24, _, inner)) = w.items_mut().map(|i| &mut i[1]) {
                let mut pair = Cb::parse(inner.as_bytes().unwrap()).unwrap();
                let mut b = pair.items().unwrap()[which].as_bytes().cloned().unwrap_or_default();
                b.resize(len, 7);
                pair.items_mut().unwrap()[which] = Cb::bytes(&b);
                **inner = Cb::bytes(&pair.to_vec());
                out.push(m(&format!("byron-wit/{label}"), c));
            }
        }
        // a second input of the other address kind, first / last
        for front in [false, true] {
            for redeem in [false, true] {
                let mut c = base.clone();
                if c.byron_add_input(redeem, front, MAX / 2, 3).is_some() {
                    out.push(m(&format!("byron-extra-input/{}/{}", if redeem { "redeem" } else { "pubkey" }, if front { "front" } else { "back" }), c));
                }
            }
        }
        // empty collections / missing outputs
        let mut c = base.clone();
        c.utxo.clear();
        out.push(m("missing-utxo/in", c));
        return out;
    }

    // asset quantities in outputs and spent outputs (Mary and later)
    if base.supports_mint() {
        let (pol, _) = Case::trivial_policy();
        for q in pick(rng, &hostile) {
            let mut c = base.clone();
            let id = c.out_value_mut(0).and_then(|v| val_first_asset_id(v)).unwrap_or((pol.clone(), b"X".to_vec()));
            val_set_asset(c.out_value_mut(0).unwrap(), &id.0, &id.1, Cb::uint(q));
            c.resign();
            out.push(m(&format!("out-asset/{q}"), c));
            let mut c = base.clone();
            if let Some(u) = c.utxo_index_of(0, 0) {
                let v = c.utxo_value_mut(u).unwrap();
                let id = val_first_asset_id(v).unwrap_or((pol.clone(), b"X".to_vec()));
                val_set_asset(v, &id.0, &id.1, Cb::uint(q));
                out.push(m(&format!("utxo-asset/{q}"), c));
            }
        }
        // two spent outputs holding the same asset: sums near 2^63 / 2^64
        for (a, b, label) in [(U63, U63, "2^63+2^63"), (MAX, 1, "max+1"), (U63 - 1, 1, "2^63-1+1"), (U63 - 1, U63 - 1, "2x(2^63-1)")] {
            let mut c = base.clone();
            if let (Some(u0), Some(u1)) = (c.utxo_index_of(0, 0), c.add_input_copy(1)) {
                val_set_asset(c.utxo_value_mut(u0).unwrap(), &pol, b"X", Cb::uint(a));
                val_set_asset(c.utxo_value_mut(u1).unwrap(), &pol, b"X", Cb::uint(b));
                c.resign();
                out.push(m(&format!("utxo-asset-sum/{label}"), c));
            }
        }
        // minting: extreme quantities, burns of absent assets, with and without the asset in the inputs
        for (inq, mq, label) in [
            (0u64, i64::MAX as i128, "absent+max"),
            (0, i64::MIN as i128, "absent+min"),
            (0, -1, "absent-1"),
            (1, i64::MAX as i128, "1+max"),
            (U63, -1, "2^63-1"),
            (U63, i64::MIN as i128, "2^63+min"),
            (MAX, 1, "max+1"),
            (MAX, 2, "max+2"),
            (U63 - 1, 1, "2^63-1+1"),
        ] {
            let mut c = base.clone();
            let p = c.ensure_trivial_policy();
            if inq > 0 {
                if let Some(u) = c.utxo_index_of(0, 0) {
                    val_set_asset(c.utxo_value_mut(u).unwrap(), &p, b"M", Cb::uint(inq));
                }
            }
            c.add_mint(&p, b"M", mq);
            c.resign();
            out.push(m(&format!("mint/{label}"), c));
        }
    }
    if base.supports_mint() {
        // sums that come out at exactly zero next to a sibling asset of the same policy
        for (inq, mq, sin, sout, label) in [(5u64, -5i128, 7u64, 7u64, "burn-entire-quantity"), (5, -5, 7, 0, "burn-entire-quantity/sibling-vanishes"), (1, -1, 1, 1, "burn-entire-1")] {
            let mut c = base.clone();
            let p = c.ensure_trivial_policy();
            if let Some(u) = c.utxo_index_of(0, 0) {
                val_set_asset(c.utxo_value_mut(u).unwrap(), &p, b"M", Cb::uint(inq));
                val_set_asset(c.utxo_value_mut(u).unwrap(), &p, b"S", Cb::uint(sin));
                c.add_mint(&p, b"M", mq);
                if sout > 0 {
                    let i = c.richest_output();
                    val_set_asset(c.out_value_mut(i).unwrap(), &p, b"S", Cb::uint(sout));
                }
                c.resign();
                out.push(m(&format!("mint-sibling/{label}"), c));
            }
        }
    }
    // native scripts with degenerate n-of-k nodes (0 of nothing, 0 of 2, 3 of 2, huge n), nested too
    {
        let sig = |b: u8| Cb::array(vec![Cb::uint(0), Cb::bytes(&[b; 28])]);
        let nofk = |n: u64, ks: Vec<Cb>| Cb::array(vec![Cb::uint(3), Cb::uint(n), Cb::array(ks)]);
        let scripts = vec![
            ("0-of-0", nofk(0, vec![])),
            ("0-of-2", nofk(0, vec![sig(1), sig(2)])),
            ("3-of-2", nofk(3, vec![sig(1), sig(2)])),
            ("max-of-1", nofk(u32::MAX as u64, vec![sig(1)])),
            ("nested-0-of-1", Cb::array(vec![Cb::uint(1), Cb::array(vec![nofk(0, vec![sig(3)])])])),
        ];
        for (label, script) in scripts {
            let mut c = base.clone();
            if c.wits().get(1).is_none() {
                c.wits_mut().set(1, Cb::array(vec![]));
            }
            c.wits_mut().get_mut(1).unwrap().items_mut().unwrap().push(script);
            out.push(m(&format!("native-script-n-of-k/{label}"), c));
        }
    }
    // the phase-2 validity flag cleared (it is outside the body: signatures stay valid)
    let mut c = base.clone();
    c.tx.items_mut().unwrap()[2] = Cb::Simple(20, false);
    out.push(m("is-valid-false", c));
    // two spent outputs whose ada sum wraps
    let mut c = base.clone();
    if let (Some(u0), Some(u1)) = (c.utxo_index_of(0, 0), c.add_input_copy(2)) {
        val_set_coin(c.utxo_value_mut(u0).unwrap(), U63);
        val_set_coin(c.utxo_value_mut(u1).unwrap(), U63 + 9);
        c.resign();
        out.push(m("utxo-coin-sum/2^63+2^63", c));
    }
    // outputs whose ada sum wraps
    if base.n_outputs() >= 2 {
        let mut c = base.clone();
        val_set_coin(c.out_value_mut(0).unwrap(), U63);
        val_set_coin(c.out_value_mut(1).unwrap(), U63 + 3);
        c.resign();
        out.push(m("out-coin-sum/2^63+2^63", c));
    }
    // witnesses with wrong-length keys / signatures, in the first and the last position
    for (which, len, label) in [(0usize, 31usize, "vkey-31"), (0, 33, "vkey-33"), (0, 0, "vkey-0"), (1, 63, "sig-63"), (1, 65, "sig-65"), (1, 0, "sig-0")] {
        for pos in ["first", "extra"] {
            let mut c = base.clone();
            if pos == "extra" {
                c.add_witness(true, b"c33");
            }
            let n = c.n_vkey_wits();
            if n == 0 {
                continue;
            }
            let idx = if pos == "first" { 0 } else { n - 1 };
            let w = &mut c.vkey_wits_mut().unwrap()[idx];
            let mut b = w.items().unwrap()[which].as_bytes().cloned().unwrap_or_default();
            b.resize(len, 9);
            w.items_mut().unwrap()[which] = Cb::bytes(&b);
            out.push(m(&format!("wit-{label}/{pos}"), c));
        }
    }
    // redeemer budgets (Plutus fixtures): overflowing sums
    if base.wits().get(5).is_some() {
        for (a, b, label) in [(MAX, MAX, "max+max"), (U63, U63, "2^63+2^63"), (MAX, 0, "max")] {
            let mut c = base.clone();
            if scale_redeemers(&mut c, &|_, i| if i == 0 { (a, a) } else { (b, b) }, true) {
                out.push(m(&format!("redeemer-units/{label}"), c));
            }
        }
    }
    // several collateral inputs whose ada sum is extreme
    if !base.input_refs(13).is_empty() {
        for (coins, label) in [(vec![MAX, MAX], "max+max"), (vec![U63, U63], "2^63+2^63"), (vec![MAX - 5_000_000 + 1], "sum=2^64"), (vec![MAX / 2, MAX / 2 + 2], "3-entries")] {
            let mut c = base.clone();
            let mut ok = true;
            for (i, q) in coins.iter().enumerate() {
                ok &= c.add_collateral_copy(i as u8, *q).is_some();
            }
            if ok {
                c.body_mut().remove(17);
                c.resign();
                out.push(m(&format!("multi-collateral/{label}"), c));
            }
        }
    }
    // a redeemer listed twice under the same pointer (list encoding)
    if let Some(Cb::Array(items, _)) = base.wits().get(5) {
        if let Some(first) = items.first().cloned() {
            let mut c = base.clone();
            c.wits_mut().get_mut(5).unwrap().items_mut().unwrap().push(first);
            if c.era == "conway" {
                conway_fix_script_data_hash(&mut c);
                c.resign();
            }
            out.push(m("redeemer-duplicate-pointer", c));
        }
    }
    // non-canonical re-encodings
    for style in Case::ENCODINGS {
        let mut c = base.clone();
        if c.reencode(style) {
            out.push(m(&format!("reencoded/{style}"), c));
        }
    }
    // collateral arithmetic (Plutus fixtures)
    if !base.input_refs(13).is_empty() {
        let mut c = base.clone();
        if let Some(u) = c.utxo_index_of(13, 0) {
            val_set_coin(c.utxo_value_mut(u).unwrap(), MAX);
            out.push(m("collateral-coin/max", c));
        }
        let mut c = base.clone();
        if let Some(u) = c.utxo_index_of(13, 0) {
            val_set_asset(c.utxo_value_mut(u).unwrap(), &[7u8; 28], b"C", Cb::uint(0));
            out.push(m("collateral-asset/0", c));
        }
        // collateral return with hostile values (Babbage / Conway)
        if matches!(base.era.as_str(), "babbage" | "conway") {
            // a collateral return worth more than the collateral inputs
            for legacy in [true, false] {
                let mut c = base.clone();
                let addr = c.out_addr_mut(0).cloned().unwrap_or(Cb::bytes(&[0x61; 29]));
                let ret = if legacy { Cb::array(vec![addr, Cb::uint(MAX)]) } else { Cb::map(vec![(Cb::uint(0), addr), (Cb::uint(1), Cb::uint(MAX))]) };
                c.body_mut().set(16, ret);
                c.resign();
                out.push(m(&format!("collateral-return/coin-max{}", if legacy { "-legacy" } else { "" }), c));
            }
            for (legacy, q, label) in [(true, 0u64, "legacy-asset-0"), (false, 0, "asset-0"), (true, MAX, "legacy-asset-max")] {
                let mut c = base.clone();
                let addr = c.out_addr_mut(0).cloned().unwrap_or(Cb::bytes(&[0x61; 29]));
                let val = Cb::array(vec![Cb::uint(2_000_000), Cb::map(vec![(Cb::bytes(&[7u8; 28]), Cb::map(vec![(Cb::bytes(b"R"), Cb::uint(q))]))])]);
                let ret = if legacy { Cb::array(vec![addr, val]) } else { Cb::map(vec![(Cb::uint(0), addr), (Cb::uint(1), val)]) };
                c.body_mut().set(16, ret);
                c.resign();
                out.push(m(&format!("collateral-return/{label}"), c));
            }
        }
    }
    // legacy-format outputs with zero / huge asset quantities (Babbage / Conway)
    if matches!(base.era.as_str(), "babbage" | "conway") {
        for (q, label) in [(0u64, "0"), (MAX, "max"), (1, "1")] {
            for pos in [0usize, 1] {
                let mut c = base.clone();
                if pos >= c.n_outputs() {
                    continue;
                }
                let addr = c.out_addr_mut(pos).cloned().unwrap();
                let coin = c.out_coin(pos);
                let val = Cb::array(vec![Cb::uint(coin), Cb::map(vec![(Cb::bytes(&[7u8; 28]), Cb::map(vec![(Cb::bytes(b"L"), Cb::uint(q))]))])]);
                c.body_mut().get_mut(1).unwrap().items_mut().unwrap()[pos] = Cb::array(vec![addr, val]);
                c.resign();
                out.push(m(&format!("legacy-output-asset/{label}/pos{pos}"), c));
            }
        }
    }
    // empty collections
    for (key, label) in [(0u64, "inputs"), (1, "outputs"), (13, "collateral"), (9, "mint"), (14, "required-signers")] {
        let mut c = base.clone();
        if key == 9 {
            c.body_mut().set(9, Cb::map(vec![]));
        } else if let Some(x) = c.body_mut().get_mut(key).and_then(|x| x.items_mut()) {
            x.clear();
        } else {
            continue;
        }
        c.resign();
        out.push(m(&format!("empty/{label}"), c));
    }
    let mut c = base.clone();
    if c.vkey_wits_mut().map(|w| w.clear()).is_some() {
        out.push(m("empty/vkey-witnesses", c));
    }
    let mut c = base.clone();
    c.wits_mut().remove(0);
    out.push(m("absent/vkey-witnesses", c));
    // missing UTxO entries
    for (key, label) in [(0u64, "in"), (13, "coll"), (18, "ref")] {
        let mut c = base.clone();
        if let Some(u) = c.utxo_index_of(key, 0) {
            c.utxo.remove(u);
            out.push(m(&format!("missing-utxo/{label}"), c));
        }
    }
    let mut c = base.clone();
    c.utxo.clear();
    out.push(m("missing-utxo/all", c));
    // duplicated input
    let mut c = base.clone();
    if let Some(ins) = c.body_mut().get_mut(0).and_then(|x| x.items_mut()) {
        if let Some(f) = ins.first().cloned() {
            ins.push(f);
            c.resign();
            out.push(m("dup-input", c));
        }
    }
    // spent output of another era kind
    for kind in ["byron", "alonzo", "babbage", "conway"] {
        if kind == base.utxo_kind() {
            continue;
        }
        let mut c = base.clone();
        if let Some(u) = c.utxo_index_of(0, 0) {
            let coin = c.utxo_value_mut(u).map(|v| val_coin(v)).unwrap_or(1_000_000);
            let addr = c.utxo_addr_mut(u).cloned().unwrap_or(Cb::bytes(&[0x61; 29]));
            c.utxo[u].kind = kind;
            c.utxo[u].out = match kind {
                "byron" => Cb::array(vec![
                    Cb::array(vec![Cb::tag(24, Cb::bytes(&pv_core::unhex("83581CDC7E4DD6A44886816DEC9A4B2021056A8FCAF500C09E316028F2985FA002"))), Cb::uint(3430631884)]),
                    Cb::uint(coin),
                ]),
                "alonzo" => Cb::array(vec![addr, Cb::uint(coin)]),
                _ => Cb::map(vec![(Cb::uint(0), addr), (Cb::uint(1), Cb::uint(coin))]),
            };
            out.push(m(&format!("utxo-kind/{kind}"), c));
        }
    }
    out
}

/// Rewrite the execution units of the redeemers (witness key 5): f(redeemer, index) -> (mem, steps).
/// Returns false when the transaction has no redeemers.  `dup_if_single`: give a single list-form
/// redeemer a sibling (another index) so that sums of two can be exercised.
pub fn scale_redeemers(c: &mut Case, f: &dyn Fn((u64, u64), usize) -> (u64, u64), dup_if_single: bool) -> bool {
    let Some(r) = c.wits_mut().get_mut(5) else { return false };
    match r {
        Cb::Map(es, _) => {
            for (i, (_, v)) in es.iter_mut().enumerate() {
                if let Some(it) = v.items_mut() {
                    let old = it[1].items().map(|x| (x[0].as_u64().unwrap_or(0), x[1].as_u64().unwrap_or(0))).unwrap_or((0, 0));
                    let (mem, steps) = f(old, i);
                    it[1] = Cb::array(vec![Cb::uint(mem), Cb::uint(steps)]);
                }
            }
            !es.is_empty()
        }
        _ => {
            let Some(items) = r.items_mut() else { return false };
            if items.is_empty() {
                return false;
            }
            if dup_if_single && items.len() == 1 {
                let mut d = items[0].clone();
                if let Some(it) = d.items_mut() {
                    it[1] = Cb::uint(it[1].as_u64().unwrap_or(0) + 1);
                }
                items.push(d);
            }
            for (i, red) in items.iter_mut().enumerate() {
                if let Some(it) = red.items_mut() {
                    let old = it[3].items().map(|x| (x[0].as_u64().unwrap_or(0), x[1].as_u64().unwrap_or(0))).unwrap_or((0, 0));
                    let (mem, steps) = f(old, i);
                    it[3] = Cb::array(vec![Cb::uint(mem), Cb::uint(steps)]);
                }
            }
            true
        }
    }
}

// ------------------------------------------------------------------ C34: value conservation
pub fn c34(base: &Case, rng: &mut Rng, thorough: bool) -> Vec<Mutant> {
    let mut out = vec![];
    let n = base.n_outputs();
    if n == 0 {
        return out;
    }
    let deltas: Vec<i128> = if thorough { vec![1, -1, 1000, -1000, 1 << 32] } else { vec![1, -1, *rng.pick(&[1000i128, -1000, 1 << 32])] };
    for d in deltas {
        // unbalanced: one output moves alone
        let mut c = base.clone();
        let i = rng.below(n as u64) as usize;
        let cur = c.out_coin(i) as i128;
        if cur + d >= 0 && cur + d <= MAX as i128 {
            val_set_coin(c.out_value_mut(i).unwrap(), (cur + d) as u64);
            c.resign();
            out.push(m(&format!("out-coin{:+}", d), c));
        }
        if !base.is_byron() {
            // unbalanced: the fee moves alone
            let mut c = base.clone();
            let f = c.fee() as i128;
            if f + d >= 0 {
                c.set_fee((f + d) as u64);
                c.resign();
                out.push(m(&format!("fee{:+}", d), c));
            }
            // balanced: output -> fee (still conserved)
            let mut c = base.clone();
            let i = c.richest_output();
            let cur = c.out_coin(i) as i128;
            if d > 0 && cur - d > 0 {
                val_set_coin(c.out_value_mut(i).unwrap(), (cur - d) as u64);
                c.set_fee((f + d) as u64);
                c.resign();
                out.push(m(&format!("move-out-to-fee/{d}"), c));
            }
        }
    }
    // the spent output shrinks / grows alone
    for d in [1i128, -1] {
        let mut c = base.clone();
        if let Some(u) = c.utxo_index_of(0, 0) {
            let cur = c.utxo_value_mut(u).map(|v| val_coin(v)).unwrap_or(0) as i128;
            if cur + d >= 0 {
                val_set_coin(c.utxo_value_mut(u).unwrap(), (cur + d) as u64);
                out.push(m(&format!("spent-coin{:+}", d), c));
            }
        }
    }
    // outputs exceed inputs
    let mut c = base.clone();
    let i = c.richest_output();
    let total_in: u128 = (0..c.input_refs(0).len()).filter_map(|k| c.utxo_index_of(0, k)).map(|u| c.clone().utxo_value_mut(u).map(|v| val_coin(v)).unwrap_or(0) as u128).sum();
    if total_in + 1 <= MAX as u128 {
        val_set_coin(c.out_value_mut(i).unwrap(), (total_in + 1) as u64);
        c.resign();
        out.push(m("outputs-exceed-inputs", c));
    }
    // ada sums that agree only modulo 2^64
    if n >= 2 && !base.is_byron() {
        let mut c = base.clone();
        // out0 + out1 + rest + fee == total_in + 2^64
        let rest: u128 = (2..n).map(|k| c.out_coin(k) as u128).sum::<u128>() + c.fee() as u128;
        let target = total_in + (1u128 << 64);
        if target > rest + U63 as u128 {
            let a = U63 as u128;
            let b = target - rest - a;
            if b <= MAX as u128 {
                val_set_coin(c.out_value_mut(0).unwrap(), a as u64);
                val_set_coin(c.out_value_mut(1).unwrap(), b as u64);
                c.resign();
                out.push(m("ada-sum-wraps-2^64", c));
            }
        }
    }
    if base.is_byron() {
        // the difference inputs - outputs placed exactly at / one below the minimum fee
        for (d, label) in [(Some(0i128), "byron-fee=min"), (Some(-1), "byron-fee=min-1"), (None, "byron-fee=0")] {
            let mut c = base.clone();
            if c.byron_set_fee(d).is_some() {
                out.push(m(label, c));
            }
        }
        // a second input of the OTHER address kind (redeem vs public key), listed first / last: the
        // redeem exemption from the minimum fee only holds when every input is a redeem address
        let base_redeem = base.run().proj["redeemOnly"].as_bool().unwrap_or(false);
        for front in [false, true] {
            for (d, label) in [(Some(0i128), "fee=min"), (Some(-1), "fee=min-1"), (None, "fee=0")] {
                let mut c = base.clone();
                if c.byron_add_input(!base_redeem, front, 7_000_000, 1).is_none() {
                    continue;
                }
                if c.byron_set_fee(d).is_some() {
                    let kinds = match (base_redeem, front) {
                        (true, false) => "redeem,pubkey",
                        (true, true) => "pubkey,redeem",
                        (false, false) => "pubkey,redeem",
                        (false, true) => "redeem,pubkey",
                    };
                    out.push(m(&format!("byron-mixed-inputs/{kinds}/{label}"), c));
                }
            }
        }
        return out;
    }
    if base.supports_mint() {
        // existing asset quantities in an output move alone
        for d in [1i128, -1] {
            let mut c = base.clone();
            for i in 0..n {
                if let Some(q) = c.out_value_mut(i).and_then(|v| val_first_asset_mut(v)) {
                    let cur = q.as_u64().unwrap_or(0) as i128;
                    if cur + d >= 0 {
                        *q = Cb::uint((cur + d) as u64);
                        c.resign();
                        out.push(m(&format!("out-asset{:+}", d), c));
                    }
                    break;
                }
            }
        }
        // minting with an always-true native policy: balanced and unbalanced variants,
        // burns of assets absent from the inputs, quantities near 2^63 / 2^64
        // (spent quantity of the asset, minted, produced in output 0)
        // (spent quantity of asset M, minted M, produced M, spent sibling S, produced sibling S, label):
        // M and S are two asset names under ONE policy
        let cases: Vec<(u64, i128, u64, u64, u64, &str)> = vec![
            (0, 1, 1, 0, 0, "mint+1/balanced"),
            (0, 1, 0, 0, 0, "mint+1/not-produced"),
            (0, 1, 2, 0, 0, "mint+1/produced-2"),
            (0, 0, 1, 0, 0, "no-mint/produced-1"),
            (5, 0, 0, 0, 0, "spent-5/not-produced"),
            (5, 0, 5, 0, 0, "spent-5/produced-5"),
            (5, -1, 4, 0, 0, "burn-1/balanced"),
            (5, -1, 5, 0, 0, "burn-1/still-produced"),
            (0, -1, 0, 0, 0, "burn-absent/-1"),
            (0, -1, MAX, 0, 0, "burn-absent/-1/produced-2^64-1"),
            (0, -5, MAX - 4, 0, 0, "burn-absent/-5/produced-2^64-5"),
            (MAX, 2, 1, 0, 0, "spent-2^64-1/mint+2/produced-1"),
            (MAX - 1, 3, 1, 0, 0, "spent-2^64-2/mint+3/produced-1"),
            (U63, 1, U63 + 1, 0, 0, "spent-2^63/mint+1/balanced"),
            (U63 + 5, -5, U63, 0, 0, "spent-2^63+5/burn-5/balanced"),
            (U63 - 1, 1, U63, 0, 0, "spent-2^63-1/mint+1/balanced"),
            (MAX, -1, MAX - 1, 0, 0, "spent-2^64-1/burn-1/balanced"),
            (3, i64::MIN as i128, 3, 0, 0, "spent-3/mint-min/produced-3"),
            (0, i64::MAX as i128, i64::MAX as u64, 0, 0, "mint-max/balanced"),
            // burn / mint magnitudes relative to the spent quantity q = 3 (or 2^64-2): over-burns and sums beyond
            // 2^64-1, with the produced amount a saturating or a wrapping sum would "balance"
            (3, -4, 0, 0, 0, "magnitude/burn-q-1/produced-0"),
            (3, -5, 0, 0, 0, "magnitude/burn-q-2/produced-0"),
            (3, -5, MAX - 1, 0, 0, "magnitude/burn-q-2/produced-wrapped"),
            (3, -(1i128 << 63), 0, 0, 0, "magnitude/burn-2^63-of-3/produced-0"),
            (3, -(1i128 << 63), U63 + 3, 0, 0, "magnitude/burn-2^63-of-3/produced-wrapped"),
            (MAX - 1, 5, MAX, 0, 0, "magnitude/mint-over-2^64/produced-2^64-1"),
            (MAX - 1, 5, 3, 0, 0, "magnitude/mint-over-2^64/produced-wrapped"),
            (MAX - 1, i64::MAX as i128, MAX, 0, 0, "magnitude/mint-max-over-2^64/produced-2^64-1"),
            (3, -3, 0, 0, 0, "magnitude/burn-q/balanced"),
            // asset-level (not policy-level) forgeries and disappearances under a policy that is being spent
            (5, 0, 5, 0, 1000, "sibling/forged-under-spent-policy"),
            (5, 0, 5, 7, 0, "sibling/vanishes"),
            (5, 0, 5, 7, 8, "sibling/produced+1"),
            (5, 0, 5, 7, 7, "sibling/balanced"),
            (5, 1, 6, 0, 3, "sibling/forged-next-to-mint"),
            (5, -5, 0, 7, 7, "sibling/burn-entire-quantity/balanced"),
            (5, -5, 0, 7, 8, "sibling/burn-entire-quantity/sibling+1"),
            (5, -5, 1, 7, 7, "sibling/burn-entire-quantity/still-produced"),
            (5, -4, 1, 7, 7, "sibling/burn-partial/balanced"),
        ];
        let chosen: Vec<_> = if thorough { cases } else { cases.into_iter().enumerate().filter(|(i, c)| i % 2 == 0 || c.5.starts_with("sibling") || c.5.starts_with("magnitude") || rng.chance(1, 2)).map(|(_, c)| c).collect() };
        for (inq, mq, outq, sin, sout, label) in chosen {
            let mut c = base.clone();
            // the policy script is only witnessed when something is minted (an unneeded script is rejected)
            let p = if mq != 0 { c.ensure_trivial_policy() } else { Case::trivial_policy().0 };
            if let Some(u) = c.utxo_index_of(0, 0) {
                if inq > 0 {
                    val_set_asset(c.utxo_value_mut(u).unwrap(), &p, b"M", Cb::uint(inq));
                }
                if sin > 0 {
                    val_set_asset(c.utxo_value_mut(u).unwrap(), &p, b"S", Cb::uint(sin));
                }
            }
            if mq != 0 {
                c.add_mint(&p, b"M", mq);
            }
            let i = c.richest_output();
            if outq > 0 {
                val_set_asset(c.out_value_mut(i).unwrap(), &p, b"M", Cb::uint(outq));
            }
            if sout > 0 {
                val_set_asset(c.out_value_mut(i).unwrap(), &p, b"S", Cb::uint(sout));
            }
            c.pad_fee(6000); // the added script / assets make the transaction larger
            c.resign();
            out.push(m(label, c));
        }
    }
    out
}

// ------------------------------------------------------------------ C36: fee / size boundaries
fn traversal_size(c: &Case) -> Option<u64> {
    let bytes = c.tx_bytes();
    crate::case::with_metx(&c.era, &bytes, |t| t.size() as u64).ok()
}

pub fn min_fee_params_pub(c: &Case) -> (u64, u64) {
    min_fee_params(c)
}
pub fn collateral_pct_pub(c: &Case) -> u64 {
    use pallas_validate::utils::MultiEraProtocolParameters as P;
    match c.prot_params() {
        P::Alonzo(p) => p.collateral_percentage as u64,
        P::Babbage(p) => p.collateral_percentage as u64,
        P::Conway(p) => p.collateral_percentage as u64,
        _ => 0,
    }
}

fn min_fee_params(c: &Case) -> (u64, u64) {
    use pallas_validate::utils::MultiEraProtocolParameters as P;
    match c.prot_params() {
        P::Shelley(p) => (p.minfee_a as u64, p.minfee_b as u64),
        P::Alonzo(p) => (p.minfee_a as u64, p.minfee_b as u64),
        P::Babbage(p) => (p.minfee_a as u64, p.minfee_b as u64),
        P::Conway(p) => (p.minfee_a as u64, p.minfee_b as u64),
        _ => (0, 0),
    }
}

/// re-price to fee = a*size+b+delta (size = traversal size of the re-priced transaction), keeping value preserved
fn reprice(base: &Case, delta: i64) -> Option<Case> {
    let (a, b) = min_fee_params(base);
    let mut c = base.clone();
    let i = c.richest_output();
    let old_fee = base.fee() as i128;
    let old_out = base.clone().out_coin(i) as i128;
    for _ in 0..6 {
        let size = traversal_size(&c)?;
        let want = (a * size + b) as i128 + delta as i128;
        if want < 0 {
            return None;
        }
        if c.fee() as i128 == want {
            c.resign();
            return Some(c);
        }
        let new_out = old_out + (old_fee - want);
        if new_out <= 0 {
            return None;
        }
        c.set_fee(want as u64);
        val_set_coin(c.out_value_mut(i)?, new_out as u64);
    }
    None
}

pub fn c36(base: &Case, rng: &mut Rng, thorough: bool) -> Vec<Mutant> {
    let mut out = c36_probes(base, "");
    // the same probes on non-canonical re-encodings of the fixture (kept only if still accepted as a baseline)
    let styles: Vec<&str> = if thorough { Case::ENCODINGS.to_vec() } else { vec![Case::ENCODINGS[1], *rng.pick(&[Case::ENCODINGS[0], Case::ENCODINGS[2], Case::ENCODINGS[3]])] };
    for style in styles {
        let mut c = base.clone();
        if c.reencode(style) && c.run().verdict == "accept" {
            out.extend(c36_probes(&c, &format!("/{style}")));
        }
    }
    out
}

fn c36_probes(base: &Case, suffix: &str) -> Vec<Mutant> {
    let mut out = c36_probes_inner(base, suffix);
    // the same boundaries with the phase-2 validity flag cleared (the fee and size rules do not depend on it)
    if suffix.is_empty() && matches!(base.era.as_str(), "alonzo" | "babbage" | "conway") {
        let mut c = base.clone();
        c.tx.items_mut().unwrap()[2] = Cb::Simple(20, false);
        if c.run().verdict == "accept" {
            out.extend(c36_probes_inner(&c, "/is-valid-false"));
        }
    }
    out
}

fn c36_probes_inner(base: &Case, suffix: &str) -> Vec<Mutant> {
    let mut out = vec![];
    if base.is_byron() {
        return out;
    }
    for (d, label) in [(0i64, "fee=min"), (-1, "fee=min-1"), (1, "fee=min+1")] {
        if let Some(c) = reprice(base, d) {
            out.push(Mutant { class: format!("{label}{suffix}"), rule: String::new(), boundary: true, case: c });
        }
    }
    if let Some(size) = traversal_size(base) {
        for (d, label) in [(0i64, "maxsize=size"), (-1, "maxsize=size-1"), (1, "maxsize=size+1")] {
            let mut c = base.clone();
            c.env.ov.max_tx_size = Some((size as i64 + d) as u64);
            out.push(Mutant { class: format!("{label}{suffix}"), rule: String::new(), boundary: true, case: c });
        }
    }
    out
}

// ------------------------------------------------------------------ C37: script budget
fn redeemer_sums(c: &Case) -> Option<(u64, u64)> {
    let r = c.wits().get(5)?;
    let mut mem = 0u128;
    let mut steps = 0u128;
    match r {
        Cb::Map(es, _) => {
            for (_, v) in es {
                let x = v.items()?.get(1)?.items()?;
                mem += x[0].as_u64()? as u128;
                steps += x[1].as_u64()? as u128;
            }
        }
        _ => {
            for red in r.items()? {
                let x = red.items()?.get(3)?.items()?;
                mem += x[0].as_u64()? as u128;
                steps += x[1].as_u64()? as u128;
            }
        }
    }
    Some((mem.min(MAX as u128) as u64, steps.min(MAX as u128) as u64))
}

/// Conway: convert the redeemers between list and map form
fn convert_redeemers(c: &mut Case, to_map: bool) -> bool {
    let Some(r) = c.wits_mut().get_mut(5) else { return false };
    match (&*r, to_map) {
        (Cb::Map(es, _), false) => {
            let items = es
                .iter()
                .filter_map(|(k, v)| {
                    let (k, v) = (k.items()?, v.items()?);
                    Some(Cb::array(vec![k[0].clone(), k[1].clone(), v[0].clone(), v[1].clone()]))
                })
                .collect();
            *r = Cb::array(items);
            true
        }
        (Cb::Array(items, _), true) => {
            let es = items
                .iter()
                .filter_map(|x| {
                    let x = x.items()?;
                    Some((Cb::array(vec![x[0].clone(), x[1].clone()]), Cb::array(vec![x[2].clone(), x[3].clone()])))
                })
                .collect();
            *r = Cb::map(es);
            true
        }
        _ => true,
    }
}

/// Conway: recompute the script data hash (body key 11) for the current witness set with
/// pallas-primitives' ScriptData (driver glue; the baseline with recomputed hash must be accepted).
pub fn conway_fix_script_data_hash(c: &mut Case) -> bool {
    use pallas_codec::minicbor;
    use pallas_primitives::conway;
    use pallas_validate::utils::MultiEraProtocolParameters as P;
    let P::Conway(pp) = c.prot_params() else { return false };
    let bytes = c.tx_bytes();
    let Ok(tx) = minicbor::decode::<conway::Tx>(&bytes) else { return false };
    // languages in use: witness scripts and reference scripts (as the ledger's language views)
    let mut langs: Vec<u8> = vec![];
    let ws = &tx.transaction_witness_set;
    if ws.plutus_v1_script.as_ref().map(|s| !s.is_empty()).unwrap_or(false) {
        langs.push(0)
    }
    if ws.plutus_v2_script.as_ref().map(|s| !s.is_empty()).unwrap_or(false) {
        langs.push(1)
    }
    if ws.plutus_v3_script.as_ref().map(|s| !s.is_empty()).unwrap_or(false) {
        langs.push(2)
    }
    for u in &c.utxo {
        if u.role != "ref" {
            continue;
        }
        if let Some(Cb::Tag(24, _, inner)) = u.out.get(3) {
            if let Ok(s) = Cb::parse(inner.as_bytes().unwrap()) {
                match s.items().and_then(|i| i[0].as_u64()) {
                    Some(1) => langs.push(0),
                    Some(2) => langs.push(1),
                    Some(3) => langs.push(2),
                    _ => {}
                }
            }
        }
    }
    langs.sort();
    langs.dedup();
    let mut map = std::collections::BTreeMap::new();
    for l in langs {
        let cm = match l {
            0 => pp.cost_models_for_script_languages.plutus_v1.clone(),
            1 => pp.cost_models_for_script_languages.plutus_v2.clone(),
            _ => pp.cost_models_for_script_languages.plutus_v3.clone(),
        };
        let Some(cm) = cm else { return false };
        map.insert(l, cm);
    }
    let Some(sd) = conway::ScriptData::build_for(ws, &Some(conway::LanguageViews(map))) else { return false };
    let h = sd.hash();
    c.body_mut().set(11, Cb::bytes(h.as_ref()));
    true
}

pub fn c37(base: &Case, _rng: &mut Rng, _thorough: bool) -> Vec<Mutant> {
    let mut out = vec![];
    let Some((mem, steps)) = redeemer_sums(base) else { return out };
    // the limits move around the transaction's totals (the transaction itself is untouched)
    // every combination of {below, at, above} per dimension, so that each dimension is probed on its own
    // with the other one strictly inside its limit; each also with the phase-2 validity flag cleared
    for (dm, dml) in [(-1i64, "mem-limit=sum-1"), (0, "mem-limit=sum"), (1000, "mem-limit=sum+1000")] {
        for (ds, dsl) in [(-1i64, "steps-limit=sum-1"), (0, "steps-limit=sum"), (1000, "steps-limit=sum+1000")] {
            for valid in [true, false] {
                let mut c = base.clone();
                if (mem as i128 + dm as i128) < 0 || (steps as i128 + ds as i128) < 0 {
                    continue;
                }
                c.env.ov.max_mem = Some((mem as i128 + dm as i128).min(MAX as i128) as u64);
                c.env.ov.max_steps = Some((steps as i128 + ds as i128).min(MAX as i128) as u64);
                if !valid {
                    c.tx.items_mut().unwrap()[2] = Cb::Simple(20, false);
                }
                out.push(m(&format!("{}/{}/{}{}", dml, dsl, redeemer_form(base), if valid { "" } else { "/is-valid-false" }), c));
            }
        }
    }
    // Conway: the budgets themselves are scaled, in both redeemer encodings (script data hash recomputed)
    if base.era == "conway" {
        use pallas_validate::utils::MultiEraProtocolParameters as P;
        let P::Conway(pp) = base.prot_params() else { return out };
        let (maxm, maxs) = (pp.max_tx_ex_units.mem, pp.max_tx_ex_units.steps);
        let n = match base.wits().get(5) {
            Some(Cb::Map(es, _)) => es.len(),
            Some(r) => r.items().map(|i| i.len()).unwrap_or(0),
            None => 0,
        } as u64;
        if n == 0 {
            return out;
        }
        for to_map in [false, true] {
            let form = if to_map { "map" } else { "list" };
            // per-redeemer budgets so that the sums are below / at / above the limits
            for (tm, ts, label) in [
                (maxm - n, maxs - n, "sum<limit"),
                (maxm, maxs, "sum=limit"),
                (maxm + 1, maxs, "mem-sum=limit+1"),
                (maxm, maxs + 1, "steps-sum=limit+1"),
                (maxm.saturating_mul(3), maxs.saturating_mul(3), "sum=3*limit"),
                (maxm / 2, maxs + 1, "mem-sum<limit/steps-sum=limit+1"),
                (maxm + 1, maxs / 2, "mem-sum=limit+1/steps-sum<limit"),
            ] {
                let mut c = base.clone();
                if !convert_redeemers(&mut c, to_map) {
                    continue;
                }
                let share = |total: u64, i: usize| if (i as u64) < total % n { total / n + 1 } else { total / n };
                if !scale_redeemers(&mut c, &|_, i| (share(tm, i), share(ts, i)), false) {
                    continue;
                }
                if !conway_fix_script_data_hash(&mut c) {
                    continue;
                }
                c.resign();
                out.push(m(&format!("scaled/{label}/{form}"), c));
            }
        }
    }
    out
}

fn redeemer_form(c: &Case) -> &'static str {
    match c.wits().get(5) {
        Some(Cb::Map(..)) => "map",
        Some(_) => "list",
        None => "none",
    }
}

// ------------------------------------------------------------------ C35: witnesses
pub fn c35(base: &Case, rng: &mut Rng, thorough: bool) -> Vec<Mutant> {
    let mut out = vec![];
    if base.is_byron() {
        return out;
    }
    let n = base.n_vkey_wits();
    // corrupt / drop every position
    for i in 0..n {
        let mut c = base.clone();
        let w = &mut c.vkey_wits_mut().unwrap()[i];
        if let Some(Cb::Bytes(sig, _)) = w.items_mut().map(|x| &mut x[1]) {
            let k = rng.below(sig.len().max(1) as u64) as usize;
            if !sig.is_empty() {
                sig[k] ^= 1 << rng.below(8);
            }
        }
        out.push(m(&format!("corrupt-sig/pos{}of{}", i + 1, n), c));
        let mut c = base.clone();
        c.vkey_wits_mut().unwrap().remove(i);
        out.push(m(&format!("drop/pos{}of{}", i + 1, n), c));
    }
    // extra witnesses: valid / invalid, appended or prepended, one or two of them
    for (goods, label) in [(vec![true], "extra-valid"), (vec![false], "extra-invalid"), (vec![true, false], "extra-valid+invalid"), (vec![false, true], "extra-invalid+valid"), (vec![true, true, false], "extra-2valid+invalid")] {
        for front in [false, true] {
            let mut c = base.clone();
            for (j, g) in goods.iter().enumerate() {
                c.add_witness(*g, &[b'x', j as u8]);
            }
            if front {
                let k = goods.len();
                if let Some(w) = c.vkey_wits_mut() {
                    let len = w.len();
                    w.rotate_left(len - k);
                }
            }
            out.push(m(&format!("{}/{}", label, if front { "front" } else { "back" }), c));
        }
    }
    // extra valid witness whose signature is then corrupted (a key we own, signature over another message)
    let mut c = base.clone();
    c.add_witness(true, b"y");
    c.add_witness(true, b"z");
    let nn = c.n_vkey_wits();
    if let Some(w) = c.vkey_wits_mut() {
        if let Some(Cb::Bytes(sig, _)) = w[nn - 1].items_mut().map(|x| &mut x[1]) {
            sig[3] ^= 0x40;
        }
    }
    out.push(m("extra-valid+corrupted/back", c));
    // a valid signature / key followed by extra bytes is not a valid 64 / 32 byte signature / key
    for (which, label) in [(1usize, "signature"), (0, "key")] {
        // on the first witness (signature only: a longer key has another hash) and on an extra valid witness
        for extra in [false, true] {
            if which == 0 && !extra {
                continue;
            }
            let mut c = base.clone();
            if extra {
                c.add_witness(true, b"tb");
            }
            let nn = c.n_vkey_wits();
            if nn == 0 {
                continue;
            }
            let idx = if extra { nn - 1 } else { 0 };
            let w = &mut c.vkey_wits_mut().unwrap()[idx];
            let mut b = w.items().unwrap()[which].as_bytes().cloned().unwrap_or_default();
            b.push(0x2a);
            w.items_mut().unwrap()[which] = Cb::bytes(&b);
            out.push(m(&format!("trailing-byte/{label}/{}", if extra { "extra-witness" } else { "first-witness" }), c));
        }
    }
    // non-canonical re-encodings of the body: witnesses over the transaction id (the wire bytes) / over the
    // hash of the body as the codec would re-encode it
    for style in Case::ENCODINGS {
        let mut c = base.clone();
        if !c.reencode(style) {
            continue;
        }
        out.push(m(&format!("reencoded/{style}/signed-tx-id"), c.clone()));
        if let Some(h) = c.reencoded_body_hash() {
            if h != c.body_hash() {
                c.resign_over(h);
                out.push(m(&format!("reencoded/{style}/signed-reencoded-hash"), c));
            }
        }
    }
    // duplicates and reorderings
    if n > 0 {
        let mut c = base.clone();
        let w0 = c.vkey_wits_mut().unwrap()[0].clone();
        c.vkey_wits_mut().unwrap().push(w0);
        out.push(m("duplicate-first", c));
        let mut c = base.clone();
        let mut w0 = c.vkey_wits_mut().unwrap()[0].clone();
        if let Some(Cb::Bytes(sig, _)) = w0.items_mut().map(|x| &mut x[1]) {
            sig[0] ^= 0x80;
        }
        c.vkey_wits_mut().unwrap().push(w0);
        out.push(m("duplicate-first-corrupted", c));
        let mut c = base.clone();
        c.add_witness(true, b"r");
        c.vkey_wits_mut().unwrap().reverse();
        out.push(m("reverse-order+extra-valid", c));
        if thorough && n > 1 {
            let mut c = base.clone();
            rng.shuffle(c.vkey_wits_mut().unwrap());
            out.push(m("shuffle", c));
        }
    }
    // required signers (Alonzo and later): unknown signer, signer with a valid / invalid witness
    if matches!(base.era.as_str(), "alonzo" | "babbage" | "conway") {
        let add_signer = |c: &mut Case, kh: &[u8]| {
            if c.body().get(14).is_none() {
                c.body_mut().set(14, Cb::array(vec![]));
            }
            c.body_mut().get_mut(14).unwrap().items_mut().unwrap().push(Cb::bytes(kh));
        };
        let mut c = base.clone();
        add_signer(&mut c, &[0x42; 28]);
        c.resign();
        out.push(m("required-signer/unknown", c));
        let mut c = base.clone();
        let kh = c.add_witness(true, b"s");
        add_signer(&mut c, &kh);
        c.resign();
        out.push(m("required-signer/with-valid-witness", c));
        let mut c = base.clone();
        let kh = c.add_witness(false, b"t");
        add_signer(&mut c, &kh);
        c.resign();
        out.push(m("required-signer/with-invalid-witness", c));
        let mut c = base.clone();
        let kh = c.add_witness(true, b"u");
        add_signer(&mut c, &kh);
        c.resign();
        let nn = c.n_vkey_wits();
        c.vkey_wits_mut().unwrap().remove(nn - 1);
        out.push(m("required-signer/witness-dropped", c));
    }
    out
}
