//! `phase1-synth` (spec -> impl): synthesise a REAL signed transaction for every abstract recipe that TLC
//! generated from GenPhase1.tla, run the real validate_tx on it and log projection + verdict like
//! `phase1-trace` does, together with the specification's reference verdict of the recipe.
//!
//! Universe: own Ed25519 keys K1, K2, KC (collateral), KX (extra witness); UTxO entries k1 (key K1, 50 ada,
//! 5 of asset P.A from Mary on), k2 (key K2, 20 ada), s1 (locked by the always-true native script P, 30 ada),
//! c1 (key KC, 10 ada, collateral); outputs out1 (K2, everything that is left) and out2 (K1, 2 ada).
//! The Plutus part (script-locked input, script, datum, redeemer, script data hash, reference input) is
//! grafted from an accepted Plutus fixture of the era; our own inputs get transaction ids that keep the
//! script input at the position its redeemer points to.  Protocol parameters / slot / network are those of
//! a fixture of the era.  The fee is solved by iteration (it depends on the size).
use crate::case::{blake224, with_metx, Case, EnvSpec, Key, Overrides, UtxoEntry};
use crate::cbor::Cb;
use crate::mutate::val_coin;
use pv_core::{json, serde_json::Value, Args, Ndjson};

const K1_COIN: u64 = 50_000_000;
const K2_COIN: u64 = 20_000_000;
const S1_COIN: u64 = 30_000_000;
const C1_COIN: u64 = 10_000_000;
const OUT2_COIN: u64 = 2_000_000;

fn key(tag: &str) -> Key {
    let sk = crate::case::blake256(format!("pv-ledger synth key {tag}").as_bytes());
    let pk_obj = pallas_crypto::key::ed25519::SecretKey::from(sk).public_key();
    let mut pk = [0u8; 32];
    pk.copy_from_slice(pk_obj.as_ref());
    Key { sk, pk }
}
fn key_addr(net: u8, k: &Key) -> Vec<u8> {
    [&[0x60 | net][..], &blake224(&k.pk)[..]].concat()
}
fn script_addr(net: u8, h: &[u8]) -> Vec<u8> {
    [&[0x70 | net][..], h].concat()
}
fn txid(first: u8, n: u8) -> [u8; 32] {
    let mut h = [first; 32];
    h[31] = n;
    h
}
fn value(coin: u64, assets: &[(Vec<u8>, Vec<u8>, u64)]) -> Cb {
    let assets: Vec<_> = assets.iter().filter(|a| a.2 > 0).collect();
    if assets.is_empty() {
        return Cb::uint(coin);
    }
    let mut pols: std::collections::BTreeMap<Vec<u8>, Vec<(Cb, Cb)>> = Default::default();
    for (p, n, q) in assets {
        pols.entry(p.clone()).or_default().push((Cb::bytes(n), Cb::uint(*q)));
    }
    Cb::array(vec![Cb::uint(coin), Cb::map(pols.into_iter().map(|(p, a)| (Cb::bytes(&p), Cb::map(a))).collect())])
}
fn output(kind: &str, addr: &[u8], val: Cb) -> Cb {
    match kind {
        "alonzo" => Cb::array(vec![Cb::bytes(addr), val]),
        _ => Cb::map(vec![(Cb::uint(0), Cb::bytes(addr)), (Cb::uint(1), val)]),
    }
}
/// assets of a UTxO entry value as (policy, name, quantity)
fn assets_of(v: &Cb) -> Vec<(Vec<u8>, Vec<u8>, u64)> {
    let mut out = vec![];
    if let Some(pols) = v.items().and_then(|i| i.get(1)).and_then(|m| m.entries()) {
        for (p, a) in pols {
            for (n, q) in a.entries().map(|e| e.as_slice()).unwrap_or(&[]) {
                out.push((p.as_bytes().cloned().unwrap_or_default(), n.as_bytes().cloned().unwrap_or_default(), q.as_u64().unwrap_or(0)));
            }
        }
    }
    out
}

struct Graft {
    inputs: Vec<UtxoEntry>,
    refs: Vec<UtxoEntry>,
    wits: Vec<(u64, Cb)>,
    sdh: Cb,
    spend_index: usize,
}

/// environment of the era + the Plutus part of an accepted fixture
fn era_setup(era: &str, cases: &[Case]) -> (EnvSpec, Option<Graft>) {
    let pick = |name: &str| cases.iter().find(|c| c.name.ends_with(name)).unwrap_or_else(|| pv_core::die(&format!("fixture {name} not available")));
    let (envc, graft_from): (&Case, Option<&Case>) = match era {
        "shelley" => (pick("successful_mainnet_shelley_tx"), None),
        "mary" => (pick("successful_mainnet_mary_tx_with_minting"), None),
        "alonzo" => (pick("alonzo::successful_mainnet_tx_with_plutus_script"), Some(pick("alonzo::successful_mainnet_tx_with_plutus_script"))),
        "babbage" => (pick("successful_mainnet_tx_with_plutus_v1_script"), Some(pick("successful_mainnet_tx_with_plutus_v1_script"))),
        "conway" => (pick("conway::successful_mainnet_tx_with_plutus_v3_script+witness-script"), Some(pick("conway::successful_mainnet_tx_with_plutus_v3_script+witness-script"))),
        e => pv_core::die(&format!("no synthesis for era {e}")),
    };
    let mut env = envc.env.clone();
    env.ov = Overrides::default();
    let graft = graft_from.map(|f| {
        let t = f.run().proj;
        let script_hashes: Vec<String> = t["needScripts"].as_array().unwrap().iter().map(|x| x.as_str().unwrap().to_string()).collect();
        let mut inputs = vec![];
        for k in 0..f.input_refs(0).len() {
            let u = f.utxo_index_of(0, k).expect("fixture input in utxo");
            let e = &f.utxo[u];
            let addr = match e.kind {
                "alonzo" => e.out.items().unwrap()[0].as_bytes().cloned().unwrap(),
                _ => e.out.get(0).unwrap().as_bytes().cloned().unwrap(),
            };
            if addr.len() >= 29 && (addr[0] >> 4) & 1 == 1 && script_hashes.contains(&hex::encode(&addr[1..29])) {
                inputs.push(e.clone());
            }
        }
        if inputs.len() != 1 {
            pv_core::die(&format!("{}: expected exactly one script-locked input to graft", f.name));
        }
        let refs = (0..f.input_refs(18).len()).filter_map(|k| f.utxo_index_of(18, k)).map(|u| f.utxo[u].clone()).collect();
        let wits = [3u64, 4, 5, 6, 7].iter().filter_map(|k| f.wits().get(*k).map(|v| (*k, v.clone()))).collect();
        let spend_index = t["redeemers"].as_array().unwrap().iter().find(|r| r["tag"] == "Spend").map(|r| r["idx"].as_u64().unwrap() as usize).unwrap_or(0);
        Graft { inputs, refs, wits, sdh: f.body().get(11).cloned().expect("script data hash"), spend_index }
    });
    (env, graft)
}

fn s<'a>(r: &'a Value, k: &str) -> &'a str {
    r[k].as_str().unwrap_or_else(|| pv_core::die(&format!("recipe field {k}")))
}

/// Build the signed transaction of a recipe. None: the recipe cannot be expressed concretely.
fn synthesise(era: &str, r: &Value, env: &EnvSpec, graft: &Option<Graft>) -> Option<Case> {
    let net = env.net;
    let kind: &'static str = match era {
        "babbage" => "babbage",
        "conway" => "conway",
        _ => "alonzo",
    };
    let (k1, k2, kc, kx) = (key("k1"), key("k2"), key("kc"), key("kx"));
    let (policy, trivial_script) = Case::trivial_policy();
    let multi = era != "shelley";
    let plutus = s(r, "plutus") != "no";
    let g = if plutus { Some(graft.as_ref()?) } else { None };
    // our inputs: the one(s) that must sort before the grafted script input get a low transaction id
    let low = g.map(|g| g.spend_index).unwrap_or(0);
    let mut my: Vec<(&str, [u8; 32])> = vec![("k1", txid(if low >= 1 { 0x00 } else { 0xff }, 1))];
    match s(r, "ins") {
        "k1k2" => my.push(("k2", txid(if low >= 2 { 0x00 } else { 0xff }, 2))),
        "k1s1" => my.push(("s1", txid(if low >= 2 { 0x00 } else { 0xff }, 3))),
        _ => {}
    }
    if low > my.len() {
        return None;
    }
    let mut utxo: Vec<UtxoEntry> = vec![];
    let mut in_coin: u128 = 0;
    let mut in_assets: Vec<(Vec<u8>, Vec<u8>, u64)> = vec![];
    let mut inputs: Vec<Cb> = vec![];
    for (name, h) in &my {
        let (addr, coin, assets) = match *name {
            "k1" => (key_addr(net, &k1), K1_COIN, if multi { vec![(policy.clone(), b"A".to_vec(), 5u64)] } else { vec![] }),
            "k2" => (key_addr(net, &k2), K2_COIN, vec![]),
            _ => (script_addr(net, &policy), S1_COIN, vec![]),
        };
        in_coin += coin as u128;
        in_assets.extend(assets.clone());
        utxo.push(UtxoEntry { hash: *h, idx: 0, kind, out: output(kind, &addr, value(coin, &assets)), role: "in" });
        inputs.push(Cb::array(vec![Cb::bytes(h), Cb::uint(0)]));
    }
    if let Some(g) = g {
        for e in &g.inputs {
            let v = match e.kind {
                "alonzo" => e.out.items().unwrap()[1].clone(),
                _ => e.out.get(1).unwrap().clone(),
            };
            in_coin += val_coin(&v) as u128;
            in_assets.extend(assets_of(&v));
            utxo.push(e.clone());
            inputs.push(Cb::array(vec![Cb::bytes(&e.hash), Cb::uint(e.idx)]));
        }
        utxo.extend(g.refs.iter().cloned());
    }
    // mint
    let mut mint: Vec<(Vec<u8>, i128)> = vec![];
    let mut out_assets = in_assets.clone();
    match s(r, "mint") {
        "plusSpent" => {
            mint.push((b"A".to_vec(), 1));
            out_assets.iter_mut().find(|a| a.1 == b"A").map(|a| a.2 += 1);
        }
        "minusSpent" => {
            mint.push((b"A".to_vec(), -1));
            out_assets.iter_mut().find(|a| a.1 == b"A").map(|a| a.2 -= 1);
        }
        "plusAbsent" => {
            mint.push((b"B".to_vec(), 1));
            out_assets.push((policy.clone(), b"B".to_vec(), 1));
        }
        "minusAbsent" => mint.push((b"B".to_vec(), -1)),
        _ => {}
    }
    let need_trivial = s(r, "ins") == "k1s1" || !mint.is_empty();
    // collateral
    let coll_hash = txid(0xee, 9);
    let mut body: Vec<(Cb, Cb)> = vec![];
    let slot = env.slot;
    body.push((Cb::uint(0), Cb::array(inputs)));
    let mut out1_addr = key_addr(net, &k2);
    if s(r, "net") == "outWrong" {
        out1_addr[0] ^= 1;
    }
    body.push((Cb::uint(1), Cb::array(vec![output(kind, &out1_addr, Cb::uint(0)), output(kind, &key_addr(net, &k1), Cb::uint(OUT2_COIN))])));
    body.push((Cb::uint(2), Cb::uint(200_000)));
    body.push((Cb::uint(3), Cb::uint(if s(r, "val") == "afterTtl" { slot - 1 } else { slot + 1000 })));
    if era != "shelley" {
        body.push((Cb::uint(8), Cb::uint(if s(r, "val") == "beforeStart" { slot + 1 } else { slot - 1000 })));
    }
    if !mint.is_empty() {
        body.push((Cb::uint(9), Cb::map(vec![(Cb::bytes(&policy), Cb::map(mint.iter().map(|(n, q)| (Cb::bytes(n), Cb::int(*q))).collect()))])));
    }
    let scripted = matches!(era, "alonzo" | "babbage" | "conway");
    let mut c1_coin = C1_COIN;
    if let Some(g) = g {
        body.push((Cb::uint(11), g.sdh.clone()));
        let shape = s(r, "plutus");
        if shape != "collNone" {
            body.push((Cb::uint(13), Cb::array(vec![Cb::array(vec![Cb::bytes(&coll_hash), Cb::uint(0)])])));
            if matches!(era, "babbage" | "conway") && shape != "collMissing" {
                body.push((Cb::uint(17), Cb::uint(C1_COIN + if shape == "collAnnot" { 1 } else { 0 })));
            }
        }
        if !g.refs.is_empty() {
            body.push((Cb::uint(18), Cb::array(g.refs.iter().map(|e| Cb::array(vec![Cb::bytes(&e.hash), Cb::uint(e.idx)])).collect())));
        }
    }
    if scripted {
        body.push((Cb::uint(15), Cb::uint(if s(r, "net") == "bodyWrong" { 1 - (net as u64 & 1) } else { net as u64 })));
    }
    body.sort_by_key(|(k, _)| k.as_u64().unwrap());
    // witnesses
    let mut owned: Vec<Key> = vec![k1.clone()];
    if s(r, "ins") == "k1k2" {
        owned.push(k2.clone());
    }
    if plutus {
        owned.push(kc.clone());
    }
    if s(r, "wits") == "missing" {
        owned.remove(0);
    }
    if s(r, "wits") == "extraValid" {
        owned.push(kx.clone());
    }
    let mut vk: Vec<Cb> = owned.iter().map(|k| Cb::array(vec![Cb::bytes(&k.pk), Cb::bytes(&[0u8; 64])])).collect();
    match s(r, "wits") {
        "extraInvalid" => vk.push(Cb::array(vec![Cb::bytes(&kx.pk), Cb::bytes(&[0x5au8; 64])])),
        "dupCorrupted" => vk.push(Cb::array(vec![Cb::bytes(&owned[0].pk), Cb::bytes(&[0u8; 64])])),
        _ => {}
    }
    let mut wits: Vec<(Cb, Cb)> = vec![(Cb::uint(0), Cb::array(vk))];
    if need_trivial {
        wits.push((Cb::uint(1), Cb::array(vec![trivial_script.clone()])));
    }
    if let Some(g) = g {
        for (k, v) in &g.wits {
            wits.push((Cb::uint(*k), v.clone()));
        }
    }
    wits.sort_by_key(|(k, _)| k.as_u64().unwrap());
    let mut c = Case {
        name: format!("synth/{era}"),
        era: era.to_string(),
        tx: Cb::array(vec![Cb::map(body), Cb::map(wits), Cb::Simple(21, false), Cb::null()]),
        utxo,
        env: env.clone(),
        setup: String::new(),
        keys: owned.clone(),
        renames: vec![],
    };
    // fee / balance fixpoint (the minimum fee depends on the size, the size on the amounts)
    let (a, b) = crate::mutate::min_fee_params_pub(&c);
    let fee_delta: i128 = match s(r, "fee") {
        "min-1" => -1,
        "min+1" => 1,
        _ => 0,
    };
    let bal: i128 = if s(r, "bal") == "out+1" { 1 } else { 0 };
    let mut fee: i128 = 200_000;
    for _ in 0..8 {
        let out1 = in_coin as i128 - fee - OUT2_COIN as i128 + bal;
        if out1 <= 0 {
            return None;
        }
        *c.out_value_mut(0)? = value(out1 as u64, &out_assets);
        c.set_fee(fee as u64);
        c.resign();
        let bytes = c.tx_bytes();
        let size = with_metx(era, &bytes, |t| t.size() as i128).ok()?;
        let want = a as i128 * size + b as i128 + fee_delta;
        if want == fee {
            break;
        }
        fee = want;
    }
    // collateral entry (its amount may depend on the fee)
    if let Some(_g) = g {
        let shape = s(r, "plutus");
        let pct = crate::mutate::collateral_pct_pub(&c) as u128;
        if shape == "collShort" {
            c1_coin = ((fee as u128 * pct - 1) / 100) as u64;
            if c.body().get(17).is_some() {
                c.body_mut().set(17, Cb::uint(c1_coin));
                c.resign(); // same width: the size and so the minimum fee do not move
            }
        }
        if shape != "collMissing" && shape != "collNone" {
            let addr = if shape == "collScript" { script_addr(net, &[0x55u8; 28]) } else { key_addr(net, &kc) };
            c.utxo.push(UtxoEntry { hash: coll_hash, idx: 0, kind, out: output(kind, &addr, Cb::uint(c1_coin)), role: "coll" });
        }
    }
    // last: the deliberately invalid signature of the duplicated witness
    if s(r, "wits") == "dupCorrupted" {
        let n = c.n_vkey_wits();
        let first_sig = c.vkey_wits_mut()?[0].items()?[1].as_bytes()?.clone();
        let mut bad = first_sig;
        bad[9] ^= 0x04;
        c.vkey_wits_mut()?[n - 1].items_mut()?[1] = Cb::bytes(&bad);
    }
    Some(c)
}

pub fn run(args: &Args) {
    crate::case::install_panic_hook();
    let vectors = pv_core::read_ndjson(args.get("in"));
    let mut log = Ndjson::create(args.get("out"));
    let cases = crate::trace::load_cases(None);
    let mut stats = std::collections::BTreeMap::<String, u64>::new();
    let mut drift = std::collections::BTreeMap::<String, u64>::new();
    let mut eras: Vec<String> = vectors.iter().map(|v| v["era"].as_str().unwrap().to_string()).collect();
    eras.sort();
    eras.dedup();
    for era in eras {
        let (env, graft) = era_setup(&era, &cases);
        let mut vs: Vec<&Value> = vectors.iter().filter(|v| v["era"] == era.as_str()).collect();
        vs.sort_by_key(|v| (v["off"].as_u64().unwrap_or(9), v["recipe"].to_string()));
        let mut first = true;
        for v in vs {
            let r = &v["recipe"];
            let Some(c) = synthesise(&era, r, &env, &graft) else {
                *stats.entry(format!("{era}/not-expressible")).or_default() += 1;
                continue;
            };
            let o = c.run();
            *stats.entry(format!("{era}/{}", o.verdict)).or_default() += 1;
            if o.verdict == "undecodable" {
                pv_core::die(&format!("synthesised transaction does not decode ({era} {r}): {}", o.detail));
            }
            if first && (v["off"] != 0 || o.verdict != "accept") {
                pv_core::die(&format!("the all-valid default recipe of {era} must come first and be accepted: {} {}", o.verdict, o.detail));
            }
            let label: String = ["ins", "fee", "bal", "mint", "wits", "val", "net", "plutus"]
                .iter()
                .filter(|k| r[**k] != DEFAULTS.iter().find(|d| d.0 == **k).unwrap().1)
                .map(|k| format!("{}={}", k, r[*k].as_str().unwrap()))
                .collect::<Vec<_>>()
                .join(",");
            let only_fee = ["ins", "bal", "mint", "wits", "val", "net", "plutus"].iter().all(|k| r[*k] == DEFAULTS.iter().find(|d| d.0 == *k).unwrap().1);
            let mut t = o.proj;
            t["sdhBase"] = json!("");
            t["scriptDataSame"] = json!(false);
            if o.verdict != v["ref"].as_str().unwrap() && o.verdict != "panic" {
                *drift.entry(format!("{era}: {} (ref {} {}, impl {} {})", label, v["ref"].as_str().unwrap(), v["broken"], o.verdict, o.detail.chars().take(40).collect::<String>())).or_default() += 1;
            }
            log.ev(json!({"ev": if first { "base" } else { "tx" }, "seq": log.lines + 1, "fx": format!("synth/{era}"), "era": era,
                          "mut": if label.is_empty() { "synth/default".to_string() } else { format!("synth/{label}") }, "rule": "",
                          "boundary": only_fee, "verdict": o.verdict, "detail": o.detail.chars().take(160).collect::<String>(),
                          "ref": v["ref"], "refBroken": v["broken"], "T": t}));
            first = false;
        }
    }
    let n = log.finish();
    println!("{}", json!({"events": n, "stats": stats, "drift": drift}));
}

const DEFAULTS: [(&str, &str); 8] =
    [("ins", "k1"), ("fee", "min"), ("bal", "ok"), ("mint", "none"), ("wits", "needed"), ("val", "in"), ("net", "ok"), ("plutus", "no")];
