//! A validation case = (era, transaction as a CBOR tree, UTxO entries as CBOR
//! trees, environment), built from a fixture of pallas-validate's tests and
//! edited by the mutators.  `run` feeds the case to the real `validate_tx`
//! (under `pv_core::catch`) and computes the INDEPENDENT projection of the
//! mutated transaction that TLC evaluates (pallas-traverse / pallas-addresses /
//! pallas-crypto only -- nothing from pallas-validate).

use crate::cbor::Cb;
use crate::fixtures_types::{FixtureSpec, OutSpec};
use crate::params;
use pallas_addresses::{Address, ShelleyPaymentPart};
use pallas_codec::minicbor;
use pallas_codec::utils::CborWrap;
use pallas_crypto::hash::{Hash, Hasher};
use pallas_crypto::key::ed25519::{PublicKey, SecretKey, Signature};
use pallas_primitives::{alonzo, babbage, byron, conway};
use pallas_traverse::{Era, MultiEraInput, MultiEraOutput, MultiEraTx};
use pallas_validate::phase1::validate_tx;
use pallas_validate::utils::{AccountState, CertState, Environment, MultiEraProtocolParameters, UTxOs};
use pv_core::{big_json_i128, big_json_u64, json, serde_json::Value};
use std::borrow::Cow;
use std::collections::BTreeMap;
use std::str::FromStr;

#[derive(Clone, Debug)]
pub struct UtxoEntry {
    pub hash: [u8; 32],
    pub idx: u64,
    /// "byron" | "alonzo" | "babbage" | "conway" : how the output is decoded
    pub kind: &'static str,
    pub out: Cb,
    /// role in the fixture: "in" | "coll" | "ref"
    pub role: &'static str,
}

#[derive(Clone, Debug, Default)]
pub struct Overrides {
    pub max_tx_size: Option<u64>,
    pub max_value_size: Option<u32>,
    pub max_collateral_inputs: Option<u32>,
    pub max_mem: Option<u64>,
    pub max_steps: Option<u64>,
    /// Conway: remove the cost model of this Plutus language (1, 2, 3)
    pub drop_cost_model: Option<u8>,
}

#[derive(Clone, Debug)]
pub struct EnvSpec {
    pub params: String,
    pub magic: u32,
    pub slot: u64,
    pub net: u8,
    pub acnt: Option<(u64, u64)>,
    pub ov: Overrides,
}

#[derive(Clone, Debug)]
pub struct Key {
    pub sk: [u8; 32],
    pub pk: [u8; 32],
}

#[derive(Clone, Debug)]
pub struct Case {
    pub name: String,
    pub era: String,
    pub tx: Cb,
    pub utxo: Vec<UtxoEntry>,
    pub env: EnvSpec,
    pub setup: String,
    /// keys we own (after re-keying): witnesses carrying one of these public keys are re-signed by `resign`
    pub keys: Vec<Key>,
    /// key-hash renamings done by `rekey` (old 28-byte hash -> new), applied to the certificate-state setup too
    pub renames: Vec<(Vec<u8>, Vec<u8>)>,
}

pub fn blake224(b: &[u8]) -> [u8; 28] {
    let h: Hash<28> = Hasher::<224>::hash(b);
    let mut o = [0u8; 28];
    o.copy_from_slice(h.as_ref());
    o
}
pub fn blake256(b: &[u8]) -> [u8; 32] {
    let h: Hash<32> = Hasher::<256>::hash(b);
    let mut o = [0u8; 32];
    o.copy_from_slice(h.as_ref());
    o
}

// ------------------------------------------------------------------ building

fn value_cb(coin: u64, assets: &[(&str, &str, u64)]) -> Cb {
    if assets.is_empty() {
        return Cb::uint(coin);
    }
    let mut pols: BTreeMap<Vec<u8>, Vec<(Cb, Cb)>> = BTreeMap::new();
    for (p, n, q) in assets {
        pols.entry(pv_core::unhex(p)).or_default().push((Cb::bytes(&pv_core::unhex(n)), Cb::uint(*q)));
    }
    Cb::array(vec![
        Cb::uint(coin),
        Cb::map(pols.into_iter().map(|(p, a)| (Cb::bytes(&p), Cb::map(a))).collect()),
    ])
}

pub fn out_cb(kind: &str, o: &OutSpec) -> Cb {
    let addr = pv_core::unhex(o.addr);
    match kind {
        "byron" => Cb::array(vec![
            Cb::array(vec![Cb::tag(24, Cb::bytes(&addr)), Cb::uint(3430631884)]),
            Cb::uint(o.coin),
        ]),
        "alonzo" => {
            let mut v = vec![Cb::bytes(&addr), value_cb(o.coin, o.assets)];
            if let Some(h) = o.datum_hash {
                v.push(Cb::bytes(&pv_core::unhex(h)));
            }
            Cb::array(v)
        }
        _ => {
            let mut m = vec![(Cb::uint(0), Cb::bytes(&addr)), (Cb::uint(1), value_cb(o.coin, o.assets))];
            if let Some(h) = o.datum_hash {
                m.push((Cb::uint(2), Cb::array(vec![Cb::uint(0), Cb::bytes(&pv_core::unhex(h))])));
            } else if let Some(d) = o.inline_datum {
                m.push((Cb::uint(2), Cb::array(vec![Cb::uint(1), Cb::tag(24, Cb::bytes(&pv_core::unhex(d)))])));
            }
            if let Some((lang, s)) = o.script_ref {
                let inner = if lang == 0 {
                    let ns = Cb::parse(&pv_core::unhex(s)).unwrap_or_else(|e| pv_core::die(&format!("native script_ref: {e}")));
                    Cb::array(vec![Cb::uint(0), ns])
                } else {
                    Cb::array(vec![Cb::uint(lang as u64), Cb::bytes(&pv_core::unhex(s))])
                };
                m.push((Cb::uint(3), Cb::tag(24, Cb::bytes(&inner.to_vec()))));
            }
            Cb::map(m)
        }
    }
}

fn input_ref(c: &Cb, byron: bool) -> ([u8; 32], u64) {
    // shelley+: [hash, idx]; byron: [0, #6.24(bytes([hash, idx]))]
    let pair = if byron {
        let items = c.items().expect("byron txin");
        match &items[1] {
            Cb::Tag(24, _, inner) => Cb::parse(inner.as_bytes().expect("txin bytes")).expect("txin inner"),
            _ => pv_core::die("byron txin shape"),
        }
    } else {
        c.clone()
    };
    let it = pair.items().expect("input pair");
    let mut h = [0u8; 32];
    h.copy_from_slice(it[0].as_bytes().expect("input hash"));
    (h, it[1].as_u64().expect("input index"))
}

impl Case {
    pub fn is_byron(&self) -> bool {
        self.era == "byron"
    }
    pub fn body(&self) -> &Cb {
        &self.tx.items().expect("tx array")[0]
    }
    pub fn body_mut(&mut self) -> &mut Cb {
        &mut self.tx.items_mut().expect("tx array")[0]
    }
    pub fn wits(&self) -> &Cb {
        &self.tx.items().expect("tx array")[1]
    }
    pub fn wits_mut(&mut self) -> &mut Cb {
        &mut self.tx.items_mut().expect("tx array")[1]
    }
    pub fn utxo_kind(&self) -> &'static str {
        match self.era.as_str() {
            "byron" => "byron",
            "babbage" => "babbage",
            "conway" => "conway",
            _ => "alonzo",
        }
    }
    /// (hash, idx) of the body's inputs under `key` (0 inputs, 13 collateral, 18 reference inputs)
    pub fn input_refs(&self, key: u64) -> Vec<([u8; 32], u64)> {
        if self.is_byron() {
            if key != 0 {
                return vec![];
            }
            return self.body().items().expect("byron tx")[0].items().expect("ins").iter().map(|c| input_ref(c, true)).collect();
        }
        match self.body().get(key).and_then(|c| c.items()) {
            Some(v) => v.iter().map(|c| input_ref(c, false)).collect(),
            None => vec![],
        }
    }

    pub fn from_fixture(fx: &FixtureSpec) -> Case {
        let path = format!("{}/test_data/{}", pv_core::repo_root(), fx.tx_file);
        let hex = std::fs::read_to_string(&path).unwrap_or_else(|e| pv_core::die(&format!("cannot read {path}: {e}")));
        let bytes = pv_core::unhex(hex.trim());
        let tx = Cb::parse(&bytes).unwrap_or_else(|e| pv_core::die(&format!("{}: cbor: {e}", fx.tx_file)));
        if tx.to_vec() != bytes {
            pv_core::die(&format!("{}: cbor tree does not round-trip", fx.tx_file));
        }
        let mut c = Case {
            name: fx.name.to_string(),
            era: fx.era.to_string(),
            tx,
            utxo: vec![],
            env: EnvSpec {
                params: fx.params.to_string(),
                magic: fx.prot_magic,
                slot: fx.block_slot,
                net: fx.network_id,
                acnt: fx.acnt,
                ov: Overrides::default(),
            },
            setup: fx.setup.to_string(),
            keys: vec![],
            renames: vec![],
        };
        let kind = c.utxo_kind();
        for (key, specs, role) in [(0u64, fx.inputs, "in"), (13, fx.collateral, "coll"), (18, fx.ref_inputs, "ref")] {
            for ((hash, idx), spec) in c.input_refs(key).into_iter().zip(specs.iter()) {
                // the tests insert into a HashMap: a later entry for the same reference overwrites the earlier one
                if let Some(u) = c.utxo.iter_mut().find(|u| u.hash == hash && u.idx == idx) {
                    u.out = out_cb(kind, spec);
                    continue;
                }
                c.utxo.push(UtxoEntry { hash, idx, kind, out: out_cb(kind, spec), role });
            }
        }
        if c.setup == "shelley4_drop_wit" {
            let w = c.wits_mut().get_mut(0).and_then(|x| x.items_mut()).expect("vkey wits");
            let keep = w[1].clone();
            *w = vec![keep];
        }
        c
    }

    // ------------------------------------------------------------ signatures
    pub fn body_hash(&self) -> [u8; 32] {
        blake256(&self.body().to_vec())
    }

    fn byron_sign_data(&self, tag: u64) -> Vec<u8> {
        let mut d = Vec::new();
        Cb::uint(tag).write(&mut d);
        Cb::uint(self.env.magic as u64).write(&mut d);
        Cb::bytes(&self.body_hash()).write(&mut d);
        d
    }

    /// re-sign every witness whose public key we own
    pub fn resign(&mut self) {
        if self.keys.is_empty() {
            return;
        }
        let keys = self.keys.clone();
        if self.is_byron() {
            let data = [self.byron_sign_data(1), self.byron_sign_data(2)];
            let wits = self.tx.items_mut().expect("payload")[1].items_mut().expect("byron wits");
            for w in wits.iter_mut() {
                let Some(it) = w.items_mut() else { continue };
                let ty = it[0].as_u64().unwrap_or(9);
                let Cb::Tag(24, _, inner) = &mut it[1] else { continue };
                let Some(raw) = inner.as_bytes() else { continue };
                let Ok(mut pair) = Cb::parse(raw) else { continue };
                let Some(p) = pair.items_mut() else { continue };
                let Some(pk) = p[0].as_bytes().cloned() else { continue };
                if pk.len() < 32 {
                    continue;
                }
                if let Some(k) = keys.iter().find(|k| k.pk[..] == pk[..32]) {
                    let sk = SecretKey::from(k.sk);
                    let sig = sk.sign(&data[if ty == 2 { 1 } else { 0 }]);
                    p[1] = Cb::bytes(sig.as_ref());
                    **inner = Cb::bytes(&pair.to_vec());
                }
            }
            return;
        }
        let h = self.body_hash();
        if let Some(ws) = self.wits_mut().get_mut(0).and_then(|x| x.items_mut()) {
            for w in ws.iter_mut() {
                let Some(it) = w.items_mut() else { continue };
                let Some(pk) = it[0].as_bytes().cloned() else { continue };
                if let Some(k) = keys.iter().find(|k| k.pk[..] == pk[..]) {
                    let sk = SecretKey::from(k.sk);
                    it[1] = Cb::bytes(sk.sign(h).as_ref());
                }
            }
        }
    }

    fn fresh_key(&mut self, seed_tag: &[u8]) -> Key {
        let mut seed = Vec::from(&b"pv-ledger key "[..]);
        seed.extend_from_slice(self.name.as_bytes());
        seed.extend_from_slice(seed_tag);
        seed.push(self.keys.len() as u8);
        let sk = blake256(&seed);
        let pk_obj = SecretKey::from(sk).public_key();
        let mut pk = [0u8; 32];
        pk.copy_from_slice(pk_obj.as_ref());
        let k = Key { sk, pk };
        self.keys.push(k.clone());
        k
    }

    /// key of ours that replaces the original key `old_pk` (same in every fixture)
    fn derived_key(&mut self, old_pk: &[u8]) -> Key {
        let sk = blake256(&[&b"pv-ledger rekey "[..], old_pk].concat());
        let pk_obj = SecretKey::from(sk).public_key();
        let mut pk = [0u8; 32];
        pk.copy_from_slice(pk_obj.as_ref());
        let k = Key { sk, pk };
        self.keys.push(k.clone());
        k
    }

    /// apply key-hash renamings found while re-keying other fixtures (shared stake keys, pool operators ...)
    pub fn apply_renames(&mut self, renames: &[(Vec<u8>, Vec<u8>)]) {
        for (o, n) in renames {
            if self.renames.iter().any(|(x, _)| x == o) {
                continue;
            }
            let mut hits = self.body_mut().replace_bytes(o, n);
            for u in self.utxo.iter_mut() {
                hits += u.out.replace_bytes(o, n);
            }
            if hits > 0 {
                self.renames.push((o.clone(), n.clone()));
            }
        }
        self.resign();
    }

    /// Add a fresh key of ours (not yet used by any witness); returns it.
    pub fn new_key(&mut self, tag: &[u8]) -> Key {
        self.fresh_key(tag)
    }

    /// Replace every witness key of the fixture by a key of ours, consistently
    /// renaming key hashes / native script hashes in the body, the native
    /// scripts and the UTxO, then sign.  The caller checks that the result is
    /// still accepted (otherwise the original fixture is used, without the
    /// ability to re-sign).
    pub fn rekey(&mut self) {
        if self.is_byron() {
            return self.rekey_byron();
        }
        let old_pks: Vec<Vec<u8>> = match self.wits().get(0).and_then(|x| x.items()) {
            Some(ws) => ws.iter().filter_map(|w| w.items().and_then(|it| it[0].as_bytes().cloned())).collect(),
            None => vec![],
        };
        // native scripts before renaming
        let old_scripts: Vec<Vec<u8>> = match self.wits().get(1).and_then(|x| x.items()) {
            Some(s) => s.iter().map(|x| x.to_vec()).collect(),
            None => vec![],
        };
        let mut done: Vec<Vec<u8>> = vec![];
        for pk in old_pks {
            if pk.len() != 32 || done.contains(&pk) {
                continue;
            }
            done.push(pk.clone());
            let k = self.derived_key(&pk);
            let (oh, nh) = (blake224(&pk), blake224(&k.pk));
            self.renames.push((oh.to_vec(), nh.to_vec()));
            self.body_mut().replace_bytes(&oh, &nh);
            if let Some(ns) = self.wits_mut().get_mut(1) {
                ns.replace_bytes(&oh, &nh);
            }
            if let Some(vs) = self.wits_mut().get_mut(0) {
                vs.replace_bytes(&pk, &k.pk);
            }
            for u in self.utxo.iter_mut() {
                u.out.replace_bytes(&oh, &nh);
            }
        }
        let new_scripts: Vec<Vec<u8>> = match self.wits().get(1).and_then(|x| x.items()) {
            Some(s) => s.iter().map(|x| x.to_vec()).collect(),
            None => vec![],
        };
        for (o, n) in old_scripts.iter().zip(new_scripts.iter()) {
            if o == n {
                continue;
            }
            let (oh, nh) = (blake224(&[&[0u8][..], o].concat()), blake224(&[&[0u8][..], n].concat()));
            self.body_mut().replace_bytes(&oh, &nh);
            for u in self.utxo.iter_mut() {
                u.out.replace_bytes(&oh, &nh);
            }
        }
        self.resign();
    }

    fn rekey_byron(&mut self) {
        use pallas_addresses::byron::{AddrType, AddressPayload, SpendingData};
        let n = self.tx.items().expect("payload")[1].items().map(|w| w.len()).unwrap_or(0);
        for wi in 0..n {
            let (ty, old_pk) = {
                let w = &self.tx.items().unwrap()[1].items().unwrap()[wi];
                let it = w.items().expect("twit");
                let Cb::Tag(24, _, inner) = &it[1] else { continue };
                let pair = Cb::parse(inner.as_bytes().expect("twit bytes")).expect("twit inner");
                (it[0].as_u64().unwrap_or(9), pair.items().unwrap()[0].as_bytes().cloned().unwrap_or_default())
            };
            if ty != 0 && ty != 2 {
                continue;
            }
            let k = self.fresh_key(b"byron");
            // extended public key = our public key ++ the old chain code (only the first 32 bytes are the verification key)
            let mut new_pk = k.pk.to_vec();
            if old_pk.len() > 32 {
                new_pk.extend_from_slice(&old_pk[32..]);
            }
            // rename address roots in the UTxO
            for u in self.utxo.iter_mut() {
                let Some(addr) = u.out.items().and_then(|o| o[0].items()).map(|a| a[0].clone()) else { continue };
                let Cb::Tag(24, _, inner) = addr else { continue };
                let Ok(payload) = minicbor::decode::<AddressPayload>(inner.as_bytes().unwrap()) else { continue };
                let mk = |pk: &[u8]| match payload.addrtype {
                    AddrType::PubKey => Some(SpendingData::PubKey(minicbor::bytes::ByteVec::from(pk.to_vec()))),
                    AddrType::Redeem => Some(SpendingData::Redeem(minicbor::bytes::ByteVec::from(pk.to_vec()))),
                    _ => None,
                };
                let (Some(sd_old), Some(sd_new)) = (mk(&old_pk), mk(&new_pk)) else { continue };
                let old_root = AddressPayload::hash_address_id(&payload.addrtype, &sd_old, &payload.attributes);
                if old_root != payload.root {
                    continue;
                }
                let new_root = AddressPayload::hash_address_id(&payload.addrtype, &sd_new, &payload.attributes);
                u.out.replace_bytes(old_root.as_ref(), new_root.as_ref());
            }
            // put the new key into the witness
            let w = &mut self.tx.items_mut().unwrap()[1].items_mut().unwrap()[wi];
            let it = w.items_mut().unwrap();
            if let Cb::Tag(24, _, inner) = &mut it[1] {
                let mut pair = Cb::parse(inner.as_bytes().unwrap()).unwrap();
                pair.items_mut().unwrap()[0] = Cb::bytes(&new_pk);
                **inner = Cb::bytes(&pair.to_vec());
            }
        }
        self.resign();
    }

    // ------------------------------------------------------------ environment
    pub fn prot_params(&self) -> MultiEraProtocolParameters {
        let mut p = params::prot_params(&self.env.params);
        let ov = &self.env.ov;
        macro_rules! common {
            ($x:expr) => {{
                if let Some(v) = ov.max_tx_size {
                    $x.max_transaction_size = v as u32;
                }
            }};
        }
        macro_rules! scripts {
            ($x:expr) => {{
                if let Some(v) = ov.max_value_size {
                    $x.max_value_size = v;
                }
                if let Some(v) = ov.max_collateral_inputs {
                    $x.max_collateral_inputs = v;
                }
                if let Some(v) = ov.max_mem {
                    $x.max_tx_ex_units.mem = v;
                }
                if let Some(v) = ov.max_steps {
                    $x.max_tx_ex_units.steps = v;
                }
            }};
        }
        match &mut p {
            MultiEraProtocolParameters::Byron(x) => {
                if let Some(v) = ov.max_tx_size {
                    x.max_tx_size = v;
                }
            }
            MultiEraProtocolParameters::Shelley(x) => common!(x),
            MultiEraProtocolParameters::Alonzo(x) => {
                common!(x);
                scripts!(x)
            }
            MultiEraProtocolParameters::Babbage(x) => {
                common!(x);
                scripts!(x)
            }
            MultiEraProtocolParameters::Conway(x) => {
                common!(x);
                scripts!(x);
                match ov.drop_cost_model {
                    Some(1) => x.cost_models_for_script_languages.plutus_v1 = None,
                    Some(2) => x.cost_models_for_script_languages.plutus_v2 = None,
                    Some(3) => x.cost_models_for_script_languages.plutus_v3 = None,
                    _ => {}
                }
            }
            _ => {}
        }
        p
    }

    pub fn environment(&self) -> Environment {
        Environment {
            prot_params: self.prot_params(),
            prot_magic: self.env.magic,
            block_slot: self.env.slot,
            network_id: self.env.net,
            acnt: self.env.acnt.map(|(t, r)| AccountState { treasury: t, reserves: r }),
        }
    }

    pub fn cert_state(&self) -> CertState {
        let mut cs = CertState::default();
        match self.setup.as_str() {
            "mary2_rewards" => {
                let mut h = pv_core::unhex("FB2B631DB76384F64DD94B47F97FC8C2A206764C17A1DE7DA2F70E83");
                for (o, n) in &self.renames {
                    if &h == o {
                        h = n.clone();
                    }
                }
                let h = Hash::<28>::from_str(&hex::encode(h)).unwrap();
                cs.dstate.rewards.insert(alonzo::StakeCredential::AddrKeyhash(h), 0);
            }
            "mary3_pool" => {
                cs.pstate.pool_params.insert(params::shelley_p::mary2_pool_operator(), params::shelley_p::mary2_pool_param());
            }
            _ => {}
        }
        cs
    }
}

// --------------------------------------------------------------------- running

/// location of the last panic caught in the code under test ("file:line"), recorded by our panic hook
pub static PANIC_LOC: std::sync::Mutex<String> = std::sync::Mutex::new(String::new());

/// install the location-recording (silent) panic hook; call once before running cases
pub fn install_panic_hook() {
    let _ = pv_core::catch(|| ()); // lets pv_core install its own hook first (Once)
    std::panic::set_hook(Box::new(|info| {
        let loc = info.location().map(|l| format!("{}:{}", l.file(), l.line())).unwrap_or_default();
        if let Ok(mut g) = PANIC_LOC.lock() {
            *g = loc;
        }
    }));
}

pub struct Outcome {
    /// "accept" | "reject" | "panic" | "undecodable"
    pub verdict: &'static str,
    pub detail: String,
    /// independent projection (Value::Null when undecodable)
    pub proj: Value,
}

fn era_of(s: &str) -> Era {
    match s {
        "byron" => Era::Byron,
        "shelley" => Era::Shelley,
        "allegra" => Era::Allegra,
        "mary" => Era::Mary,
        "alonzo" => Era::Alonzo,
        "babbage" => Era::Babbage,
        "conway" => Era::Conway,
        o => pv_core::die(&format!("unknown era {o}")),
    }
}
fn kind_era(k: &str) -> Era {
    match k {
        "byron" => Era::Byron,
        "alonzo" => Era::Alonzo,
        "babbage" => Era::Babbage,
        _ => Era::Conway,
    }
}

/// Decode `bytes` as a transaction of `era` the way the tests do and hand the MultiEraTx to `f`.
pub fn with_metx<R>(era: &str, bytes: &[u8], f: impl FnOnce(&MultiEraTx) -> R) -> Result<R, String> {
    match era {
        "byron" => {
            let p: byron::TxPayload = minicbor::decode(bytes).map_err(|e| e.to_string())?;
            Ok(f(&MultiEraTx::from_byron(&p)))
        }
        "babbage" => {
            let t: babbage::Tx = minicbor::decode(bytes).map_err(|e| e.to_string())?;
            Ok(f(&MultiEraTx::from_babbage(&t)))
        }
        "conway" => {
            let t: conway::Tx = minicbor::decode(bytes).map_err(|e| e.to_string())?;
            Ok(f(&MultiEraTx::from_conway(&t)))
        }
        e => {
            let t: alonzo::Tx = minicbor::decode(bytes).map_err(|e| e.to_string())?;
            Ok(f(&MultiEraTx::from_alonzo_compatible(&t, era_of(e))))
        }
    }
}

fn mk_input<'a>(byron: bool, hash: &[u8; 32], idx: u64) -> MultiEraInput<'a> {
    if byron {
        MultiEraInput::Byron(Box::new(Cow::Owned(byron::TxIn::Variant0(CborWrap((Hash::<32>::from(*hash), idx as u32))))))
    } else {
        MultiEraInput::AlonzoCompatible(Box::new(Cow::Owned(alonzo::TransactionInput {
            transaction_id: Hash::<32>::from(*hash),
            index: idx,
        })))
    }
}

fn assets_json(v: &pallas_traverse::MultiEraValue) -> Value {
    let mut out = vec![];
    for pa in v.assets() {
        for a in pa.assets() {
            out.push(json!({"id": format!("{}.{}", hex::encode(a.policy()), hex::encode(a.name())), "q": big_json_i128(a.any_coin())}));
        }
    }
    Value::Array(out)
}

fn opt_big(v: Option<u64>) -> Value {
    json!({"has": v.is_some(), "v": big_json_u64(v.unwrap_or(0))})
}

fn out_json(o: &MultiEraOutput) -> Value {
    let v = o.value();
    let (net, kh, sh, byron_addr) = match o.address() {
        Ok(Address::Shelley(a)) => match a.payment() {
            ShelleyPaymentPart::Key(h) => (a.network().value() as i64, hex::encode(h), String::new(), false),
            ShelleyPaymentPart::Script(h) => (a.network().value() as i64, String::new(), hex::encode(h), false),
        },
        Ok(Address::Byron(_)) => (-1, String::new(), String::new(), true),
        _ => (-2, String::new(), String::new(), false),
    };
    let dh = matches!(o.datum(), Some(conway::DatumOption::Hash(_)));
    json!({"coin": big_json_u64(v.coin()), "assets": assets_json(&v), "net": net, "kh": kh, "sh": sh, "byronAddr": byron_addr, "dh": dh})
}

impl Case {
    pub fn tx_bytes(&self) -> Vec<u8> {
        self.tx.to_vec()
    }

    pub fn run(&self) -> Outcome {
        let bytes = self.tx_bytes();
        let outs: Vec<Vec<u8>> = self.utxo.iter().map(|u| u.out.to_vec()).collect();
        let byron = self.is_byron();
        let r = with_metx(&self.era, &bytes, |metx| {
            let mut utxos: UTxOs = UTxOs::new();
            let mut decoded: Vec<(usize, MultiEraOutput)> = vec![];
            for (i, u) in self.utxo.iter().enumerate() {
                match MultiEraOutput::decode(kind_era(u.kind), &outs[i]) {
                    Ok(o) => {
                        decoded.push((i, o.clone()));
                        utxos.insert(mk_input(byron && u.kind == "byron", &u.hash, u.idx), o);
                    }
                    Err(e) => return Err(format!("utxo entry {i}: {e}")),
                }
            }
            let env = self.environment();
            let mut cs = self.cert_state();
            let res = pv_core::catch(|| validate_tx(metx, 0, &env, &utxos, &mut cs));
            let (verdict, detail) = match res {
                Ok(Ok(())) => ("accept", String::new()),
                Ok(Err(e)) => ("reject", format!("{e:?}")),
                Err(p) => {
                    let loc = PANIC_LOC.lock().map(|g| g.clone()).unwrap_or_default();
                    let loc = loc.rsplit("/pallas-").next().map(|x| format!("pallas-{x}")).unwrap_or(loc);
                    ("panic", format!("{p} @ {loc}"))
                }
            };
            let proj = self.project(metx, &decoded, &env, &bytes);
            Ok(Outcome { verdict, detail, proj })
        });
        match r {
            Ok(Ok(o)) => o,
            Ok(Err(e)) | Err(e) => Outcome { verdict: "undecodable", detail: e, proj: Value::Null },
        }
    }

    /// Independent projection of the (mutated) transaction.
    fn project(&self, metx: &MultiEraTx, utxo: &[(usize, MultiEraOutput)], env: &Environment, bytes: &[u8]) -> Value {
        let byron = self.is_byron();
        let find = |h: &Hash<32>, idx: u64| -> Option<&MultiEraOutput> {
            utxo.iter().find(|(i, _)| self.utxo[*i].hash[..] == h.as_ref()[..] && self.utxo[*i].idx == idx).map(|(_, o)| o)
        };
        // spent outputs (the inputs as a set, as the ledger reads them)
        let mut seen: Vec<(Hash<32>, u64)> = vec![];
        let mut spent = vec![];
        let (mut n_ins, mut ins_missing, mut ins_dup) = (0, 0, 0);
        let mut need_keys: Vec<String> = vec![];
        let mut need_scripts: Vec<String> = vec![];
        let mut in_datum_hashes: Vec<String> = vec![];
        let mut redeem_only = true;
        for i in metx.inputs() {
            n_ins += 1;
            let key = (*i.hash(), i.index());
            if seen.contains(&key) {
                ins_dup += 1;
                continue;
            }
            seen.push(key);
            match find(i.hash(), i.index()) {
                Some(o) => {
                    let j = out_json(o);
                    if !j["kh"].as_str().unwrap_or("").is_empty() {
                        need_keys.push(j["kh"].as_str().unwrap().to_string());
                    }
                    if !j["sh"].as_str().unwrap_or("").is_empty() {
                        need_scripts.push(j["sh"].as_str().unwrap().to_string());
                    }
                    if let Some(conway::DatumOption::Hash(h)) = o.datum() {
                        // only script-locked inputs need their datum in the witness set
                        if !j["sh"].as_str().unwrap_or("").is_empty() {
                            in_datum_hashes.push(hex::encode(h));
                        }
                    }
                    if let Some(b) = o.as_byron() {
                        let is_redeem = minicbor::decode::<pallas_addresses::byron::AddressPayload>(&b.address.payload.0)
                            .map(|p| matches!(p.addrtype, pallas_addresses::byron::AddrType::Redeem))
                            .unwrap_or(false);
                        redeem_only &= is_redeem;
                    } else {
                        redeem_only = false;
                    }
                    spent.push(j);
                }
                None => ins_missing += 1,
            }
        }
        let (mut n_coll, mut coll_missing) = (0, 0);
        let mut coll = vec![];
        for i in metx.collateral() {
            n_coll += 1;
            match find(i.hash(), i.index()) {
                Some(o) => {
                    let j = out_json(o);
                    if !j["kh"].as_str().unwrap_or("").is_empty() {
                        need_keys.push(j["kh"].as_str().unwrap().to_string());
                    }
                    coll.push(j);
                }
                None => coll_missing += 1,
            }
        }
        let (mut n_ref, mut ref_missing) = (0, 0);
        let mut ref_scripts: Vec<String> = vec![];
        let mut ref_plutus = false;
        let mut ref_langs: Vec<u64> = vec![];
        for i in metx.reference_inputs() {
            n_ref += 1;
            match find(i.hash(), i.index()) {
                Some(o) => {
                    if let Some(s) = o.script_ref() {
                        use pallas_traverse::ComputeHash;
                        let h = match &s {
                            conway::ScriptRef::NativeScript(x) => x.compute_hash(),
                            conway::ScriptRef::PlutusV1Script(x) => {
                                ref_langs.push(1);
                                ref_plutus = true;
                                x.compute_hash()
                            }
                            conway::ScriptRef::PlutusV2Script(x) => {
                                ref_langs.push(2);
                                ref_plutus = true;
                                x.compute_hash()
                            }
                            conway::ScriptRef::PlutusV3Script(x) => {
                                ref_langs.push(3);
                                ref_plutus = true;
                                x.compute_hash()
                            }
                        };
                        ref_scripts.push(hex::encode(h));
                    }
                }
                None => ref_missing += 1,
            }
        }
        need_keys.sort();
        need_keys.dedup();

        let outs: Vec<Value> = metx.outputs().iter().map(out_json).collect();
        let mut mint = vec![];
        for pa in metx.mints() {
            for a in pa.assets() {
                mint.push(json!({"id": format!("{}.{}", hex::encode(a.policy()), hex::encode(a.name())), "q": big_json_i128(a.any_coin())}));
            }
        }
        let mint_policies: Vec<String> = {
            let mut v: Vec<String> = metx.mints().iter().map(|p| hex::encode(p.policy())).collect();
            v.dedup();
            v
        };
        let (treasury, donation, proposals, votes) = match metx.as_conway() {
            Some(t) => (
                t.transaction_body.treasury_value.is_some(),
                t.transaction_body.donation.is_some(),
                t.transaction_body.proposal_procedures.is_some(),
                t.transaction_body.voting_procedures.is_some(),
            ),
            None => (false, false, false, false),
        };
        let special = !metx.certs().is_empty()
            || !metx.withdrawals().collect::<Vec<(&[u8], u64)>>().is_empty()
            || treasury
            || donation
            || proposals
            || votes
            || metx.update().is_some();

        // witnesses, checked independently (pallas-crypto Ed25519 over the hash of the body bytes we serialised)
        let body_hash = if byron { blake256(&self.body().to_vec()) } else { self.body_hash() };
        let traverse_hash_agrees = metx.hash().as_ref() == &body_hash[..];
        let mut wits = vec![];
        for w in metx.vkey_witnesses() {
            let ok = if w.vkey.len() == 32 && w.signature.len() == 64 {
                let mut pk = [0u8; 32];
                pk.copy_from_slice(&w.vkey);
                let mut sg = [0u8; 64];
                sg.copy_from_slice(&w.signature);
                PublicKey::from(pk).verify(body_hash, &Signature::from(sg))
            } else {
                false
            };
            wits.push(json!({"kh": hex::encode(blake224(&w.vkey)), "ok": ok, "klen": w.vkey.len(), "slen": w.signature.len()}));
        }
        let req_signers: Vec<String> = metx.required_signers().collect::<Vec<&Hash<28>>>().iter().map(hex::encode).collect();

        // scripts / redeemers
        use pallas_traverse::ComputeHash;
        let mut wit_scripts: Vec<String> = metx.native_scripts().iter().map(|s| hex::encode(s.compute_hash())).collect();
        let n_plutus_wit = metx.plutus_v1_scripts().len() + metx.plutus_v2_scripts().len() + metx.plutus_v3_scripts().len();
        wit_scripts.extend(metx.plutus_v1_scripts().iter().map(|s| hex::encode(s.compute_hash())));
        wit_scripts.extend(metx.plutus_v2_scripts().iter().map(|s| hex::encode(s.compute_hash())));
        wit_scripts.extend(metx.plutus_v3_scripts().iter().map(|s| hex::encode(s.compute_hash())));
        let wit_datums: Vec<String> = metx.plutus_data().iter().map(|d| hex::encode(blake256(d.raw_cbor()))).collect();
        let redeemers: Vec<Value> = metx
            .redeemers()
            .iter()
            .map(|r| {
                let e = r.ex_units();
                json!({"mem": big_json_u64(e.mem), "steps": big_json_u64(e.steps), "tag": format!("{:?}", r.tag()), "idx": (r.index() as u64).min(1_000_000)})
            })
            .collect();
        let rform = match metx.as_conway().and_then(|t| t.transaction_witness_set.redeemer.as_ref().map(|r| (**r).clone())) {
            Some(conway::Redeemers::List(_)) => "list",
            Some(conway::Redeemers::Map(_)) => "map",
            None => {
                if redeemers.is_empty() {
                    "none"
                } else {
                    "list"
                }
            }
        };

        // sizes: traversal size (the ledger's) -- Byron: transaction + witnesses as serialised by us
        let size = if byron { bytes.len().saturating_sub(1) } else { metx.size() };

        // auxiliary data / script data hashes as declared
        let (aux_declared, sdh_declared, tx_net, ttl, vstart, total_coll) = if byron {
            (String::new(), String::new(), -1i64, opt_big(None), opt_big(None), opt_big(None))
        } else {
            let b = self.body();
            (
                b.get(7).and_then(|x| x.as_bytes()).map(hex::encode).unwrap_or_default(),
                b.get(11).and_then(|x| x.as_bytes()).map(hex::encode).unwrap_or_default(),
                b.get(15).and_then(|x| x.as_u64()).map(|x| x as i64).unwrap_or(-1),
                opt_big(metx.ttl()),
                opt_big(metx.validity_start()),
                opt_big(metx.total_collateral()),
            )
        };
        let aux_actual = if byron {
            String::new()
        } else {
            match &self.tx.items().unwrap()[3] {
                Cb::Simple(22, _) => String::new(),
                a => hex::encode(blake256(&a.to_vec())),
            }
        };
        let coll_return = match metx.collateral_return() {
            Some(o) => {
                let mut j = out_json(&o);
                j["has"] = json!(true);
                j
            }
            None => json!({"has": false, "coin": big_json_u64(0), "assets": [], "dh": false}),
        };

        let pp = match &env.prot_params {
            MultiEraProtocolParameters::Byron(p) => json!({"a": p.multiplier, "b": p.summand, "maxSize": big_json_u64(p.max_tx_size),
                "maxMem": big_json_u64(0), "maxSteps": big_json_u64(0), "coinsPerByte": big_json_u64(1), "minAdaUnits": 1, "dhUnits": 0, "maxValSize": -1, "maxColl": -1, "collPct": 0, "langs": []}),
            MultiEraProtocolParameters::Shelley(p) => json!({"a": p.minfee_a, "b": p.minfee_b, "maxSize": big_json_u64(p.max_transaction_size as u64),
                "maxMem": big_json_u64(0), "maxSteps": big_json_u64(0), "coinsPerByte": big_json_u64(p.min_utxo_value), "minAdaUnits": 1, "dhUnits": 0, "maxValSize": -1, "maxColl": -1, "collPct": 0, "langs": []}),
            MultiEraProtocolParameters::Alonzo(p) => json!({"a": p.minfee_a, "b": p.minfee_b, "maxSize": big_json_u64(p.max_transaction_size as u64),
                "maxMem": big_json_u64(p.max_tx_ex_units.mem), "maxSteps": big_json_u64(p.max_tx_ex_units.steps), "coinsPerByte": big_json_u64(p.ada_per_utxo_byte), "minAdaUnits": 28, "dhUnits": 10,
                "maxValSize": p.max_value_size, "maxColl": p.max_collateral_inputs, "collPct": p.collateral_percentage, "langs": [1]}),
            MultiEraProtocolParameters::Babbage(p) => json!({"a": p.minfee_a, "b": p.minfee_b, "maxSize": big_json_u64(p.max_transaction_size as u64),
                "maxMem": big_json_u64(p.max_tx_ex_units.mem), "maxSteps": big_json_u64(p.max_tx_ex_units.steps), "coinsPerByte": big_json_u64(p.ada_per_utxo_byte), "minAdaUnits": 160, "dhUnits": 0,
                "maxValSize": p.max_value_size, "maxColl": p.max_collateral_inputs, "collPct": p.collateral_percentage, "langs": [1, 2]}),
            MultiEraProtocolParameters::Conway(p) => {
                let mut langs = vec![];
                if p.cost_models_for_script_languages.plutus_v1.is_some() {
                    langs.push(1)
                }
                if p.cost_models_for_script_languages.plutus_v2.is_some() {
                    langs.push(2)
                }
                if p.cost_models_for_script_languages.plutus_v3.is_some() {
                    langs.push(3)
                }
                json!({"a": p.minfee_a, "b": p.minfee_b, "maxSize": big_json_u64(p.max_transaction_size as u64),
                "maxMem": big_json_u64(p.max_tx_ex_units.mem), "maxSteps": big_json_u64(p.max_tx_ex_units.steps), "coinsPerByte": big_json_u64(p.ada_per_utxo_byte), "minAdaUnits": 160, "dhUnits": 0,
                "maxValSize": p.max_value_size, "maxColl": p.max_collateral_inputs, "collPct": p.collateral_percentage, "langs": langs})
            }
            _ => json!({}),
        };
        let mut langs_used: Vec<u64> = vec![];
        if !metx.plutus_v1_scripts().is_empty() {
            langs_used.push(1)
        }
        if !metx.plutus_v2_scripts().is_empty() {
            langs_used.push(2)
        }
        if !metx.plutus_v3_scripts().is_empty() {
            langs_used.push(3)
        }
        langs_used.extend(ref_langs.iter().copied());
        langs_used.sort();
        langs_used.dedup();

        // withdrawals in the ledger's order of reward accounts: network, script credentials before key
        // credentials, credential hash
        let mut wds: Vec<(u8, bool, Vec<u8>)> = vec![];
        if !byron {
            for (acct, _) in metx.withdrawals().collect::<Vec<(&[u8], u64)>>() {
                if let Ok(Address::Stake(sa)) = Address::from_bytes(acct) {
                    let netv = match sa.network() {
                        pallas_addresses::Network::Testnet => 0,
                        pallas_addresses::Network::Mainnet => 1,
                        pallas_addresses::Network::Other(x) => x,
                    };
                    wds.push((netv, !sa.is_script(), sa.payload().as_hash().to_vec()));
                }
            }
        }
        wds.sort();
        let withdrawals: Vec<Value> = wds.iter().map(|(_, key, h)| json!({"script": !key, "hash": hex::encode(h)})).collect();

        json!({
            "era": self.era, "withdrawals": withdrawals,
            "nIns": n_ins, "insMissing": ins_missing, "insDup": ins_dup,
            "spent": spent, "outs": outs,
            "fee": big_json_u64(metx.fee().unwrap_or(0)),
            "mint": mint, "mintPolicies": mint_policies,
            "special": special,
            "wits": wits, "needKeys": need_keys, "reqSigners": req_signers,
            "redeemers": redeemers, "rform": rform,
            "plutus": n_plutus_wit > 0 || ref_plutus, "plutusWit": n_plutus_wit > 0,
            "size": size,
            "redeemOnly": byron && redeem_only && ins_missing == 0,
            "nColl": n_coll, "collMissing": coll_missing, "coll": coll, "collReturn": coll_return, "totalColl": total_coll,
            "nRef": n_ref, "refMissing": ref_missing,
            "needScripts": need_scripts, "witScripts": wit_scripts, "refScripts": ref_scripts,
            "inDatumHashes": in_datum_hashes, "witDatums": wit_datums,
            "auxDeclared": aux_declared, "auxActual": aux_actual, "sdh": sdh_declared,
            "txNet": tx_net, "envNet": env.network_id as i64,
            "ttl": ttl, "vstart": vstart, "slot": big_json_u64(env.block_slot),
            "langsUsed": langs_used,
            "hashAgrees": traverse_hash_agrees,
            "pp": pp,
        })
    }
}
