//! `fixtures-selfcheck`: every transcribed fixture must be accepted by the real
//! validator, before and after re-keying (prints one line per fixture).
use crate::case::Case;
use crate::fixtures_data::fixtures;

pub fn run(_args: &pv_core::Args) {
    let mut bad = 0;
    for fx in fixtures() {
        let c = Case::from_fixture(&fx);
        let o = c.run();
        let mut k = c.clone();
        k.rekey();
        let ok = k.run();
        println!(
            "{} base={} {} rekeyed={} {} keys={} size={} hashAgrees={}",
            fx.name, o.verdict, o.detail, ok.verdict, ok.detail, k.keys.len(), o.proj["size"], o.proj["hashAgrees"]
        );
        if o.verdict != "accept" {
            bad += 1;
        }
    }
    if bad > 0 {
        std::process::exit(1);
    }
}
