//! Declarative description of the accepted fixtures of /repo/pallas-validate/tests/*.rs
//! (data lives in fixtures_data.rs; protocol parameters in params.rs).

/// One resolved UTxO entry (the output a transaction input / collateral input /
/// reference input points at), as the tests' `mk_utxo_for_*` / `add_collateral_*` /
/// `add_ref_input_*` helpers receive it.
#[derive(Clone, Debug)]
pub struct OutSpec {
    /// hex of the raw address bytes (Byron: hex of the address *payload*, crc is the tests' constant 3430631884)
    pub addr: &'static str,
    pub coin: u64,
    /// (policy id hex, asset name hex, quantity)
    pub assets: &'static [(&'static str, &'static str, u64)],
    /// hex of a 32-byte datum hash (Alonzo `datum_hash` / `DatumOption::Hash`)
    pub datum_hash: Option<&'static str>,
    /// hex of the CBOR of the plutus data of an inline datum (`DatumOption::Data`)
    pub inline_datum: Option<&'static str>,
    /// (language: 0 native, 1/2/3 Plutus version; hex of the script bytes, i.e. the content of
    /// `PlutusScript::<N>(Bytes)`, or the CBOR of the native script)
    pub script_ref: Option<(u8, &'static str)>,
}

#[derive(Clone, Debug)]
pub struct FixtureSpec {
    /// "<test file>::<test fn>", e.g. "shelley_ma::successful_mainnet_shelley_tx"
    pub name: &'static str,
    /// era handed to MultiEraTx::from_*: byron | shelley | allegra | mary | alonzo | babbage | conway
    pub era: &'static str,
    /// file under <repo>/test_data, e.g. "shelley1.tx"
    pub tx_file: &'static str,
    /// zipped with the transaction's inputs in body order
    pub inputs: &'static [OutSpec],
    /// zipped with the body's collateral inputs
    pub collateral: &'static [OutSpec],
    /// zipped with the body's reference inputs
    pub ref_inputs: &'static [OutSpec],
    /// name understood by params::prot_params(), e.g. "byron", "shelley_default", "shelley_mary3",
    /// "shelley_allegra1", "alonzo_334", "alonzo_300", "babbage_mainnet_365", ...
    pub params: &'static str,
    pub prot_magic: u32,
    pub block_slot: u64,
    pub network_id: u8,
    /// (treasury, reserves)
    pub acnt: Option<(u64, u64)>,
    /// extra setup the test performs: "" | "mary2_rewards" (register the reward key) |
    /// "mary3_pool" (pool params inserted) | "shelley4_drop_wit" (second vkey witness kept only)
    pub setup: &'static str,
}
