//! A small lossless CBOR tree (parse / edit / serialise) used only to *mutate*
//! transactions and to assemble UTxO outputs.  Header widths and indefinite
//! lengths of untouched nodes are preserved, so an unmodified fixture
//! serialises to its original bytes.  This is driver glue, not an oracle: the
//! projections handed to TLC are computed from pallas-traverse's decoding of
//! the serialised bytes.

#[derive(Clone, Debug, PartialEq)]
pub enum Cb {
    /// value, header width (0 immediate, 1, 2, 4, 8; 255 = choose minimal)
    UInt(u64, u8),
    /// -1 - n
    NInt(u64, u8),
    Bytes(Vec<u8>, u8),
    BytesIndef(Vec<Vec<u8>>),
    Text(Vec<u8>, u8),
    TextIndef(Vec<Vec<u8>>),
    /// items, Some(width) definite / None indefinite
    Array(Vec<Cb>, Option<u8>),
    Map(Vec<(Cb, Cb)>, Option<u8>),
    Tag(u64, u8, Box<Cb>),
    /// major 7 with ai < 24 (false 20, true 21, null 22, undefined 23) or the 1-byte form
    Simple(u8, bool),
    /// major 7 floats: raw bytes including the initial byte
    Float(Vec<u8>),
}

pub const MIN: u8 = 255;

fn min_width(v: u64) -> u8 {
    if v < 24 {
        0
    } else if v <= 0xff {
        1
    } else if v <= 0xffff {
        2
    } else if v <= 0xffff_ffff {
        4
    } else {
        8
    }
}

fn head(out: &mut Vec<u8>, major: u8, v: u64, w: u8) {
    let mut w = if w == MIN { min_width(v) } else { w };
    if min_width(v) > w {
        w = min_width(v);
    }
    match w {
        0 => out.push((major << 5) | v as u8),
        1 => {
            out.push((major << 5) | 24);
            out.push(v as u8)
        }
        2 => {
            out.push((major << 5) | 25);
            out.extend_from_slice(&(v as u16).to_be_bytes())
        }
        4 => {
            out.push((major << 5) | 26);
            out.extend_from_slice(&(v as u32).to_be_bytes())
        }
        _ => {
            out.push((major << 5) | 27);
            out.extend_from_slice(&v.to_be_bytes())
        }
    }
}

impl Cb {
    pub fn uint(v: u64) -> Cb {
        Cb::UInt(v, MIN)
    }
    /// signed integer (i128 so that -2^64 .. 2^64-1 can be written)
    pub fn int(v: i128) -> Cb {
        if v >= 0 {
            Cb::UInt(v as u64, MIN)
        } else {
            Cb::NInt((-1 - v) as u64, MIN)
        }
    }
    pub fn bytes(b: &[u8]) -> Cb {
        Cb::Bytes(b.to_vec(), MIN)
    }
    pub fn array(items: Vec<Cb>) -> Cb {
        Cb::Array(items, Some(MIN))
    }
    pub fn map(items: Vec<(Cb, Cb)>) -> Cb {
        Cb::Map(items, Some(MIN))
    }
    pub fn tag(t: u64, inner: Cb) -> Cb {
        Cb::Tag(t, MIN, Box::new(inner))
    }
    pub fn null() -> Cb {
        Cb::Simple(22, false)
    }

    pub fn write(&self, out: &mut Vec<u8>) {
        match self {
            Cb::UInt(v, w) => head(out, 0, *v, *w),
            Cb::NInt(v, w) => head(out, 1, *v, *w),
            Cb::Bytes(b, w) => {
                head(out, 2, b.len() as u64, *w);
                out.extend_from_slice(b)
            }
            Cb::BytesIndef(chunks) => {
                out.push(0x5f);
                for c in chunks {
                    head(out, 2, c.len() as u64, MIN);
                    out.extend_from_slice(c);
                }
                out.push(0xff)
            }
            Cb::Text(b, w) => {
                head(out, 3, b.len() as u64, *w);
                out.extend_from_slice(b)
            }
            Cb::TextIndef(chunks) => {
                out.push(0x7f);
                for c in chunks {
                    head(out, 3, c.len() as u64, MIN);
                    out.extend_from_slice(c);
                }
                out.push(0xff)
            }
            Cb::Array(items, w) => {
                match w {
                    Some(w) => head(out, 4, items.len() as u64, *w),
                    None => out.push(0x9f),
                }
                for i in items {
                    i.write(out);
                }
                if w.is_none() {
                    out.push(0xff)
                }
            }
            Cb::Map(items, w) => {
                match w {
                    Some(w) => head(out, 5, items.len() as u64, *w),
                    None => out.push(0xbf),
                }
                for (k, v) in items {
                    k.write(out);
                    v.write(out);
                }
                if w.is_none() {
                    out.push(0xff)
                }
            }
            Cb::Tag(t, w, inner) => {
                head(out, 6, *t, *w);
                inner.write(out)
            }
            Cb::Simple(v, ext) => {
                if *ext {
                    out.push(0xf8);
                    out.push(*v)
                } else {
                    out.push(0xe0 | *v)
                }
            }
            Cb::Float(raw) => out.extend_from_slice(raw),
        }
    }

    pub fn to_vec(&self) -> Vec<u8> {
        let mut v = Vec::new();
        self.write(&mut v);
        v
    }

    pub fn parse(data: &[u8]) -> Result<Cb, String> {
        let mut p = Parser { d: data, i: 0 };
        let v = p.item(0)?;
        if p.i != data.len() {
            return Err(format!("trailing bytes at {}", p.i));
        }
        Ok(v)
    }

    // ---------------------------------------------------------------- access
    pub fn as_u64(&self) -> Option<u64> {
        match self {
            Cb::UInt(v, _) => Some(*v),
            _ => None,
        }
    }
    pub fn as_i128(&self) -> Option<i128> {
        match self {
            Cb::UInt(v, _) => Some(*v as i128),
            Cb::NInt(v, _) => Some(-1 - (*v as i128)),
            _ => None,
        }
    }
    pub fn as_bytes(&self) -> Option<&Vec<u8>> {
        match self {
            Cb::Bytes(b, _) => Some(b),
            _ => None,
        }
    }
    /// items of an array, looking through a set tag (258)
    pub fn items(&self) -> Option<&Vec<Cb>> {
        match self {
            Cb::Array(v, _) => Some(v),
            Cb::Tag(258, _, inner) => inner.items(),
            _ => None,
        }
    }
    pub fn items_mut(&mut self) -> Option<&mut Vec<Cb>> {
        match self {
            Cb::Array(v, _) => Some(v),
            Cb::Tag(258, _, inner) => inner.items_mut(),
            _ => None,
        }
    }
    pub fn entries(&self) -> Option<&Vec<(Cb, Cb)>> {
        match self {
            Cb::Map(v, _) => Some(v),
            _ => None,
        }
    }
    pub fn entries_mut(&mut self) -> Option<&mut Vec<(Cb, Cb)>> {
        match self {
            Cb::Map(v, _) => Some(v),
            _ => None,
        }
    }
    /// value under an unsigned-integer key
    pub fn get(&self, key: u64) -> Option<&Cb> {
        self.entries()?.iter().find(|(k, _)| k.as_u64() == Some(key)).map(|(_, v)| v)
    }
    pub fn get_mut(&mut self, key: u64) -> Option<&mut Cb> {
        self.entries_mut()?.iter_mut().find(|(k, _)| k.as_u64() == Some(key)).map(|(_, v)| v)
    }
    /// insert or replace (keeps integer keys sorted when inserting)
    pub fn set(&mut self, key: u64, val: Cb) {
        let Some(es) = self.entries_mut() else { return };
        if let Some(e) = es.iter_mut().find(|(k, _)| k.as_u64() == Some(key)) {
            e.1 = val;
            return;
        }
        let pos = es.iter().position(|(k, _)| k.as_u64().map(|x| x > key).unwrap_or(false)).unwrap_or(es.len());
        es.insert(pos, (Cb::uint(key), val));
    }
    pub fn remove(&mut self, key: u64) -> Option<Cb> {
        let es = self.entries_mut()?;
        let pos = es.iter().position(|(k, _)| k.as_u64() == Some(key))?;
        Some(es.remove(pos).1)
    }

    /// replace every occurrence of `from` by `to` (same length) inside all byte strings of the tree
    pub fn replace_bytes(&mut self, from: &[u8], to: &[u8]) -> usize {
        assert_eq!(from.len(), to.len());
        let mut n = 0;
        match self {
            Cb::Bytes(b, _) => n += replace_in(b, from, to),
            Cb::BytesIndef(cs) => {
                for c in cs {
                    n += replace_in(c, from, to)
                }
            }
            Cb::Array(items, _) => {
                for i in items {
                    n += i.replace_bytes(from, to)
                }
            }
            Cb::Map(items, _) => {
                for (k, v) in items {
                    n += k.replace_bytes(from, to);
                    n += v.replace_bytes(from, to);
                }
            }
            Cb::Tag(_, _, inner) => n += inner.replace_bytes(from, to),
            _ => {}
        }
        n
    }
}

pub fn replace_in(hay: &mut [u8], from: &[u8], to: &[u8]) -> usize {
    let mut n = 0;
    if from.is_empty() || hay.len() < from.len() {
        return 0;
    }
    let mut i = 0;
    while i + from.len() <= hay.len() {
        if &hay[i..i + from.len()] == from {
            hay[i..i + from.len()].copy_from_slice(to);
            i += from.len();
            n += 1;
        } else {
            i += 1;
        }
    }
    n
}

struct Parser<'a> {
    d: &'a [u8],
    i: usize,
}

impl Parser<'_> {
    fn byte(&mut self) -> Result<u8, String> {
        let b = *self.d.get(self.i).ok_or("eof")?;
        self.i += 1;
        Ok(b)
    }
    fn take(&mut self, n: usize) -> Result<&[u8], String> {
        if self.i + n > self.d.len() {
            return Err("eof".into());
        }
        let s = &self.d[self.i..self.i + n];
        self.i += n;
        Ok(s)
    }
    fn arg(&mut self, ai: u8) -> Result<(u64, u8), String> {
        Ok(match ai {
            0..=23 => (ai as u64, 0),
            24 => (self.byte()? as u64, 1),
            25 => (u16::from_be_bytes(self.take(2)?.try_into().unwrap()) as u64, 2),
            26 => (u32::from_be_bytes(self.take(4)?.try_into().unwrap()) as u64, 4),
            27 => (u64::from_be_bytes(self.take(8)?.try_into().unwrap()), 8),
            _ => return Err(format!("bad additional info {ai}")),
        })
    }
    fn chunks(&mut self, major: u8) -> Result<Vec<Vec<u8>>, String> {
        let mut out = Vec::new();
        loop {
            let b = self.byte()?;
            if b == 0xff {
                return Ok(out);
            }
            if b >> 5 != major || b & 31 == 31 {
                return Err("bad chunk".into());
            }
            let (n, _) = self.arg(b & 31)?;
            out.push(self.take(n as usize)?.to_vec());
        }
    }
    fn item(&mut self, depth: usize) -> Result<Cb, String> {
        if depth > 200 {
            return Err("too deep".into());
        }
        let b = self.byte()?;
        let (major, ai) = (b >> 5, b & 31);
        if ai == 31 {
            return match major {
                2 => Ok(Cb::BytesIndef(self.chunks(2)?)),
                3 => Ok(Cb::TextIndef(self.chunks(3)?)),
                4 => {
                    let mut items = Vec::new();
                    while *self.d.get(self.i).ok_or("eof")? != 0xff {
                        items.push(self.item(depth + 1)?);
                    }
                    self.i += 1;
                    Ok(Cb::Array(items, None))
                }
                5 => {
                    let mut items = Vec::new();
                    while *self.d.get(self.i).ok_or("eof")? != 0xff {
                        let k = self.item(depth + 1)?;
                        let v = self.item(depth + 1)?;
                        items.push((k, v));
                    }
                    self.i += 1;
                    Ok(Cb::Map(items, None))
                }
                _ => Err("unexpected break".into()),
            };
        }
        if major == 7 {
            return match ai {
                0..=23 => Ok(Cb::Simple(ai, false)),
                24 => Ok(Cb::Simple(self.byte()?, true)),
                25 | 26 | 27 => {
                    let n = 1usize << (ai - 24);
                    let mut raw = vec![b];
                    raw.extend_from_slice(self.take(n)?);
                    Ok(Cb::Float(raw))
                }
                _ => Err("bad simple".into()),
            };
        }
        let (v, w) = self.arg(ai)?;
        Ok(match major {
            0 => Cb::UInt(v, w),
            1 => Cb::NInt(v, w),
            2 => Cb::Bytes(self.take(v as usize)?.to_vec(), w),
            3 => Cb::Text(self.take(v as usize)?.to_vec(), w),
            4 => {
                let mut items = Vec::new();
                for _ in 0..v {
                    items.push(self.item(depth + 1)?);
                }
                Cb::Array(items, Some(w))
            }
            5 => {
                let mut items = Vec::new();
                for _ in 0..v {
                    let k = self.item(depth + 1)?;
                    let val = self.item(depth + 1)?;
                    items.push((k, val));
                }
                Cb::Map(items, Some(w))
            }
            _ => Cb::Tag(v, w, Box::new(self.item(depth + 1)?)),
        })
    }
}
