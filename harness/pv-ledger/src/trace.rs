//! `phase1-trace`: the shared trace generator of C33..C38.  For every accepted
//! fixture (re-keyed with keys of ours when that keeps it accepted) it applies
//! the mutators of the requested property, runs the real validate_tx on each
//! mutant and logs the independent projection + mutator class + verdict.
use crate::case::Case;
use crate::fixtures_data::fixtures;
use crate::mutate::{self, Mutant};
use pv_core::{json, Args, Ndjson, Rng};

pub fn load_cases(filter: Option<&str>) -> Vec<Case> {
    let mut out = vec![];
    for fx in fixtures() {
        if let Some(f) = filter {
            if !fx.name.contains(f) {
                continue;
            }
        }
        let base = Case::from_fixture(&fx);
        let mut k = base.clone();
        k.rekey();
        if k.run().verdict == "accept" {
            out.push(k);
        } else {
            out.push(base);
        }
    }
    out
}

fn short(name: &str) -> String {
    name.replace("successful_", "").replace("mainnet_", "")
}

pub fn run(args: &Args) {
    crate::case::install_panic_hook();
    let prop = args.get("prop").to_string();
    let seed = args.seed();
    let thorough = args.opt("tier") == Some("thorough");
    let mut log = Ndjson::create(args.get("out"));
    let mut stats = std::collections::BTreeMap::<String, u64>::new();
    let rounds = args.num("rounds", 1);
    for base in load_cases(args.opt("fixtures")) {
        if base.is_byron() && matches!(prop.as_str(), "C35" | "C36" | "C37") {
            continue; // these properties are stated for the post-Byron eras
        }
        let fx = short(&base.name);
        let o = base.run();
        *stats.entry(format!("base-{}", o.verdict)).or_default() += 1;
        if o.verdict != "accept" {
            // a fixture the validator does not accept is not a baseline (reported by fixtures-selfcheck)
            continue;
        }
        let mut base_t = o.proj.clone();
        let sdh_base = base_t["sdh"].clone();
        base_t["sdhBase"] = sdh_base.clone();
        base_t["scriptDataSame"] = json!(true);
        log.ev(json!({"ev": "base", "seq": log.lines + 1, "fx": fx, "era": base.era, "mut": "none", "rule": "", "boundary": false,
                      "verdict": o.verdict, "detail": o.detail, "T": base_t}));
        let script_data = script_data_bytes(&base);
        for round in 0..rounds {
            let mut rng = Rng::new(seed.wrapping_mul(1000003).wrapping_add(round).wrapping_add(hash_str(&base.name)));
            let mutants: Vec<Mutant> = match prop.as_str() {
                "C33" => mutate::c33(&base, &mut rng, thorough),
                "C34" => mutate::c34(&base, &mut rng, thorough),
                "C35" => mutate::c35(&base, &mut rng, thorough),
                "C36" => mutate::c36(&base, &mut rng, thorough),
                "C37" => mutate::c37(&base, &mut rng, thorough),
                "C38" => crate::rules::c38(&base, &mut rng, thorough),
                other => pv_core::die(&format!("unknown --prop {other}")),
            };
            for mu in mutants {
                let o = mu.case.run();
                *stats.entry(o.verdict.to_string()).or_default() += 1;
                if o.verdict == "undecodable" {
                    continue;
                }
                let mut t = o.proj;
                t["sdhBase"] = sdh_base.clone();
                t["scriptDataSame"] = json!(script_data_bytes(&mu.case) == script_data);
                log.ev(json!({"ev": "tx", "seq": log.lines + 1, "fx": fx, "era": mu.case.era, "mut": mu.class, "rule": mu.rule, "boundary": mu.boundary,
                              "verdict": o.verdict, "detail": o.detail.chars().take(160).collect::<String>(), "T": t}));
            }
        }
    }
    let n = log.finish();
    println!("{}", json!({"events": n, "stats": stats}));
}

/// the part of the witness set the script integrity hash commits to (datums, redeemers) plus the languages in use
fn script_data_bytes(c: &Case) -> Vec<u8> {
    if c.is_byron() {
        return vec![];
    }
    let mut v = vec![];
    for k in [4u64, 5] {
        if let Some(x) = c.wits().get(k) {
            v.extend_from_slice(&x.to_vec());
        }
        v.push(0xfe);
    }
    for k in [3u64, 6, 7] {
        v.push(c.wits().get(k).and_then(|x| x.items()).map(|x| !x.is_empty()).unwrap_or(false) as u8);
    }
    v.extend_from_slice(format!("{:?}", c.env.ov.drop_cost_model).as_bytes());
    v
}

fn hash_str(s: &str) -> u64 {
    s.bytes().fold(1469598103934665603u64, |h, b| (h ^ b as u64).wrapping_mul(1099511628211))
}
