//! `phase1-trace`: the shared trace generator of C33..C38.  For every accepted
//! fixture (re-keyed with keys of ours when that keeps it accepted) it applies
//! the mutators of the requested property, runs the real validate_tx on each
//! mutant and logs the independent projection + mutator class + verdict.
use crate::case::Case;
use crate::fixtures_data::fixtures;
use crate::mutate::{self, Mutant};
use pv_core::{json, Args, Ndjson, Rng};

pub fn load_cases(filter: Option<&str>) -> Vec<Case> {
    let mut out = vec![];
    for fx in fixtures() {
        if let Some(f) = filter {
            if !fx.name.contains(f) {
                continue;
            }
        }
        let base = Case::from_fixture(&fx);
        let mut k = base.clone();
        k.rekey();
        if k.run().verdict == "accept" {
            if let Some(d) = with_witness_script(&k) {
                out.push(k);
                out.push(d);
            } else {
                out.push(k);
            }
        } else {
            out.push(base);
        }
    }
    out
}

/// Derived fixture: a transaction whose Plutus script is supplied by a reference input gets the same
/// script in its witness set as well (fee raised for the larger size, value preserved, re-signed).
/// The upstream Conway Plutus fixtures only use reference scripts, so without this the validator's
/// witness-script paths (collateral rules, ...) would never run in Conway.  Kept only if accepted.
fn with_witness_script(k: &Case) -> Option<Case> {
    use crate::cbor::Cb;
    if !matches!(k.era.as_str(), "babbage" | "conway") || [3u64, 6, 7].iter().any(|x| k.wits().get(*x).is_some()) {
        return None;
    }
    let r = k.utxo.iter().find(|u| u.role == "ref" && u.out.get(3).is_some())?;
    let Cb::Tag(24, _, inner) = r.out.get(3)? else { return None };
    let sr = Cb::parse(inner.as_bytes()?).ok()?;
    let items = sr.items()?;
    let key = match items[0].as_u64()? {
        1 => 3u64,
        2 => 6,
        3 => 7,
        _ => return None,
    };
    let mut d = k.clone();
    d.name = format!("{}+witness-script", k.name);
    d.wits_mut().set(key, Cb::array(vec![items[1].clone()]));
    let extra = 44 * (items[1].as_bytes()?.len() as u64 + 16);
    let i = d.richest_output();
    let (fee, coin) = (d.fee(), d.out_coin(i));
    d.set_fee(fee + extra);
    crate::mutate::val_set_coin(d.out_value_mut(i)?, coin.checked_sub(extra)?);
    // the collateral must cover the larger fee: take it out of the collateral return, keep the annotation exact
    let more = extra * 2;
    // (the upstream Conway fixtures give the collateral input the value of the collateral *return*, which goes
    //  unnoticed there because the collateral rules are skipped; make the input worth return + total collateral)
    if let (Some(u), Some(t)) = (d.utxo_index_of(13, 0), d.body().get(17).and_then(|t| t.as_u64())) {
        let ret_coin = match d.body().get(16) {
            Some(r @ Cb::Map(..)) => r.get(1).map(crate::mutate::val_coin),
            Some(r) => r.items().and_then(|i| i.get(1)).map(crate::mutate::val_coin),
            None => None,
        };
        if let Some(rc) = ret_coin {
            let cur = crate::mutate::val_coin(d.utxo_value_mut(u)?);
            if cur < rc + t && d.utxo[u].role == "coll" {
                crate::mutate::val_set_coin(d.utxo_value_mut(u)?, rc + t);
            }
        }
    }
    if let Some(ret) = d.body_mut().get_mut(16) {
        let v = match ret {
            Cb::Map(..) => ret.get_mut(1)?,
            _ => ret.items_mut()?.get_mut(1)?,
        };
        let c = crate::mutate::val_coin(v);
        crate::mutate::val_set_coin(v, c.checked_sub(more)?);
        if let Some(t) = d.body().get(17).and_then(|t| t.as_u64()) {
            d.body_mut().set(17, Cb::uint(t + more));
        }
    }
    d.resign();
    let o = d.run();
    if o.verdict == "accept" {
        Some(d)
    } else {
        if std::env::var("PV_DEBUG").is_ok() {
            eprintln!("derived {} not accepted: {} {}", d.name, o.verdict, o.detail);
        }
        None
    }
}

fn short(name: &str) -> String {
    name.replace("successful_", "").replace("mainnet_", "")
}

pub fn run(args: &Args) {
    crate::case::install_panic_hook();
    let prop = args.get("prop").to_string();
    let seed = args.seed();
    let thorough = args.opt("tier") == Some("thorough");
    let mut log = Ndjson::create(args.get("out"));
    let mut stats = std::collections::BTreeMap::<String, u64>::new();
    let rounds = args.num("rounds", 1);
    for base in load_cases(args.opt("fixtures")) {
        if base.is_byron() && matches!(prop.as_str(), "C35" | "C36" | "C37") {
            continue; // these properties are stated for the post-Byron eras
        }
        let fx = short(&base.name);
        let o = base.run();
        *stats.entry(format!("base-{}", o.verdict)).or_default() += 1;
        if o.verdict != "accept" {
            // a fixture the validator does not accept is not a baseline (reported by fixtures-selfcheck)
            continue;
        }
        let mut base_t = o.proj.clone();
        let sdh_base = base_t["sdh"].clone();
        base_t["sdhBase"] = sdh_base.clone();
        base_t["scriptDataSame"] = json!(true);
        log.ev(json!({"ev": "base", "seq": log.lines + 1, "fx": fx, "era": base.era, "mut": "none", "rule": "", "boundary": false,
                      "verdict": o.verdict, "detail": o.detail, "T": base_t}));
        let script_data = script_data_bytes(&base);
        for round in 0..rounds {
            let mut rng = Rng::new(seed.wrapping_mul(1000003).wrapping_add(round).wrapping_add(hash_str(&base.name)));
            let mutants: Vec<Mutant> = match prop.as_str() {
                "C33" => mutate::c33(&base, &mut rng, thorough),
                "C34" => mutate::c34(&base, &mut rng, thorough),
                "C35" => mutate::c35(&base, &mut rng, thorough),
                "C36" => mutate::c36(&base, &mut rng, thorough),
                "C37" => mutate::c37(&base, &mut rng, thorough),
                "C38" => crate::rules::c38(&base, &mut rng, thorough),
                other => pv_core::die(&format!("unknown --prop {other}")),
            };
            for mu in mutants {
                let o = mu.case.run();
                *stats.entry(o.verdict.to_string()).or_default() += 1;
                if o.verdict == "undecodable" {
                    continue;
                }
                let mut t = o.proj;
                t["sdhBase"] = sdh_base.clone();
                t["scriptDataSame"] = json!(script_data_bytes(&mu.case) == script_data);
                log.ev(json!({"ev": "tx", "seq": log.lines + 1, "fx": fx, "era": mu.case.era, "mut": mu.class, "rule": mu.rule, "boundary": mu.boundary,
                              "verdict": o.verdict, "detail": o.detail.chars().take(160).collect::<String>(), "T": t}));
            }
        }
    }
    let n = log.finish();
    println!("{}", json!({"events": n, "stats": stats}));
}

/// the part of the witness set the script integrity hash commits to (datums, redeemers) plus the languages in use
fn script_data_bytes(c: &Case) -> Vec<u8> {
    if c.is_byron() {
        return vec![];
    }
    let mut v = vec![];
    for k in [4u64, 5] {
        if let Some(x) = c.wits().get(k) {
            v.extend_from_slice(&x.to_vec());
        }
        v.push(0xfe);
    }
    for k in [3u64, 6, 7] {
        v.push(c.wits().get(k).and_then(|x| x.items()).map(|x| !x.is_empty()).unwrap_or(false) as u8);
    }
    v.extend_from_slice(format!("{:?}", c.env.ov.drop_cost_model).as_bytes());
    v
}

fn hash_str(s: &str) -> u64 {
    s.bytes().fold(1469598103934665603u64, |h, b| (h ^ b as u64).wrapping_mul(1099511628211))
}
