//! C01 / C02 — pallas_codec::flat Encoder / Decoder against spec/flat/FlatCodec.tla.
//!
//! Value shapes are those of the specification: words are lists of 7-bit
//! groups (least significant first, canonical), signed integers are
//! {neg, g}, chars are code points, strings are code point lists, byte
//! strings are lists of 0..255. An op is {"op":kind,"v":value} (+ "n" for
//! bits, + "of" for list); a decoder call is the same object without "v".
//! This file only drives the real code and projects its results; every
//! expected value comes from TLC.
use pallas_codec::flat;
use pallas_codec::flat::de::{self, Decoder};
use pallas_codec::flat::en::{self, Encoder};
use pallas_codec::flat::filler::Filler;
use pv_core::serde_json::Value;
use pv_core::*;

// ------------------------------------------------------------ value shapes
fn groups(mut x: u128) -> Value {
    let mut g = vec![];
    loop {
        g.push(json!((x & 127) as u8));
        x >>= 7;
        if x == 0 {
            break;
        }
    }
    Value::Array(g)
}
fn from_groups(v: &Value) -> u128 {
    let mut x: u128 = 0;
    for (i, g) in jarr(v).iter().enumerate() {
        if i >= 18 {
            die("group list too long for the harness");
        }
        x |= (jint(g) as u128) << (7 * i);
    }
    x
}
fn word_of(v: &Value) -> usize {
    let x = from_groups(v);
    if x > u64::MAX as u128 {
        die("word above 64 bits in a vector");
    }
    x as usize
}
fn int_json(i: isize) -> Value {
    json!({"neg": i < 0, "g": groups(i.unsigned_abs() as u128)})
}
fn int_of(v: &Value) -> isize {
    let mag = from_groups(&v["g"]) as i128;
    let x = if v["neg"].as_bool().unwrap_or(false) { -mag } else { mag };
    isize::try_from(x).unwrap_or_else(|_| die("integer outside isize in a vector"))
}
fn cps_json(s: &str) -> Value {
    Value::Array(s.chars().map(|c| json!(c as u32)).collect())
}
fn char_of(v: &Value) -> char {
    char::from_u32(jint(v) as u32).unwrap_or_else(|| die("not a scalar value in a vector"))
}
fn string_of(v: &Value) -> String {
    jarr(v).iter().map(char_of).collect()
}
fn jbool(v: &Value) -> bool {
    v.as_bool().unwrap_or_else(|| die(&format!("expected bool, got {v}")))
}

// ------------------------------------------------------------ encoder side
fn e_bool(x: &bool, e: &mut Encoder) -> Result<(), en::Error> {
    e.bool(*x);
    Ok(())
}
fn e_u8(x: &u8, e: &mut Encoder) -> Result<(), en::Error> {
    e.u8(*x)?;
    Ok(())
}
fn e_word(x: &usize, e: &mut Encoder) -> Result<(), en::Error> {
    e.word(*x);
    Ok(())
}
fn e_int(x: &isize, e: &mut Encoder) -> Result<(), en::Error> {
    e.integer(*x);
    Ok(())
}
fn e_char(x: &char, e: &mut Encoder) -> Result<(), en::Error> {
    e.char(*x);
    Ok(())
}
fn e_bytes(x: &Vec<u8>, e: &mut Encoder) -> Result<(), en::Error> {
    e.bytes(x)?;
    Ok(())
}
fn e_utf8(x: &String, e: &mut Encoder) -> Result<(), en::Error> {
    e.utf8(x)?;
    Ok(())
}

fn enc_op(e: &mut Encoder, o: &Value) -> Result<(), String> {
    let v = &o["v"];
    let r: Result<(), en::Error> = (|| {
        match jstr(&o["op"]) {
            "bool" => {
                e.bool(jbool(v));
            }
            "bits" => {
                e.bits(jint(&o["n"]), jint(v) as u8);
            }
            "u8" => {
                e.u8(jint(v) as u8)?;
            }
            "word" => {
                e.word(word_of(v));
            }
            "int" => {
                e.integer(int_of(v));
            }
            "char" => {
                e.char(char_of(v));
            }
            "bytes" => {
                e.bytes(&jbytes(v))?;
            }
            "utf8" => {
                e.utf8(&string_of(v))?;
            }
            "string" => {
                e.string(&string_of(v));
            }
            "filler" => {
                e.encode(Filler::FillerEnd)?;
            }
            "list" => {
                let items = jarr(v);
                match jstr(&o["of"]) {
                    "bool" => e.encode_list_with(&items.iter().map(jbool).collect::<Vec<_>>(), e_bool)?,
                    "u8" => e.encode_list_with(&items.iter().map(|x| jint(x) as u8).collect::<Vec<_>>(), e_u8)?,
                    "word" => e.encode_list_with(&items.iter().map(word_of).collect::<Vec<_>>(), e_word)?,
                    "int" => e.encode_list_with(&items.iter().map(int_of).collect::<Vec<_>>(), e_int)?,
                    "char" => e.encode_list_with(&items.iter().map(char_of).collect::<Vec<_>>(), e_char)?,
                    "bytes" => e.encode_list_with(&items.iter().map(jbytes).collect::<Vec<_>>(), e_bytes)?,
                    "utf8" => e.encode_list_with(&items.iter().map(string_of).collect::<Vec<_>>(), e_utf8)?,
                    other => die(&format!("unknown list element kind {other}")),
                };
            }
            other => die(&format!("unknown op {other}")),
        }
        Ok(())
    })();
    r.map_err(|e| e.to_string())
}

// ------------------------------------------------------------ decoder side
fn arr<T>(xs: Vec<T>, f: impl Fn(&T) -> Value) -> Value {
    Value::Array(xs.iter().map(f).collect())
}

fn dec_kind(d: &mut Decoder, kind: &str, c: &Value) -> Result<Value, de::Error> {
    match kind {
        "bool" => d.bool().map(|b| json!(b)),
        "bits" => d.bits8(jint(&c["n"]) as usize).map(|x| json!(x)),
        "u8" => d.u8().map(|x| json!(x)),
        "word" => d.word().map(|w| groups(w as u128)),
        "int" => d.integer().map(int_json),
        "char" => d.char().map(|c| json!(c as u32)),
        "bytes" => d.bytes().map(|b| bytes_json(&b)),
        "utf8" => d.utf8().map(|s| cps_json(&s)),
        "string" => d.string().map(|s| cps_json(&s)),
        "filler" => d.filler().map(|_| json!(0)),
        "list" => match jstr(&c["of"]) {
            "bool" => d.decode_list_with(|d: &mut Decoder| d.bool()).map(|xs| arr(xs, |x| json!(x))),
            "u8" => d.decode_list_with(|d: &mut Decoder| d.u8()).map(|xs| arr(xs, |x| json!(x))),
            "word" => d.decode_list_with(|d: &mut Decoder| d.word()).map(|xs| arr(xs, |x| groups(*x as u128))),
            "int" => d.decode_list_with(|d: &mut Decoder| d.integer()).map(|xs| arr(xs, |x| int_json(*x))),
            "char" => d.decode_list_with(|d: &mut Decoder| d.char()).map(|xs| arr(xs, |x| json!(*x as u32))),
            "bytes" => d.decode_list_with(|d: &mut Decoder| d.bytes()).map(|xs| arr(xs, |x| bytes_json(x))),
            "utf8" => d.decode_list_with(|d: &mut Decoder| d.utf8()).map(|xs| arr(xs, |x| cps_json(x))),
            other => die(&format!("unknown list element kind {other}")),
        },
        // flat::decode::<T>: a fresh decoder over the whole buffer, value then filler
        "top" => {
            let buf = d.buffer;
            match jstr(&c["of"]) {
                "bool" => flat::decode::<bool>(buf).map(|b| json!(b)),
                "u8" => flat::decode::<u8>(buf).map(|x| json!(x)),
                "word" => flat::decode::<usize>(buf).map(|w| groups(w as u128)),
                "int" => flat::decode::<isize>(buf).map(int_json),
                "char" => flat::decode::<char>(buf).map(|c| json!(c as u32)),
                "bytes" => flat::decode::<Vec<u8>>(buf).map(|b| bytes_json(&b)),
                "utf8" => flat::decode::<String>(buf).map(|s| cps_json(&s)),
                other => die(&format!("unknown top-level kind {other}")),
            }
        }
        other => die(&format!("unknown call {other}")),
    }
}

/// One decoder call under panic capture; the decoder's public cursor after it.
fn run_call(d: &mut Decoder, c: &Value) -> Value {
    let kind = jstr(&c["op"]).to_string();
    let r = catch(|| dec_kind(d, &kind, c));
    let (out, v, msg) = match r {
        Ok(Ok(v)) => ("ok", v, String::new()),
        Ok(Err(e)) => ("err", json!(0), e.to_string()),
        Err(p) => ("panic", json!(0), p),
    };
    json!({"out": out, "v": v, "msg": msg, "pos": d.pos, "used": d.used_bits})
}

fn call_of(o: &Value) -> Value {
    let mut c = json!({"op": o["op"]});
    for k in ["n", "of"] {
        if let Some(x) = o.get(k) {
            c[k] = x.clone();
        }
    }
    c
}

// ------------------------------------------------------------ C01 M2
/// Replay TLC behaviours {ops, bytes, dec:[{pos,used}], offs, rt}: the real
/// Encoder must round-trip through the real Decoder (the property); its buffer
/// and the decoder's cursors are compared with TLC's (format drift otherwise).
pub fn rt_replay(args: &Args) {
    let vecs = read_ndjson(args.get("in"));
    let mut out = Ndjson::create(args.get("out"));
    for (i, v) in vecs.iter().enumerate() {
        out.ev(rt_one(i, v));
    }
    out.finish();
}

fn rt_one(i: usize, v: &Value) -> Value {
    let ops = jarr(&v["ops"]);
    let want = jbytes(&v["bytes"]);
    let mut e = Encoder::new();
    for (k, o) in ops.iter().enumerate() {
        match catch(|| enc_op(&mut e, o)) {
            Ok(Ok(())) => {}
            Ok(Err(m)) => return json!({"i": i, "class": "enc-error", "op": o["op"], "step": k, "msg": m}),
            Err(p) => return json!({"i": i, "class": "enc-panic", "op": o["op"], "step": k, "msg": p}),
        }
    }
    let buf = e.buffer.clone();
    let fmt_ok = buf == want;
    let mut d = Decoder::new(&buf);
    let mut cursor_ok = true;
    for (k, o) in ops.iter().enumerate() {
        let got = run_call(&mut d, &call_of(o));
        let class = match jstr(&got["out"]) {
            "panic" => "dec-panic",
            "err" => "dec-error",
            _ if got["v"] != o["v"] => "value",
            _ => "",
        };
        if !class.is_empty() {
            return json!({"i": i, "class": class, "op": o["op"], "step": k, "got": got, "want": o["v"], "fmt_ok": fmt_ok,
                          "buf": bytes_json(&buf)});
        }
        let w = &jarr(&v["dec"])[k];
        cursor_ok &= got["pos"] == w["pos"] && got["used"] == w["used"];
    }
    if d.pos != buf.len() || d.used_bits != 0 {
        return json!({"i": i, "class": "leftover", "op": "end", "pos": d.pos, "used": d.used_bits, "len": buf.len(), "fmt_ok": fmt_ok});
    }
    if !fmt_ok {
        let at = buf.iter().zip(want.iter()).position(|(a, b)| a != b).unwrap_or(buf.len().min(want.len()));
        return json!({"i": i, "class": "format", "first_diff": at, "got_len": buf.len(), "want_len": want.len()});
    }
    if !cursor_ok {
        return json!({"i": i, "class": "cursor"});
    }
    json!({"i": i, "class": "ok"})
}

// ------------------------------------------------------------ random values
fn rnd_word(r: &mut Rng) -> usize {
    match r.below(12) {
        0 => 0,
        1 => usize::MAX,
        2 => 1usize << r.below(64),
        3 => (1usize << r.range(1, 63)) - 1,
        _ => {
            let w = r.below(65);
            if w == 0 {
                0
            } else {
                (r.next_u64() >> (64 - w)) as usize
            }
        }
    }
}
fn rnd_int(r: &mut Rng) -> isize {
    match r.below(10) {
        0 => isize::MIN,
        1 => isize::MAX,
        2 => -1,
        _ => {
            let m = rnd_word(r) >> 1;
            if r.bool() {
                m as isize
            } else {
                -(m as isize) - 1
            }
        }
    }
}
fn rnd_char(r: &mut Rng) -> char {
    let c = match r.below(8) {
        0 => r.below(128) as u32,
        1 => r.range(128, 2047) as u32,
        2 => r.range(2048, 65535) as u32,
        3 => r.range(65536, 0x10FFFF) as u32,
        4 => *r.pick(&[0u32, 127, 128, 2047, 2048, 0xD7FF, 0xE000, 0xFFFF, 0x10000, 0x10FFFF]),
        _ => r.range(32, 126) as u32,
    };
    char::from_u32(c).unwrap_or('\u{FFFD}')
}
fn rnd_len(r: &mut Rng, budget: &mut usize) -> usize {
    let n = match r.below(20) {
        0..=9 => r.below(9),
        10..=14 => r.range(9, 100),
        15..=16 => r.range(250, 260),
        17 => r.range(505, 515),
        18 => r.range(760, 770),
        _ => r.range(0, 1000),
    } as usize;
    let n = n.min(*budget);
    *budget -= n;
    n
}
fn rnd_string(r: &mut Rng, budget: &mut usize) -> String {
    let n = rnd_len(r, budget) / 2;
    (0..n).map(|_| rnd_char(r)).collect()
}
fn rnd_elem(r: &mut Rng, kind: &str, budget: &mut usize) -> Value {
    match kind {
        "bool" => json!(r.bool()),
        "u8" => json!(r.below(256)),
        "word" => groups(rnd_word(r) as u128),
        "int" => int_json(rnd_int(r)),
        "char" => json!(rnd_char(r) as u32),
        "bytes" => {
            let n = rnd_len(r, budget);
            bytes_json(&r.bytes(n))
        }
        "utf8" | "string" => cps_json(&rnd_string(r, budget)),
        _ => unreachable!(),
    }
}
fn rnd_op(r: &mut Rng, budget: &mut usize) -> Value {
    const KINDS: [&str; 14] = ["bool", "bool", "bits", "u8", "word", "word", "int", "int", "char", "bytes", "bytes", "utf8", "string", "list"];
    let kind = match r.below(16) {
        15 => "filler",
        k => KINDS[(k as usize) % KINDS.len()],
    };
    match kind {
        "bits" => {
            let n = r.range(1, 8);
            json!({"op": "bits", "n": n, "v": r.below(1 << n)})
        }
        "filler" => json!({"op": "filler", "v": 0}),
        "list" => {
            let of = *r.pick(&["bool", "u8", "word", "int", "char", "bytes", "utf8"]);
            let n = r.below(5);
            let items: Vec<Value> = (0..n).map(|_| rnd_elem(r, of, budget)).collect();
            json!({"op": "list", "of": of, "v": items})
        }
        k => json!({"op": k, "v": rnd_elem(r, k, budget)}),
    }
}

// ------------------------------------------------------------ C01 M3
/// Seeded random op sequences through the real Encoder and Decoder, logged
/// for TraceFlat: enc events with the buffer length after the call, the final
/// buffer, dec events with value and cursor, end.
pub fn rt_trace(args: &Args) {
    let mut r = Rng::new(args.seed());
    let runs = args.num("runs", 50);
    let maxops = args.num("maxops", 64);
    let maxbytes = args.num("maxbytes", 1500) as usize;
    let mut out = Ndjson::create(args.get("out"));
    for run in 0..runs {
        out.ev(json!({"ev": "reset", "run": run}));
        let nops = if run == 0 { 0 } else { r.range(0, maxops) };
        let mut budget = if r.chance(1, 6) { maxbytes * 2 } else { maxbytes };
        let mut ops: Vec<Value> = (0..nops).map(|_| rnd_op(&mut r, &mut budget)).collect();
        let mut e = Encoder::new();
        let mut failed = false;
        for o in &ops {
            match catch(|| enc_op(&mut e, o)) {
                Ok(Ok(())) => out.ev(json!({"ev": "enc", "o": o, "buflen": e.buffer.len()})),
                Ok(Err(m)) => {
                    out.ev(json!({"ev": "enc-error", "o": o, "msg": m}));
                    failed = true;
                }
                Err(p) => {
                    out.ev(json!({"ev": "panic", "where": "enc", "o": o, "msg": p}));
                    failed = true;
                }
            }
            if failed {
                break;
            }
        }
        if failed {
            continue;
        }
        let fin = json!({"op": "filler", "v": 0});
        if let Err(p) = catch(|| enc_op(&mut e, &fin)) {
            out.ev(json!({"ev": "panic", "where": "enc", "o": fin, "msg": p}));
            continue;
        }
        let buf = e.buffer.clone();
        out.ev(json!({"ev": "finish", "buf": bytes_json(&buf)}));
        ops.push(fin);
        let mut d = Decoder::new(&buf);
        let mut stop = false;
        for o in &ops {
            let c = call_of(o);
            let got = run_call(&mut d, &c);
            if got["out"] == "panic" {
                out.ev(json!({"ev": "panic", "where": "dec", "o": c, "msg": got["msg"], "pos": got["pos"], "used": got["used"]}));
                stop = true;
                break;
            }
            out.ev(json!({"ev": "dec", "o": c, "out": got["out"], "v": got["v"], "pos": got["pos"], "used": got["used"]}));
            if got["out"] != "ok" {
                stop = true;
                break;
            }
        }
        if !stop {
            out.ev(json!({"ev": "end", "pos": d.pos, "used": d.used_bits}));
        }
    }
    out.finish();
}

// ------------------------------------------------------------ C02 M1
/// Replay TLC vectors {buf, calls, exp:[{out,val,p,class}]}: every call runs
/// under panic capture. A panic (or a cursor outside the buffer) is the
/// property failure; any other disagreement with the specified decoder is
/// drift (the property does not fix values on malformed input).
pub fn total_replay(args: &Args) {
    let vecs = read_ndjson(args.get("in"));
    let mut out = Ndjson::create(args.get("out"));
    for (i, v) in vecs.iter().enumerate() {
        let buf = jbytes(&v["buf"]);
        let calls = jarr(&v["calls"]);
        let exp = jarr(&v["exp"]);
        let mut d = Decoder::new(&buf);
        let mut row = json!({"i": i, "class": "ok"});
        let mut free = false;
        for (k, c) in calls.iter().enumerate() {
            let got = run_call(&mut d, c);
            let x = &exp[k];
            let bitpos = jint(&got["pos"]) * 8 + jint(&got["used"]);
            if got["out"] == "panic" {
                row = json!({"i": i, "class": "panic", "op": c["op"], "spec_class": x["class"], "step": k, "call": c, "got": got,
                             "buf": v["buf"], "calls": v["calls"]});
                break;
            }
            if bitpos > 8 * buf.len() as i64 || jint(&got["used"]) > 7 {
                row = json!({"i": i, "class": "oob-cursor", "op": c["op"], "spec_class": x["class"], "step": k, "call": c, "got": got,
                             "buf": v["buf"], "calls": v["calls"]});
                break;
            }
            if free || x["out"] == "any" {
                free = true;
                continue;
            }
            let top = c["op"] == "top";
            let same = got["out"] == x["out"] && (top || bitpos == jint(&x["p"])) && (x["out"] != "ok" || got["v"] == x["val"]);
            if !same {
                row = json!({"i": i, "class": "drift", "op": c["op"], "spec_class": x["class"], "step": k, "call": c, "got": got, "want": x,
                             "buf": v["buf"]});
                free = true;
            }
            if top {
                free = true;
            }
        }
        out.ev(row);
    }
    out.finish();
}

// ------------------------------------------------------------ C02 M3
fn rnd_call(r: &mut Rng) -> Value {
    const KINDS: [&str; 12] = ["bool", "bits", "u8", "word", "int", "char", "bytes", "utf8", "string", "filler", "list", "word"];
    match *r.pick(&KINDS) {
        "bits" => json!({"op": "bits", "n": r.below(10)}),
        "list" => json!({"op": "list", "of": *r.pick(&["bool", "u8", "word", "int", "char", "bytes", "utf8"])}),
        k => json!({"op": k}),
    }
}

fn rnd_buffer(r: &mut Rng) -> Vec<u8> {
    match r.below(10) {
        0 => vec![],
        1 | 2 => {
            let n = r.below(65) as usize;
            r.bytes(n)
        }
        3 => {
            // continuation runs
            let mut b = vec![if r.bool() { 0xFF } else { 0x80 | r.below(128) as u8 }; r.range(1, 24) as usize];
            if r.bool() {
                b.push(r.below(128) as u8);
            }
            if r.bool() {
                b.insert(0, r.below(256) as u8);
            }
            b
        }
        4 | 5 => {
            // byte-string shaped: filler, length byte, fewer / exactly / more bytes than announced
            let mut b = vec![];
            if r.bool() {
                b.push(1);
            } else {
                b.push(r.below(256) as u8);
            }
            let blocks = r.range(1, 3);
            for _ in 0..blocks {
                let l = *r.pick(&[0u8, 1, 2, 5, 20, 60, 255]);
                b.push(l);
                let have = match r.below(3) {
                    0 => l as usize,
                    1 => (l as usize).saturating_sub(r.range(1, 3) as usize),
                    _ => l as usize + r.below(3) as usize,
                };
                b.extend(r.bytes(have.min(62)));
            }
            if r.bool() {
                b.push(0);
            }
            b.truncate(64);
            b
        }
        _ => {
            // a valid encoding, then damaged
            let mut budget = 40usize;
            let n = r.range(1, 8);
            let mut e = Encoder::new();
            for _ in 0..n {
                let o = rnd_op(r, &mut budget);
                let _ = catch(|| enc_op(&mut e, &o));
            }
            let _ = catch(|| enc_op(&mut e, &json!({"op": "filler", "v": 0})));
            let mut b = e.buffer.clone();
            match r.below(5) {
                0 => {}
                1 => {
                    let k = r.below(b.len() as u64 + 1) as usize;
                    b.truncate(k);
                }
                2 => {
                    if !b.is_empty() {
                        let k = r.below(b.len() as u64) as usize;
                        b[k] ^= 1 << r.below(8);
                    }
                }
                3 => {
                    if !b.is_empty() {
                        let k = r.below(b.len() as u64) as usize;
                        b[k] = 0xFF;
                    }
                }
                _ => {
                    let k = r.below(b.len() as u64 + 1) as usize;
                    b.insert(k, r.below(256) as u8);
                }
            }
            b.truncate(64);
            b
        }
    }
}

/// Seeded random / structured / damaged buffers with random decoder call
/// sequences, every call under panic capture, logged for TraceFlat.
pub fn total_trace(args: &Args) {
    let mut r = Rng::new(args.seed());
    let runs = args.num("runs", 300);
    let maxcalls = args.num("maxcalls", 6);
    let mut out = Ndjson::create(args.get("out"));
    for _ in 0..runs {
        let buf = rnd_buffer(&mut r);
        out.ev(json!({"ev": "load", "buf": bytes_json(&buf)}));
        let mut d = Decoder::new(&buf);
        let n = r.range(1, maxcalls);
        for _ in 0..n {
            let c = rnd_call(&mut r);
            let got = run_call(&mut d, &c);
            let panicked = got["out"] == "panic";
            out.ev(json!({"ev": "call", "c": c, "out": got["out"], "v": got["v"], "msg": got["msg"], "pos": got["pos"], "used": got["used"]}));
            if panicked {
                break;
            }
        }
    }
    out.finish();
}
