//! Conformance drivers (pv-flat): the flat bit-level codec of pallas-codec
//! against spec/flat/FlatCodec.tla (C01 round trip, C02 totality).
mod flat;

fn main() {
    let args = pv_core::Args::parse();
    match args.cmd.as_str() {
        "rt-replay" => flat::rt_replay(&args),
        "rt-trace" => flat::rt_trace(&args),
        "total-replay" => flat::total_replay(&args),
        "total-trace" => flat::total_trace(&args),
        other => pv_core::die(&format!("unknown sub-command {other}")),
    }
}
