//! Shared plumbing for the conformance harness binaries (`pv-*`).
//!
//! Nothing in here knows about pallas: deterministic RNG, ndjson trace /
//! vector I/O, panic capture and a tiny argument parser.

use serde_json::Value;
use std::collections::HashMap;
use std::fs::File;
use std::io::{BufRead, BufReader, BufWriter, Write};
use std::panic::{catch_unwind, AssertUnwindSafe};
use std::sync::Once;

pub use serde_json;
pub use serde_json::json;

/// SplitMix64: deterministic, dependency-free, good enough for driving inputs.
#[derive(Clone, Debug)]
pub struct Rng(pub u64);

impl Rng {
    pub fn new(seed: u64) -> Self {
        Rng(seed.wrapping_mul(0x9E37_79B9_7F4A_7C15) ^ 0xD1B5_4A32_D192_ED03)
    }
    pub fn next_u64(&mut self) -> u64 {
        self.0 = self.0.wrapping_add(0x9E37_79B9_7F4A_7C15);
        let mut z = self.0;
        z = (z ^ (z >> 30)).wrapping_mul(0xBF58_476D_1CE4_E5B9);
        z = (z ^ (z >> 27)).wrapping_mul(0x94D0_49BB_1331_11EB);
        z ^ (z >> 31)
    }
    /// uniform in 0..n (n > 0)
    pub fn below(&mut self, n: u64) -> u64 {
        self.next_u64() % n
    }
    pub fn range(&mut self, lo: u64, hi_incl: u64) -> u64 {
        lo + self.below(hi_incl - lo + 1)
    }
    pub fn bool(&mut self) -> bool {
        self.next_u64() & 1 == 1
    }
    pub fn chance(&mut self, num: u64, den: u64) -> bool {
        self.below(den) < num
    }
    pub fn pick<'a, T>(&mut self, xs: &'a [T]) -> &'a T {
        &xs[self.below(xs.len() as u64) as usize]
    }
    pub fn bytes(&mut self, n: usize) -> Vec<u8> {
        (0..n).map(|_| self.next_u64() as u8).collect()
    }
    pub fn fill(&mut self, buf: &mut [u8]) {
        for b in buf.iter_mut() {
            *b = self.next_u64() as u8;
        }
    }
    pub fn shuffle<T>(&mut self, xs: &mut [T]) {
        for i in (1..xs.len()).rev() {
            let j = self.below(i as u64 + 1) as usize;
            xs.swap(i, j);
        }
    }
}

/// ndjson writer (one JSON object per line). Used for traces handed to TLC
/// (`Rec == ndJsonDeserialize(IOEnv.TRACE)`) and for result files.
pub struct Ndjson {
    w: BufWriter<File>,
    pub lines: usize,
}

impl Ndjson {
    pub fn create(path: &str) -> Self {
        if let Some(parent) = std::path::Path::new(path).parent() {
            let _ = std::fs::create_dir_all(parent);
        }
        let f = File::create(path).unwrap_or_else(|e| die(&format!("cannot create {path}: {e}")));
        Ndjson {
            w: BufWriter::new(f),
            lines: 0,
        }
    }
    pub fn ev(&mut self, v: Value) {
        serde_json::to_writer(&mut self.w, &v).expect("write");
        self.w.write_all(b"\n").expect("write");
        self.lines += 1;
    }
    pub fn finish(mut self) -> usize {
        self.w.flush().expect("flush");
        self.lines
    }
}

/// Read an ndjson file (vectors printed by TLC and extracted by bin/check).
pub fn read_ndjson(path: &str) -> Vec<Value> {
    let f = File::open(path).unwrap_or_else(|e| die(&format!("cannot open {path}: {e}")));
    BufReader::new(f)
        .lines()
        .map(|l| l.expect("read"))
        .filter(|l| !l.trim().is_empty())
        .map(|l| serde_json::from_str(&l).unwrap_or_else(|e| die(&format!("bad json line {l}: {e}"))))
        .collect()
}

static HOOK: Once = Once::new();

/// Run `f`, turning a panic into `Err(message)`. The default panic hook is
/// silenced once so that expected panics do not flood stderr.
pub fn catch<T>(f: impl FnOnce() -> T) -> Result<T, String> {
    HOOK.call_once(|| {
        if std::env::var("PV_PANIC_VERBOSE").is_err() {
            std::panic::set_hook(Box::new(|_| {}));
        }
    });
    catch_unwind(AssertUnwindSafe(f)).map_err(|e| {
        if let Some(s) = e.downcast_ref::<&str>() {
            s.to_string()
        } else if let Some(s) = e.downcast_ref::<String>() {
            s.clone()
        } else {
            "panic".to_string()
        }
    })
}

/// Tool error (never a verdict): exit code 2.
pub fn die(msg: &str) -> ! {
    eprintln!("pv: tool error: {msg}");
    std::process::exit(2)
}

/// `prog <cmd> [--key value]...`
pub struct Args {
    pub cmd: String,
    pub kv: HashMap<String, String>,
}

impl Args {
    pub fn parse() -> Self {
        let mut it = std::env::args().skip(1);
        let cmd = it.next().unwrap_or_else(|| die("missing sub-command"));
        let mut kv = HashMap::new();
        while let Some(k) = it.next() {
            let k = k.trim_start_matches("--").to_string();
            let v = it.next().unwrap_or_else(|| die(&format!("missing value for --{k}")));
            kv.insert(k, v);
        }
        Args { cmd, kv }
    }
    pub fn get(&self, k: &str) -> &str {
        self.kv
            .get(k)
            .map(|s| s.as_str())
            .unwrap_or_else(|| die(&format!("missing --{k}")))
    }
    pub fn opt(&self, k: &str) -> Option<&str> {
        self.kv.get(k).map(|s| s.as_str())
    }
    pub fn num(&self, k: &str, default: u64) -> u64 {
        self.kv
            .get(k)
            .map(|s| s.parse().unwrap_or_else(|_| die(&format!("--{k} not a number"))))
            .unwrap_or(default)
    }
    pub fn seed(&self) -> u64 {
        self.num("seed", 0)
    }
}

pub fn hex(b: &[u8]) -> String {
    hex::encode(b)
}
pub fn unhex(s: &str) -> Vec<u8> {
    hex::decode(s).unwrap_or_else(|e| die(&format!("bad hex {s}: {e}")))
}

/// JSON helpers for vectors.
pub fn jint(v: &Value) -> i64 {
    v.as_i64().unwrap_or_else(|| die(&format!("expected int, got {v}")))
}
pub fn jstr(v: &Value) -> &str {
    v.as_str().unwrap_or_else(|| die(&format!("expected string, got {v}")))
}
pub fn jarr(v: &Value) -> &Vec<Value> {
    v.as_array().unwrap_or_else(|| die(&format!("expected array, got {v}")))
}
/// TLC's `ToJson` prints sequences as arrays and small-int-keyed functions as
/// arrays too; byte sequences therefore arrive as arrays of ints.
pub fn jbytes(v: &Value) -> Vec<u8> {
    jarr(v).iter().map(|x| jint(x) as u8).collect()
}
pub fn bytes_json(b: &[u8]) -> Value {
    Value::Array(b.iter().map(|x| json!(*x)).collect())
}

/// Root of the pallas checkout the harness was built against (test data lives
/// there). `bin/mutant-run` points this at a scratch worktree.
pub fn repo_root() -> String {
    std::env::var("PV_REPO").unwrap_or_else(|_| "/repo".to_string())
}

/// BigNat.tla JSON form of a decimal integer string ("-123", "0", ...):
/// {"neg": bool, "mag": [base-10^4 limbs, little endian]} (normalised).
pub fn big_json(dec: &str) -> Value {
    let (neg, digits) = match dec.strip_prefix('-') {
        Some(d) => (true, d),
        None => (false, dec),
    };
    let digits = digits.trim_start_matches('0');
    let bytes = digits.as_bytes();
    let mut mag = Vec::new();
    let mut end = bytes.len();
    while end > 0 {
        let start = end.saturating_sub(4);
        let limb: u32 = std::str::from_utf8(&bytes[start..end]).unwrap().parse().unwrap_or_else(|_| die("bad decimal"));
        mag.push(json!(limb));
        end = start;
    }
    json!({"neg": neg && !mag.is_empty(), "mag": mag})
}
pub fn big_json_i128(v: i128) -> Value {
    big_json(&v.to_string())
}
pub fn big_json_u64(v: u64) -> Value {
    big_json(&v.to_string())
}
/// Inverse of `big_json` (to a decimal string).
pub fn big_from_json(v: &Value) -> String {
    let mag = jarr(&v["mag"]);
    if mag.is_empty() {
        return "0".into();
    }
    let mut s = String::new();
    if v["neg"].as_bool().unwrap_or(false) {
        s.push('-');
    }
    for (i, l) in mag.iter().rev().enumerate() {
        if i == 0 {
            s.push_str(&format!("{}", jint(l)));
        } else {
            s.push_str(&format!("{:04}", jint(l)));
        }
    }
    s
}
