//! Driver for the real `InitiatorBehavior` (C27 / C28 / C29).
//!
//! The behaviour is driven from outside the crate through its public API only:
//! `execute(cmd)`, `handle_io(event)` and `poll_next` (no-op waker) to drain the outputs.
//! Every step is logged as one ndjson event with the emitted outputs, the four promotion sets
//! and (optionally) the per-peer snapshot of the `verif_snapshot` hook.
//!
//! The driver keeps the bookkeeping a network interface would keep (outstanding connects,
//! live connections, sent-but-unconfirmed messages) so that it can *offer* events that are
//! consistent with a real connection (`strict`); whether they really are is re-checked by TLC.

use crate::msgs::{self, MsgDesc, View};
use futures::StreamExt;
use pallas_network2::behavior::{
    AnyMessage, Config as HandshakeConfig, HandshakeBehavior, InitiatorBehavior, InitiatorCommand, InitiatorEvent,
    PromotionBehavior, PromotionConfig,
};
use pallas_network2::protocol as proto;
use pallas_network2::{Behavior, BehaviorOutput, InterfaceCommand, InterfaceError, InterfaceEvent};
use pv_core::serde_json::Value;
use pv_core::{json, Ndjson, Rng};
use std::collections::{BTreeMap, BTreeSet};

#[derive(Clone, Debug)]
pub struct Cfg {
    pub max_peers: usize,
    pub max_warm: usize,
    pub max_hot: usize,
    pub max_err: u32,
    pub leios: bool,
    pub strict: bool,
    pub snap: bool,
}

impl Cfg {
    pub fn from_json(v: &Value) -> Cfg {
        Cfg {
            max_peers: v["max_peers"].as_u64().unwrap_or(100) as usize,
            max_warm: v["max_warm"].as_u64().unwrap_or(50) as usize,
            max_hot: v["max_hot"].as_u64().unwrap_or(10) as usize,
            max_err: v["max_err"].as_u64().unwrap_or(1) as u32,
            leios: v["leios"].as_bool().unwrap_or(false),
            strict: v["strict"].as_bool().unwrap_or(false),
            snap: v["snap"].as_bool().unwrap_or(true),
        }
    }
    pub fn json(&self) -> Value {
        json!({"max_peers": self.max_peers, "max_warm": self.max_warm, "max_hot": self.max_hot,
               "max_err": self.max_err, "leios": self.leios, "strict": self.strict, "snap": self.snap})
    }
    pub fn versions(&self) -> Vec<u64> {
        if self.leios {
            vec![13, 15]
        } else {
            vec![13]
        }
    }
}

#[derive(Clone, Debug)]
pub struct Step {
    pub a: String,
    pub p: u64,
    pub m: MsgDesc,
}

impl Step {
    pub fn new(a: &str, p: u64) -> Step {
        Step {
            a: a.into(),
            p,
            m: MsgDesc::none(),
        }
    }
    pub fn msg(a: &str, p: u64, m: MsgDesc) -> Step {
        Step { a: a.into(), p, m }
    }
    /// TLC schedules use the field name `ev`; hand-written ones may use `a`.
    pub fn from_json(v: &Value) -> Step {
        let a = v["ev"].as_str().or(v["a"].as_str()).unwrap_or("?").to_string();
        Step {
            a,
            p: v["p"].as_u64().unwrap_or(0),
            m: if v["m"].is_object() { MsgDesc::from_json(&v["m"]) } else { MsgDesc::none() },
        }
    }
}

#[derive(PartialEq, Eq, Debug, Clone, Copy)]
pub enum Outcome {
    Done,
    Skipped,
    Panicked,
}

pub struct Driver {
    pub beh: InitiatorBehavior,
    pub cfg: Cfg,
    pub outst: BTreeMap<u64, u32>,
    pub live: BTreeSet<u64>,
    pub pending: BTreeMap<u64, Vec<AnyMessage>>,
    pub views: BTreeMap<u64, View>,
    pub sync_started: bool,
    pub steps: usize,
}

fn drain(beh: &mut InitiatorBehavior) -> Vec<BehaviorOutput<InitiatorBehavior>> {
    let waker = futures::task::noop_waker();
    let mut cx = std::task::Context::from_waker(&waker);
    let mut v = Vec::new();
    while let std::task::Poll::Ready(Some(o)) = beh.poll_next_unpin(&mut cx) {
        v.push(o);
    }
    v
}

fn event_kind(e: &InitiatorEvent) -> (&'static str, u64) {
    match e {
        InitiatorEvent::PeerInitialized(p, _) => ("PeerInitialized", msgs::pnum(p)),
        InitiatorEvent::IntersectionFound(p, ..) => ("IntersectionFound", msgs::pnum(p)),
        InitiatorEvent::BlockHeaderReceived(p, ..) => ("BlockHeaderReceived", msgs::pnum(p)),
        InitiatorEvent::RollbackReceived(p, ..) => ("RollbackReceived", msgs::pnum(p)),
        InitiatorEvent::BlockBodyReceived(p, ..) => ("BlockBodyReceived", msgs::pnum(p)),
        InitiatorEvent::TxRequested(p, ..) => ("TxRequested", msgs::pnum(p)),
        InitiatorEvent::EbNotification(p, ..) => ("EbNotification", msgs::pnum(p)),
        InitiatorEvent::EbFetched(p, ..) => ("EbFetched", msgs::pnum(p)),
    }
}

impl Driver {
    pub fn new(cfg: Cfg) -> Driver {
        let beh = InitiatorBehavior {
            promotion: PromotionBehavior::new(PromotionConfig {
                max_peers: cfg.max_peers,
                max_warm_peers: cfg.max_warm,
                max_hot_peers: cfg.max_hot,
                max_error_count: cfg.max_err,
            }),
            handshake: HandshakeBehavior::new(HandshakeConfig {
                supported_version: msgs::version_table(&cfg.versions()),
            }),
            ..Default::default()
        };
        Driver {
            beh,
            cfg,
            outst: BTreeMap::new(),
            live: BTreeSet::new(),
            pending: BTreeMap::new(),
            views: BTreeMap::new(),
            sync_started: false,
            steps: 0,
        }
    }

    pub fn tracked(&self) -> Vec<u64> {
        let mut v: Vec<u64> = self.beh.peers.keys().map(msgs::pnum).collect();
        v.sort();
        v
    }

    fn set_json(s: &std::collections::HashSet<pallas_network2::PeerId>) -> Value {
        let mut v: Vec<u64> = s.iter().map(msgs::pnum).collect();
        v.sort();
        json!(v)
    }

    pub fn snap_of(&self, p: u64) -> Option<pallas_network2::behavior::VerifSnapshot> {
        self.beh.peers.get(&msgs::pid(p)).map(|s| s.verif_snapshot())
    }

    fn state_json(&self, ev: &mut Value) {
        ev["cold"] = Self::set_json(&self.beh.promotion.cold_peers);
        ev["warm"] = Self::set_json(&self.beh.promotion.warm_peers);
        ev["hot"] = Self::set_json(&self.beh.promotion.hot_peers);
        ev["banned"] = Self::set_json(&self.beh.promotion.banned_peers);
        ev["tracked"] = json!(self.tracked());
        let mut peers = vec![];
        if self.cfg.snap {
            for p in self.tracked() {
                let s = self.snap_of(p).unwrap();
                peers.push(json!({"p": p, "conn": s.connection, "tag": s.promotion, "viol": s.violation,
                    "errs": s.error_count, "cont": s.continue_sync, "hs": s.handshake, "ver": s.version,
                    "psh": s.peer_sharing, "ka": s.keepalive, "ps": s.peersharing, "psn": s.peersharing_pending,
                    "bf": s.blockfetch, "cs": s.chainsync, "tx": s.txsubmission, "ln": s.leiosnotify,
                    "lf": s.leiosfetch}));
            }
        }
        ev["peers"] = json!(peers);
    }

    /// Is the step consistent with a real connection, as far as the interface bookkeeping can tell?
    pub fn consistent(&self, s: &Step) -> bool {
        match s.a.as_str() {
            "connected" => self.outst.get(&s.p).copied().unwrap_or(0) > 0,
            "sent" => {
                self.live.contains(&s.p)
                    && self.pending.get(&s.p).map_or(false, |v| v.iter().any(|m| msgs::describe(m).same_kind(&s.m)))
            }
            "recv" => {
                self.live.contains(&s.p)
                    && self.views.get(&s.p).map_or(false, |v| {
                        let mut v = v.clone();
                        v.advance(&s.m, 's')
                    })
                    && !(s.m.kind == "Accept" && !self.cfg.versions().contains(&s.m.ver))
            }
            _ => true,
        }
    }

    pub fn step(&mut self, s: &Step, log: &mut Ndjson) -> Outcome {
        let mut sig = vec![];
        self.step_collect(s, log, &mut sig)
    }

    /// Apply one step to the real behaviour and log it; `sig` receives the output signature "t/proto/kind/k".
    pub fn step_collect(&mut self, s: &Step, log: &mut Ndjson, sig: &mut Vec<String>) -> Outcome {
        sig.clear();
        self.steps += 1;
        if self.cfg.strict && !self.consistent(s) {
            log.ev(json!({"ev": "skip", "a": s.a, "p": s.p, "m": s.m.json()}));
            return Outcome::Skipped;
        }
        let pid = msgs::pid(s.p);
        let versions = self.cfg.versions();
        // the message object handed to the behaviour
        let msg: Option<AnyMessage> = match s.a.as_str() {
            "sent" => {
                let from_pending = self.pending.get_mut(&s.p).and_then(|v| {
                    v.iter().position(|m| msgs::describe(m).same_kind(&s.m)).map(|i| v.remove(i))
                });
                from_pending.or_else(|| msgs::build(&s.m, &versions))
            }
            "recv" => msgs::build(&s.m, &versions),
            _ => None,
        };
        if (s.a == "sent" || s.a == "recv") && msg.is_none() {
            log.ev(json!({"ev": "skip", "a": s.a, "p": s.p, "m": s.m.json()}));
            return Outcome::Skipped;
        }
        let pre = self.snap_of(s.p);
        let a = s.a.clone();
        let beh = &mut self.beh;
        let res = pv_core::catch(move || {
            match a.as_str() {
                "include" => beh.execute(InitiatorCommand::IncludePeer(pid)),
                "hk" => beh.execute(InitiatorCommand::Housekeeping),
                "idle" => beh.handle_io(InterfaceEvent::Idle),
                "ban" => beh.execute(InitiatorCommand::BanPeer(pid)),
                "demote" => beh.execute(InitiatorCommand::DemotePeer(pid)),
                "startsync" => beh.execute(InitiatorCommand::StartSync(vec![proto::Point::Origin])),
                "contsync" => beh.execute(InitiatorCommand::ContinueSync(pid)),
                "reqblocks" => beh.execute(InitiatorCommand::RequestBlocks((
                    proto::Point::Origin,
                    proto::Point::new(5, vec![5; 32]),
                ))),
                "fetcheb" => beh.execute(InitiatorCommand::FetchEb(pid, proto::Point::new(3, vec![3; 32]))),
                "fetchebtxs" => beh.execute(InitiatorCommand::FetchEbTxs(
                    pid,
                    proto::Point::new(3, vec![3; 32]),
                    proto::leiosfetch::Bitmaps::all(2),
                )),
                "sendtx" => beh.execute(InitiatorCommand::SendTx(
                    pid,
                    proto::txsubmission::EraTxId(6, vec![1; 32]),
                    proto::txsubmission::EraTxBody(6, vec![0x80]),
                )),
                "connected" => beh.handle_io(InterfaceEvent::Connected(pid)),
                "disconnected" => beh.handle_io(InterfaceEvent::Disconnected(pid)),
                "error" => beh.handle_io(InterfaceEvent::Error(pid, InterfaceError::Other("io".into()))),
                "sent" => beh.handle_io(InterfaceEvent::Sent(pid, msg.unwrap())),
                "recv" => beh.handle_io(InterfaceEvent::Recv(pid, vec![msg.unwrap()])),
                other => pv_core::die(&format!("unknown step {other}")),
            }
            drain(beh)
        });
        let outs = match res {
            Ok(o) => o,
            Err(msg) => {
                let (pc, ph) = pre.map(|s| (s.connection, s.handshake)).unwrap_or(("-", "-"));
                // the public sets are still readable after the unwind: log them, the run ends here
                let a = if s.a == "idle" { "hk" } else { s.a.as_str() };
                let mut ev = json!({"ev": "panic", "a": a, "p": s.p, "m": s.m.json(), "msg": msg,
                                    "pre_conn": pc, "pre_hs": ph, "out": []});
                self.state_json(&mut ev);
                log.ev(ev);
                return Outcome::Panicked;
            }
        };
        // interface bookkeeping for the event itself
        match s.a.as_str() {
            "connected" => {
                if let Some(n) = self.outst.get_mut(&s.p) {
                    *n = n.saturating_sub(1);
                }
                self.live.insert(s.p);
                self.pending.insert(s.p, vec![]);
                self.views.insert(s.p, View::new());
            }
            "disconnected" => {
                self.live.remove(&s.p);
                self.pending.remove(&s.p);
            }
            "error" => {
                if self.live.remove(&s.p) {
                    self.pending.remove(&s.p);
                } else if let Some(n) = self.outst.get_mut(&s.p) {
                    *n = n.saturating_sub(1);
                }
            }
            "recv" => {
                if let Some(v) = self.views.get_mut(&s.p) {
                    v.advance(&s.m, 's');
                }
            }
            _ => {}
        }
        // outputs
        let mut out = vec![];
        for o in outs {
            match o {
                BehaviorOutput::InterfaceCommand(InterfaceCommand::Connect(p)) => {
                    let n = msgs::pnum(&p);
                    *self.outst.entry(n).or_insert(0) += 1;
                    out.push(json!({"t": "connect", "p": n, "m": MsgDesc::none().json(), "k": ""}));
                }
                BehaviorOutput::InterfaceCommand(InterfaceCommand::Disconnect(p)) => {
                    out.push(json!({"t": "disconnect", "p": msgs::pnum(&p), "m": MsgDesc::none().json(), "k": ""}));
                }
                BehaviorOutput::InterfaceCommand(InterfaceCommand::Send(p, m)) => {
                    let n = msgs::pnum(&p);
                    let d = msgs::describe(&m);
                    if self.live.contains(&n) {
                        if let Some(v) = self.views.get_mut(&n) {
                            v.advance(&d, 'c');
                        }
                        self.pending.entry(n).or_default().push(m);
                    }
                    out.push(json!({"t": "send", "p": n, "m": d.json(), "k": ""}));
                }
                BehaviorOutput::ExternalEvent(e) => {
                    let (k, n) = event_kind(&e);
                    out.push(json!({"t": "event", "p": n, "m": MsgDesc::none().json(), "k": k}));
                }
            }
        }
        if s.a == "startsync" {
            self.sync_started = true;
        }
        for o in out.iter() {
            sig.push(format!(
                "{}/{}/{}/{}",
                o["t"].as_str().unwrap_or(""),
                o["m"]["proto"].as_str().unwrap_or(""),
                o["m"]["kind"].as_str().unwrap_or(""),
                o["k"].as_str().unwrap_or("")
            ));
        }
        let evname = if s.a == "idle" { "hk" } else { s.a.as_str() };
        let mut ev = json!({"ev": evname, "p": s.p, "m": s.m.json(), "out": out});
        self.state_json(&mut ev);
        log.ev(ev);
        Outcome::Done
    }
}

pub fn log_reset(log: &mut Ndjson, sid: &str, cfg: &Cfg) {
    log.ev(json!({"ev": "reset", "sid": sid, "cfg": cfg.json()}));
}

/// `init-run`: replay schedules (one JSON object per line: {"id":.., "cfg":{..}, "sched":[steps], "exp":[..]}).
/// `--log 0` only reports, per schedule, whether the outputs of the last step are the ones the design model
/// expects (`exp`: [[t, proto, kind, k]..], compared as a multiset); the check uses that to choose which runs
/// are worth a full trace.
pub fn run_schedules(args: &pv_core::Args) {
    let rows = pv_core::read_ndjson(args.get("in"));
    let full = args.num("log", 1) == 1;
    let scratch = format!("{}.scratch", args.get("res"));
    let mut log = Ndjson::create(if full { args.get("out") } else { &scratch });
    let mut res = Ndjson::create(args.get("res"));
    for (i, row) in rows.iter().enumerate() {
        let mut cfg = Cfg::from_json(&row["cfg"]);
        if !full {
            cfg.snap = false;
        }
        let sid = row["id"].as_str().map(|s| s.to_string()).unwrap_or(format!("s{i}"));
        if !full {
            // keep the scratch log small: one schedule at a time
            log = Ndjson::create(&scratch);
        }
        log_reset(&mut log, &sid, &cfg);
        let mut d = Driver::new(cfg);
        let (mut done, mut skipped, mut panicked) = (0, 0, false);
        let steps = pv_core::jarr(&row["sched"]);
        let mut last_out: Vec<String> = vec![];
        for st in steps {
            match d.step_collect(&Step::from_json(st), &mut log, &mut last_out) {
                Outcome::Done => done += 1,
                Outcome::Skipped => skipped += 1,
                Outcome::Panicked => {
                    panicked = true;
                    break;
                }
            }
        }
        let mut mismatch = skipped > 0;
        if let Some(exp) = row["exp"].as_array() {
            let mut want: Vec<String> = exp
                .iter()
                .map(|o| pv_core::jarr(o).iter().map(|x| x.as_str().unwrap_or("")).collect::<Vec<_>>().join("/"))
                .collect();
            let model_panics = want.iter().any(|w| w.starts_with("panic/"));
            want.sort();
            last_out.sort();
            if model_panics != panicked || (!panicked && want != last_out) {
                mismatch = true;
            }
        }
        res.ev(json!({"id": sid, "done": done, "skipped": skipped, "panicked": panicked, "mismatch": mismatch}));
    }
    log.finish();
    res.finish();
    if !full {
        let _ = std::fs::remove_file(&scratch);
    }
}

// ---------------------------------------------------------------------------
// seeded random drivers

fn weighted<'a>(rng: &mut Rng, c: &'a [(u64, Step)]) -> &'a Step {
    let total: u64 = c.iter().map(|x| x.0).sum();
    let mut r = rng.below(total.max(1));
    for (w, s) in c {
        if r < *w {
            return s;
        }
        r -= w;
    }
    &c[0].1
}

/// `big`: now and then a responder hands out a very large address list (more than was asked for)
fn fill_payload(rng: &mut Rng, d: &mut MsgDesc, versions: &[u64], npeers: u64, big: bool) {
    if big && d.proto == "peersharing" && d.kind == "SharePeers" && rng.chance(1, 2) {
        let n = rng.range(90, 170);
        let base = 100 + rng.below(4) * 150;
        d.peers = (0..n).map(|i| base + i).collect();
        return;
    }
    if d.proto == "handshake" && d.kind == "Accept" {
        d.ver = *rng.pick(versions);
        d.ps = if rng.chance(3, 4) { 1 } else { 0 };
    }
    if d.proto == "peersharing" && d.kind == "SharePeers" {
        let n = rng.below(3);
        let mut v: Vec<u64> = (0..n).map(|_| rng.range(1, npeers)).collect();
        v.sort();
        v.dedup();
        d.peers = v;
    }
}

/// mode: "c27" (commands + lifecycle + violations, mostly plausible), "c28" (strictly consistent
/// environment, confirmations delayed at random), "c29" (anything goes).
pub fn random_runs(args: &pv_core::Args) {
    let mode = args.get("mode").to_string();
    let seed = args.seed();
    let runs = args.num("runs", 5);
    let events = args.num("events", 200);
    let npeers_arg = args.num("peers", 6);
    let snap = args.num("snap", 0) == 1;
    let mut log = Ndjson::create(args.get("out"));
    let mut stats = BTreeMap::<String, u64>::new();
    for run in 0..runs {
        let mut rng = Rng::new(seed.wrapping_mul(1_000_003).wrapping_add(run * 7919 + mode.len() as u64));
        let strict = mode == "c28";
        // C28: every second run concentrates on 3 peers so that single connections get deep into the protocols
        let npeers = if mode == "c28" && run % 2 == 1 { npeers_arg.min(3) } else { npeers_arg };
        let cfg = match mode.as_str() {
            "c27" => Cfg {
                max_peers: *rng.pick(&[3usize, 6, 12, 20]),
                max_warm: *rng.pick(&[1usize, 2, 4, 8]),
                max_hot: *rng.pick(&[1usize, 2, 3]),
                max_err: rng.below(3) as u32,
                leios: rng.chance(1, 4),
                strict,
                snap,
            },
            _ => Cfg {
                max_peers: *rng.pick(&[4usize, 10, 100]),
                max_warm: *rng.pick(&[2usize, 5, 50]),
                max_hot: *rng.pick(&[1usize, 3, 10]),
                max_err: rng.below(3) as u32,
                leios: rng.bool(),
                strict,
                snap,
            },
        };
        log_reset(&mut log, &format!("{mode}-{seed}-{run}"), &cfg);
        let versions = cfg.versions();
        let mut d = Driver::new(cfg);
        // how eagerly confirmations are delivered in this run (C28: "arbitrarily delayed")
        // C27 confirms eagerly: delayed confirmations make the initiator ban honest peers (C28's defect)
        let sent_w = if mode == "c27" { 12 } else { *rng.pick(&[1u64, 3, 8]) };
        // C27 runs and two of three C29 runs are "tame" (no Connected without an outstanding Connect, no stray handshake
        // messages), so that long runs exist next to the ones that hit the handshake assertion early
        // per-run profile: error storms / disconnect storms in some runs
        let mut err_w = if mode == "c28" { 1 } else { *rng.pick(&[1u64, 1, 12]) };
        let mut disc_w = if mode == "c28" { 1 } else { *rng.pick(&[1u64, 1, 6]) };
        // C27: calm runs (noise 0) fill the warm / hot sets up to their limits, noisy ones ban and disconnect a lot
        let noise = if mode == "c27" { *rng.pick(&[0u64, 0, 1, 3]) } else { 1 };
        if mode == "c27" {
            err_w = noise * *rng.pick(&[1u64, 4]);
            disc_w = noise;
        }
        // C29 flavours: 0 wild, 1 tame, 2 productive (tame and little noise, so that long legal flows complete)
        let tame = mode == "c27" || (mode == "c29" && run % 3 != 0);
        let productive = mode == "c29" && run % 3 == 2;
        let mut sent_w = sent_w;
        if productive {
            err_w = 1;
            disc_w = 1;
            sent_w = 12;
        }
        let mut n = 0;
        while n < events {
            let tracked = d.tracked();
            let mut c: Vec<(u64, Step)> = vec![];
            let inc_w = if tracked.len() < 3 { 16 } else if mode == "c27" && (tracked.len() as u64) < npeers * 2 / 3 { 8 } else { 3 };
            c.push((inc_w, Step::new("include", rng.range(1, npeers))));
            c.push((if mode == "c27" || productive { 10 } else { 24 }, Step::new("hk", 0)));
            c.push((2, Step::new("idle", 0)));
            if !tracked.is_empty() {
                let t = *rng.pick(&tracked);
                let bw = if mode == "c27" { noise } else { 1 };
                c.push((bw, Step::new("ban", t)));
                c.push((bw, Step::new("demote", t)));
                c.push((if mode == "c28" { 10 } else { 6 }, Step::new("contsync", *rng.pick(&tracked))));
                c.push((disc_w, Step::new("disconnected", *rng.pick(&tracked))));
                c.push((err_w, Step::new("error", *rng.pick(&tracked))));
                if d.cfg.leios {
                    c.push((1, Step::new("fetcheb", *rng.pick(&tracked))));
                    c.push((1, Step::new("fetchebtxs", *rng.pick(&tracked))));
                }
            }
            if mode == "c27" {
                // bans / includes of peers the behaviour may not know
                c.push((noise.min(1), Step::new("ban", rng.range(1, npeers))));
            }
            if !d.sync_started {
                c.push((4, Step::new("startsync", 0)));
            }
            c.push((3, Step::new("reqblocks", 0)));
            for (p, k) in d.outst.iter() {
                if *k > 0 {
                    c.push((20, Step::new("connected", *p)));
                }
            }
            for p in d.live.iter() {
                if let Some(v) = d.pending.get(p) {
                    if !v.is_empty() {
                        let m = msgs::describe(&v[rng.below(v.len() as u64) as usize]);
                        c.push((sent_w * 3, Step::msg("sent", *p, m)));
                    }
                }
                if let Some(v) = d.views.get(p) {
                    let mut opts = v.options('s');
                    if mode == "c27" || productive {
                        // replies only to confirmed requests, handshakes mostly accepted: keeps the runs productive
                        let pend: Vec<String> =
                            d.pending.get(p).map(|v| v.iter().map(|m| msgs::describe(m).proto).collect()).unwrap_or_default();
                        opts.retain(|o| !pend.contains(&o.proto));
                        if opts.iter().any(|o| o.kind == "Accept") && rng.chance(4, 5) {
                            opts.retain(|o| o.kind == "Accept");
                        }
                    }
                    if !opts.is_empty() {
                        let mut m = rng.pick(&opts).clone();
                        fill_payload(&mut rng, &mut m, &versions, npeers, mode != "c28" && !snap);
                        c.push((16, Step::msg("recv", *p, m)));
                    }
                }
            }
            if mode != "c28" {
                // events no real connection would produce
                // tame runs stay peer-drivable: arbitrary (also protocol-violating) messages only on live connections
                let livev: Vec<u64> = d.live.iter().copied().collect();
                let anyp = if tame && !livev.is_empty() { *rng.pick(&livev) } else { rng.range(1, npeers) };
                let skip_msgs = tame && livev.is_empty();
                let w = if skip_msgs { 0 } else if productive { 1 } else if mode == "c29" { 6 } else { noise };
                let mut m1 = msgs::random_desc(&mut rng, npeers);
                let mut m2 = msgs::random_desc(&mut rng, npeers);
                while tame && (m1.proto == "handshake" || m2.proto == "handshake") {
                    m1 = msgs::random_desc(&mut rng, npeers);
                    m2 = msgs::random_desc(&mut rng, npeers);
                }
                c.push((w, Step::msg("recv", anyp, m1)));
                c.push((if skip_msgs { 0 } else if productive { 1 } else if mode == "c29" { 3 } else { noise.min(1) }, Step::msg("sent", anyp, m2)));
                if !tame {
                    c.push((if mode == "c29" { 2 } else { 1 }, Step::new("connected", anyp)));
                }
                if mode == "c29" {
                    c.push((1, Step::new("sendtx", anyp)));
                    c.push((1, Step::new("disconnected", anyp)));
                    c.push((1, Step::new("error", anyp)));
                }
            }
            let s = weighted(&mut rng, &c).clone();
            let o = d.step(&s, &mut log);
            *stats.entry(format!("{}:{:?}", s.a, o)).or_insert(0) += 1;
            n += 1;
            if o == Outcome::Panicked {
                break;
            }
        }
    }
    let lines = log.finish();
    println!("{}", json!({"events": lines, "stats": stats}));
}
