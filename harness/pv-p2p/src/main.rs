//! Conformance drivers for the P2P stack (pallas-network2): C27, C28, C29.
//!   init-run     --in schedules.ndjson --out trace.ndjson --res results.ndjson
//!   init-random  --mode c27|c28|c29 --seed N --runs R --events E --peers P [--snap 1] --out trace.ndjson
//!   resp-random  --seed N --runs R --events E --peers P --out trace.ndjson
//!   resp-run     --in schedules.ndjson --out trace.ndjson
mod initiator;
mod msgs;
mod responder;

fn main() {
    let args = pv_core::Args::parse();
    match args.cmd.as_str() {
        "init-run" => initiator::run_schedules(&args),
        "init-random" => initiator::random_runs(&args),
        "resp-random" => responder::random_runs(&args),
        "resp-run" => responder::run_schedules(&args),
        other => pv_core::die(&format!("unknown sub-command {other}")),
    }
}
