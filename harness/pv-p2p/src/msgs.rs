//! Message construction / classification shared by the initiator and responder drivers.
//!
//! A message is described in traces and schedules by
//! `{"proto":..,"kind":..,"ver":..,"ps":..,"peers":[..]}` (the fields of P2PProto.tla's `Msg`).

use pallas_network2::behavior::AnyMessage;
use pallas_network2::protocol as proto;
use pallas_network2::PeerId;
use pv_core::serde_json::Value;
use pv_core::{json, Rng};
use std::collections::HashMap;
use std::net::Ipv4Addr;

pub const PROTOS: [&str; 8] = [
    "handshake",
    "keepalive",
    "peersharing",
    "blockfetch",
    "chainsync",
    "txsubmission",
    "leiosnotify",
    "leiosfetch",
];

pub fn kinds(proto: &str) -> &'static [&'static str] {
    match proto {
        "handshake" => &["Propose", "Accept", "Refuse", "QueryReply"],
        "keepalive" => &["KeepAlive", "ResponseKeepAlive", "Done"],
        "peersharing" => &["ShareRequest", "SharePeers", "Done"],
        "blockfetch" => &["RequestRange", "ClientDone", "StartBatch", "NoBlocks", "Block", "BatchDone"],
        "chainsync" => &[
            "RequestNext",
            "AwaitReply",
            "RollForward",
            "RollBackward",
            "FindIntersect",
            "IntersectFound",
            "IntersectNotFound",
            "Done",
        ],
        "txsubmission" => &[
            "Init",
            "RequestTxIdsBlocking",
            "RequestTxIdsNonBlocking",
            "ReplyTxIds",
            "RequestTxs",
            "ReplyTxs",
            "Done",
        ],
        "leiosnotify" => &["RequestNext", "BlockAnnouncement", "BlockOffer", "BlockTxsOffer", "Votes", "Done"],
        "leiosfetch" => &["BlockRequest", "Block", "BlockTxsRequest", "BlockTxs", "Done"],
        _ => &[],
    }
}

/// Peer number n <-> PeerId 10.0.(n/250).(n%250):3000
pub fn pid(n: u64) -> PeerId {
    PeerId {
        host: Ipv4Addr::new(10, 0, (n / 250) as u8, (n % 250) as u8).to_string(),
        port: 3000,
    }
}

pub fn pnum(p: &PeerId) -> u64 {
    let parts: Vec<u64> = p.host.split('.').filter_map(|x| x.parse().ok()).collect();
    if parts.len() == 4 && parts[0] == 10 && parts[1] == 0 && p.port == 3000 {
        parts[2] * 250 + parts[3]
    } else {
        9999
    }
}

#[derive(Clone, Debug, PartialEq, Eq)]
pub struct MsgDesc {
    pub proto: String,
    pub kind: String,
    pub ver: u64,
    pub ps: u64,
    pub peers: Vec<u64>,
}

impl MsgDesc {
    pub fn new(proto: &str, kind: &str) -> Self {
        MsgDesc {
            proto: proto.into(),
            kind: kind.into(),
            ver: 0,
            ps: 0,
            peers: vec![],
        }
    }
    pub fn none() -> Self {
        Self::new("-", "-")
    }
    pub fn accept(ver: u64, ps: u64) -> Self {
        MsgDesc {
            ver,
            ps,
            ..Self::new("handshake", "Accept")
        }
    }
    pub fn share_peers(peers: Vec<u64>) -> Self {
        MsgDesc {
            peers,
            ..Self::new("peersharing", "SharePeers")
        }
    }
    pub fn json(&self) -> Value {
        json!({"proto": self.proto, "kind": self.kind, "ver": self.ver, "ps": self.ps, "peers": self.peers})
    }
    pub fn from_json(v: &Value) -> Self {
        MsgDesc {
            proto: v["proto"].as_str().unwrap_or("-").to_string(),
            kind: v["kind"].as_str().unwrap_or("-").to_string(),
            ver: v["ver"].as_u64().unwrap_or(0),
            ps: v["ps"].as_u64().unwrap_or(0),
            peers: v["peers"]
                .as_array()
                .map(|a| a.iter().filter_map(|x| x.as_u64()).collect())
                .unwrap_or_default(),
        }
    }
    pub fn same_kind(&self, other: &MsgDesc) -> bool {
        self.proto == other.proto && self.kind == other.kind
    }
}

fn version_data(ps: u64) -> proto::handshake::n2n::VersionData {
    proto::handshake::n2n::VersionData::new(proto::MAINNET_MAGIC, false, Some(ps as u8), Some(false))
}

pub fn version_table(versions: &[u64]) -> proto::handshake::n2n::VersionTable {
    let values: HashMap<u64, proto::handshake::n2n::VersionData> =
        versions.iter().map(|v| (*v, version_data(1))).collect();
    proto::handshake::VersionTable { values }
}

fn point(n: u64) -> proto::Point {
    proto::Point::new(n, vec![n as u8; 32])
}

fn tip() -> proto::chainsync::Tip {
    proto::chainsync::Tip(point(9), 9)
}

/// Build a real message of the described kind (canned payloads).
pub fn build(d: &MsgDesc, versions: &[u64]) -> Option<AnyMessage> {
    use proto::*;
    let any = |b: &[u8]| AnyCbor::from_raw_bytes(b.to_vec());
    Some(match (d.proto.as_str(), d.kind.as_str()) {
        ("handshake", "Propose") => AnyMessage::Handshake(handshake::Message::Propose(version_table(versions))),
        ("handshake", "Accept") => AnyMessage::Handshake(handshake::Message::Accept(d.ver, version_data(d.ps))),
        ("handshake", "Refuse") => AnyMessage::Handshake(handshake::Message::Refuse(
            handshake::RefuseReason::VersionMismatch(vec![7]),
        )),
        ("handshake", "QueryReply") => AnyMessage::Handshake(handshake::Message::QueryReply(version_table(versions))),
        ("keepalive", "KeepAlive") => AnyMessage::KeepAlive(keepalive::Message::KeepAlive(7)),
        ("keepalive", "ResponseKeepAlive") => AnyMessage::KeepAlive(keepalive::Message::ResponseKeepAlive(7)),
        ("keepalive", "Done") => AnyMessage::KeepAlive(keepalive::Message::Done),
        ("peersharing", "ShareRequest") => AnyMessage::PeerSharing(peersharing::Message::ShareRequest(5)),
        ("peersharing", "SharePeers") => AnyMessage::PeerSharing(peersharing::Message::SharePeers(
            d.peers
                .iter()
                .map(|n| peersharing::PeerAddress::V4(Ipv4Addr::new(10, 0, (*n / 250) as u8, (*n % 250) as u8), 3000))
                .collect(),
        )),
        ("peersharing", "Done") => AnyMessage::PeerSharing(peersharing::Message::Done),
        ("blockfetch", "RequestRange") => AnyMessage::BlockFetch(blockfetch::Message::RequestRange((point(1), point(2)))),
        ("blockfetch", "ClientDone") => AnyMessage::BlockFetch(blockfetch::Message::ClientDone),
        ("blockfetch", "StartBatch") => AnyMessage::BlockFetch(blockfetch::Message::StartBatch),
        ("blockfetch", "NoBlocks") => AnyMessage::BlockFetch(blockfetch::Message::NoBlocks),
        ("blockfetch", "Block") => AnyMessage::BlockFetch(blockfetch::Message::Block(vec![0x82, 1, 2])),
        ("blockfetch", "BatchDone") => AnyMessage::BlockFetch(blockfetch::Message::BatchDone),
        ("chainsync", "RequestNext") => AnyMessage::ChainSync(chainsync::Message::RequestNext),
        ("chainsync", "AwaitReply") => AnyMessage::ChainSync(chainsync::Message::AwaitReply),
        ("chainsync", "RollForward") => AnyMessage::ChainSync(chainsync::Message::RollForward(
            chainsync::HeaderContent {
                variant: 1,
                byron_prefix: None,
                cbor: vec![0x80],
            },
            tip(),
        )),
        ("chainsync", "RollBackward") => AnyMessage::ChainSync(chainsync::Message::RollBackward(point(1), tip())),
        ("chainsync", "FindIntersect") => AnyMessage::ChainSync(chainsync::Message::FindIntersect(vec![Point::Origin])),
        ("chainsync", "IntersectFound") => AnyMessage::ChainSync(chainsync::Message::IntersectFound(Point::Origin, tip())),
        ("chainsync", "IntersectNotFound") => AnyMessage::ChainSync(chainsync::Message::IntersectNotFound(tip())),
        ("chainsync", "Done") => AnyMessage::ChainSync(chainsync::Message::Done),
        ("txsubmission", "Init") => AnyMessage::TxSubmission(txsubmission::Message::Init),
        ("txsubmission", "RequestTxIdsBlocking") => AnyMessage::TxSubmission(txsubmission::Message::RequestTxIds(true, 0, 3)),
        ("txsubmission", "RequestTxIdsNonBlocking") => {
            AnyMessage::TxSubmission(txsubmission::Message::RequestTxIds(false, 0, 3))
        }
        ("txsubmission", "ReplyTxIds") => AnyMessage::TxSubmission(txsubmission::Message::ReplyTxIds(vec![
            txsubmission::TxIdAndSize(txsubmission::EraTxId(6, vec![1; 32]), 10),
        ])),
        ("txsubmission", "RequestTxs") => {
            AnyMessage::TxSubmission(txsubmission::Message::RequestTxs(vec![txsubmission::EraTxId(6, vec![1; 32])]))
        }
        ("txsubmission", "ReplyTxs") => {
            AnyMessage::TxSubmission(txsubmission::Message::ReplyTxs(vec![txsubmission::EraTxBody(6, vec![0x80])]))
        }
        ("txsubmission", "Done") => AnyMessage::TxSubmission(txsubmission::Message::Done),
        ("leiosnotify", "RequestNext") => AnyMessage::LeiosNotify(leiosnotify::Message::RequestNext),
        ("leiosnotify", "BlockAnnouncement") => AnyMessage::LeiosNotify(leiosnotify::Message::BlockAnnouncement(any(&[0x80]))),
        ("leiosnotify", "BlockOffer") => AnyMessage::LeiosNotify(leiosnotify::Message::BlockOffer(point(3), 10)),
        ("leiosnotify", "BlockTxsOffer") => AnyMessage::LeiosNotify(leiosnotify::Message::BlockTxsOffer(point(3))),
        ("leiosnotify", "Votes") => AnyMessage::LeiosNotify(leiosnotify::Message::Votes(vec![any(&[0x01])])),
        ("leiosnotify", "Done") => AnyMessage::LeiosNotify(leiosnotify::Message::Done),
        ("leiosfetch", "BlockRequest") => AnyMessage::LeiosFetch(leiosfetch::Message::BlockRequest(point(3))),
        ("leiosfetch", "Block") => AnyMessage::LeiosFetch(leiosfetch::Message::Block(any(&[0xa0]))),
        ("leiosfetch", "BlockTxsRequest") => {
            AnyMessage::LeiosFetch(leiosfetch::Message::BlockTxsRequest(point(3), leiosfetch::Bitmaps::all(2)))
        }
        ("leiosfetch", "BlockTxs") => AnyMessage::LeiosFetch(leiosfetch::Message::BlockTxs {
            point: point(3),
            bitmaps: leiosfetch::Bitmaps::all(2),
            txs: vec![any(&[0x80])],
        }),
        ("leiosfetch", "Done") => AnyMessage::LeiosFetch(leiosfetch::Message::Done),
        _ => return None,
    })
}

/// Describe a real message (what the behaviour emitted).
pub fn describe(m: &AnyMessage) -> MsgDesc {
    use proto::*;
    match m {
        AnyMessage::Handshake(x) => match x {
            handshake::Message::Propose(_) => MsgDesc::new("handshake", "Propose"),
            handshake::Message::Accept(v, d) => MsgDesc::accept(*v, d.peer_sharing.unwrap_or(0) as u64),
            handshake::Message::Refuse(_) => MsgDesc::new("handshake", "Refuse"),
            handshake::Message::QueryReply(_) => MsgDesc::new("handshake", "QueryReply"),
        },
        AnyMessage::KeepAlive(x) => MsgDesc::new(
            "keepalive",
            match x {
                keepalive::Message::KeepAlive(_) => "KeepAlive",
                keepalive::Message::ResponseKeepAlive(_) => "ResponseKeepAlive",
                keepalive::Message::Done => "Done",
            },
        ),
        AnyMessage::PeerSharing(x) => match x {
            peersharing::Message::ShareRequest(_) => MsgDesc::new("peersharing", "ShareRequest"),
            peersharing::Message::SharePeers(a) => {
                MsgDesc::share_peers(a.iter().map(|x| pnum(&PeerId::from(x.clone()))).collect())
            }
            peersharing::Message::Done => MsgDesc::new("peersharing", "Done"),
        },
        AnyMessage::BlockFetch(x) => MsgDesc::new(
            "blockfetch",
            match x {
                blockfetch::Message::RequestRange(_) => "RequestRange",
                blockfetch::Message::ClientDone => "ClientDone",
                blockfetch::Message::StartBatch => "StartBatch",
                blockfetch::Message::NoBlocks => "NoBlocks",
                blockfetch::Message::Block(_) => "Block",
                blockfetch::Message::BatchDone => "BatchDone",
            },
        ),
        AnyMessage::ChainSync(x) => MsgDesc::new(
            "chainsync",
            match x {
                chainsync::Message::RequestNext => "RequestNext",
                chainsync::Message::AwaitReply => "AwaitReply",
                chainsync::Message::RollForward(..) => "RollForward",
                chainsync::Message::RollBackward(..) => "RollBackward",
                chainsync::Message::FindIntersect(_) => "FindIntersect",
                chainsync::Message::IntersectFound(..) => "IntersectFound",
                chainsync::Message::IntersectNotFound(_) => "IntersectNotFound",
                chainsync::Message::Done => "Done",
            },
        ),
        AnyMessage::TxSubmission(x) => MsgDesc::new(
            "txsubmission",
            match x {
                txsubmission::Message::Init => "Init",
                txsubmission::Message::RequestTxIds(true, ..) => "RequestTxIdsBlocking",
                txsubmission::Message::RequestTxIds(false, ..) => "RequestTxIdsNonBlocking",
                txsubmission::Message::ReplyTxIds(_) => "ReplyTxIds",
                txsubmission::Message::RequestTxs(_) => "RequestTxs",
                txsubmission::Message::ReplyTxs(_) => "ReplyTxs",
                txsubmission::Message::Done => "Done",
            },
        ),
        AnyMessage::LeiosNotify(x) => MsgDesc::new(
            "leiosnotify",
            match x {
                leiosnotify::Message::RequestNext => "RequestNext",
                leiosnotify::Message::BlockAnnouncement(_) => "BlockAnnouncement",
                leiosnotify::Message::BlockOffer(..) => "BlockOffer",
                leiosnotify::Message::BlockTxsOffer(_) => "BlockTxsOffer",
                leiosnotify::Message::Votes(_) => "Votes",
                leiosnotify::Message::Done => "Done",
            },
        ),
        AnyMessage::LeiosFetch(x) => MsgDesc::new(
            "leiosfetch",
            match x {
                leiosfetch::Message::BlockRequest(_) => "BlockRequest",
                leiosfetch::Message::Block(_) => "Block",
                leiosfetch::Message::BlockTxsRequest(..) => "BlockTxsRequest",
                leiosfetch::Message::BlockTxs { .. } => "BlockTxs",
                leiosfetch::Message::Done => "Done",
            },
        ),
    }
}

/// A uniformly random message description (any protocol, any kind) for the arbitrary-input drivers.
pub fn random_desc(rng: &mut Rng, npeers: u64) -> MsgDesc {
    let proto = *rng.pick(&PROTOS);
    let kind = *rng.pick(kinds(proto));
    let mut d = MsgDesc::new(proto, kind);
    if proto == "handshake" && kind == "Accept" {
        d.ver = *rng.pick(&[13u64, 15, 7, 16]);
        d.ps = rng.below(2);
    }
    if proto == "peersharing" && kind == "SharePeers" {
        let n = rng.below(3);
        let mut v: Vec<u64> = (0..n).map(|_| rng.range(1, npeers + 3)).collect();
        v.sort();
        v.dedup();
        d.peers = v;
    }
    d
}

// ---------------------------------------------------------------------------
// Conformant-responder view, used ONLY to generate plausible / consistent inbound
// messages in the random drivers.  The verdict never depends on it: TLC re-checks
// the environment's consistency (ProtocolMonitor.EnvOK) on the recorded trace.

pub fn spec_init(proto: &str) -> &'static str {
    match proto {
        "handshake" => "Propose",
        "keepalive" => "Client",
        "txsubmission" => "Init",
        _ => "Idle",
    }
}

/// (next state, sender) for the spec transition, sender 'c' (client) or 's' (server)
pub fn spec_next(proto: &str, st: &str, kind: &str) -> Option<(&'static str, char)> {
    Some(match (proto, st, kind) {
        ("handshake", "Propose", "Propose") => ("Confirm", 'c'),
        ("handshake", "Confirm", "Accept" | "Refuse" | "QueryReply") => ("Done", 's'),
        ("keepalive", "Client", "KeepAlive") => ("Server", 'c'),
        ("keepalive", "Server", "ResponseKeepAlive") => ("Client", 's'),
        ("keepalive", "Client", "Done") => ("Done", 'c'),
        ("peersharing", "Idle", "ShareRequest") => ("Busy", 'c'),
        ("peersharing", "Busy", "SharePeers") => ("Idle", 's'),
        ("peersharing", "Idle", "Done") => ("Done", 'c'),
        ("blockfetch", "Idle", "RequestRange") => ("Busy", 'c'),
        ("blockfetch", "Idle", "ClientDone") => ("Done", 'c'),
        ("blockfetch", "Busy", "StartBatch") => ("Streaming", 's'),
        ("blockfetch", "Busy", "NoBlocks") => ("Idle", 's'),
        ("blockfetch", "Streaming", "Block") => ("Streaming", 's'),
        ("blockfetch", "Streaming", "BatchDone") => ("Idle", 's'),
        ("chainsync", "Idle", "RequestNext") => ("CanAwait", 'c'),
        ("chainsync", "Idle", "FindIntersect") => ("Intersect", 'c'),
        ("chainsync", "Idle", "Done") => ("Done", 'c'),
        ("chainsync", "CanAwait", "AwaitReply") => ("MustReply", 's'),
        ("chainsync", "CanAwait" | "MustReply", "RollForward" | "RollBackward") => ("Idle", 's'),
        ("chainsync", "Intersect", "IntersectFound" | "IntersectNotFound") => ("Idle", 's'),
        ("txsubmission", "Init", "Init") => ("Idle", 'c'),
        ("txsubmission", "Idle", "RequestTxIdsBlocking") => ("TxIdsBlocking", 's'),
        ("txsubmission", "Idle", "RequestTxIdsNonBlocking") => ("TxIdsNonBlocking", 's'),
        ("txsubmission", "Idle", "RequestTxs") => ("Txs", 's'),
        ("txsubmission", "TxIdsBlocking" | "TxIdsNonBlocking", "ReplyTxIds") => ("Idle", 'c'),
        ("txsubmission", "TxIdsBlocking", "Done") => ("Done", 'c'),
        ("txsubmission", "Txs", "ReplyTxs") => ("Idle", 'c'),
        ("leiosnotify", "Idle", "RequestNext") => ("Busy", 'c'),
        ("leiosnotify", "Busy", "BlockAnnouncement" | "BlockOffer" | "BlockTxsOffer" | "Votes") => ("Idle", 's'),
        ("leiosnotify", "Idle", "Done") => ("Done", 'c'),
        ("leiosfetch", "Idle", "BlockRequest") => ("AwaitingBlock", 'c'),
        ("leiosfetch", "AwaitingBlock", "Block") => ("Idle", 's'),
        ("leiosfetch", "Idle", "BlockTxsRequest") => ("AwaitingBlockTxs", 'c'),
        ("leiosfetch", "AwaitingBlockTxs", "BlockTxs") => ("Idle", 's'),
        ("leiosfetch", "Idle", "Done") => ("Done", 'c'),
        _ => return None,
    })
}

/// Per-connection view of a conformant remote side (all protocols).
#[derive(Clone, Debug)]
pub struct View {
    pub st: HashMap<&'static str, &'static str>,
    /// protocols on which a message outside the specification was seen (nothing is offered there any more)
    pub broken: Vec<&'static str>,
}

impl View {
    pub fn new() -> Self {
        View {
            st: PROTOS.iter().map(|p| (*p, spec_init(p))).collect(),
            broken: vec![],
        }
    }
    /// advance by a message sent by `side`; false if not allowed (view then unchanged)
    pub fn advance(&mut self, d: &MsgDesc, side: char) -> bool {
        let Some(p) = PROTOS.iter().find(|p| **p == d.proto) else {
            return false;
        };
        if self.broken.contains(p) {
            return false;
        }
        match spec_next(p, self.st[p], &d.kind) {
            Some((nx, s)) if s == side => {
                self.st.insert(p, nx);
                true
            }
            _ => {
                self.broken.push(p);
                false
            }
        }
    }
    /// messages `side` may send now
    pub fn options(&self, side: char) -> Vec<MsgDesc> {
        let mut v = vec![];
        for p in PROTOS.iter().filter(|p| !self.broken.contains(p)) {
            for k in kinds(p) {
                if let Some((_, s)) = spec_next(p, self.st[p], k) {
                    if s == side {
                        v.push(MsgDesc::new(p, k));
                    }
                }
            }
        }
        v
    }
}
