//! Driver for the real `ResponderBehavior` (C29): arbitrary interface events and commands
//! under `pv_core::catch`; one ndjson event per step with outputs and per-peer snapshots.

use crate::msgs::{self, MsgDesc, View};
use futures::StreamExt;
use pallas_network2::behavior::responder::connection::{ConnectionResponder, ConnectionResponderConfig};
use pallas_network2::behavior::responder::{ResponderBehavior, ResponderCommand, ResponderEvent};
use pallas_network2::behavior::AnyMessage;
use pallas_network2::protocol as proto;
use pallas_network2::{Behavior, BehaviorOutput, InterfaceCommand, InterfaceError, InterfaceEvent, PeerId};
use pv_core::{json, Ndjson, Rng};
use std::collections::BTreeMap;

/// several peers share an IP so that the per-IP connection limit is exercised
fn rpid(n: u64) -> PeerId {
    PeerId {
        host: format!("10.0.0.{}", n % 3),
        port: 3000 + n as u16,
    }
}
fn rnum(p: &PeerId) -> u64 {
    (p.port as u64).saturating_sub(3000)
}

fn drain(beh: &mut ResponderBehavior) -> Vec<BehaviorOutput<ResponderBehavior>> {
    let waker = futures::task::noop_waker();
    let mut cx = std::task::Context::from_waker(&waker);
    let mut v = Vec::new();
    while let std::task::Poll::Ready(Some(o)) = beh.poll_next_unpin(&mut cx) {
        v.push(o);
    }
    v
}

fn event_kind(e: &ResponderEvent) -> (&'static str, u64) {
    match e {
        ResponderEvent::PeerInitialized(p, _) => ("PeerInitialized", rnum(p)),
        ResponderEvent::PeerDisconnected(p) => ("PeerDisconnected", rnum(p)),
        ResponderEvent::IntersectionRequested(p, _) => ("IntersectionRequested", rnum(p)),
        ResponderEvent::NextHeaderRequested(p) => ("NextHeaderRequested", rnum(p)),
        ResponderEvent::BlockRangeRequested(p, _) => ("BlockRangeRequested", rnum(p)),
        ResponderEvent::PeersRequested(p, _) => ("PeersRequested", rnum(p)),
        ResponderEvent::TxReceived(p, _) => ("TxReceived", rnum(p)),
        ResponderEvent::EbNotificationRequested(p) => ("EbNotificationRequested", rnum(p)),
        ResponderEvent::EbRequested(p, _) => ("EbRequested", rnum(p)),
        ResponderEvent::EbTxsRequested(p, ..) => ("EbTxsRequested", rnum(p)),
    }
}

const CMDS: [&str; 15] = [
    "hk",
    "provide-intersection",
    "provide-header",
    "provide-rollback",
    "provide-blocks",
    "provide-peers",
    "provide-eb-announcement",
    "provide-eb-offer",
    "provide-eb-txs-offer",
    "provide-votes",
    "provide-eb",
    "provide-eb-txs",
    "ban",
    "disconnect-peer",
    "idle",
];

pub struct RDriver {
    pub beh: ResponderBehavior,
    pub pending: BTreeMap<u64, Vec<AnyMessage>>,
    pub views: BTreeMap<u64, View>,
}

impl RDriver {
    pub fn new() -> RDriver {
        // max_error_count 1 / max_connections_per_ip 2 are the constants of TraceResponder.cfg
        RDriver {
            beh: ResponderBehavior {
                connection: ConnectionResponder::new(ConnectionResponderConfig {
                    max_error_count: 1,
                    max_connections_per_ip: 2,
                }),
                ..Default::default()
            },
            pending: BTreeMap::new(),
            views: BTreeMap::new(),
        }
    }

    pub fn known(&self) -> Vec<u64> {
        let mut v: Vec<u64> = self.beh.peers.keys().map(rnum).collect();
        v.sort();
        v
    }

    /// one step on the real behaviour; false if it panicked
    pub fn step(&mut self, a: &str, p: u64, m: &MsgDesc, log: &mut Ndjson) -> bool {
        let versions: Vec<u64> = if m.peers.is_empty() || m.proto != "handshake" { vec![13, 15] } else { m.peers.clone() };
        let pid = rpid(p);
        let msg: Option<AnyMessage> = match a {
            "sent" => self
                .pending
                .get_mut(&p)
                .and_then(|v| v.iter().position(|x| msgs::describe(x).same_kind(m)).map(|i| v.remove(i)))
                .or_else(|| msgs::build(m, &versions)),
            "recv" => msgs::build(m, &versions),
            _ => None,
        };
        if (a == "sent" || a == "recv") && msg.is_none() {
            log.ev(json!({"ev": "skip", "a": a, "p": p, "m": m.json()}));
            return true;
        }
        let a2 = a.to_string();
        let b = &mut self.beh;
        let pt = proto::Point::new(3, vec![3; 32]);
        let tip = proto::chainsync::Tip(proto::Point::new(9, vec![9; 32]), 9);
        let any = proto::AnyCbor::from_raw_bytes(vec![0x80]);
        let res = pv_core::catch(move || {
            match a2.as_str() {
                "connected" => b.handle_io(InterfaceEvent::Connected(pid)),
                "disconnected" => b.handle_io(InterfaceEvent::Disconnected(pid)),
                "error" => b.handle_io(InterfaceEvent::Error(pid, InterfaceError::Other("io".into()))),
                "recv" => b.handle_io(InterfaceEvent::Recv(pid, vec![msg.unwrap()])),
                "sent" => b.handle_io(InterfaceEvent::Sent(pid, msg.unwrap())),
                "idle" => b.handle_io(InterfaceEvent::Idle),
                "hk" => b.execute(ResponderCommand::Housekeeping),
                "provide-intersection" => b.execute(ResponderCommand::ProvideIntersection(pid, pt, tip)),
                "provide-header" => b.execute(ResponderCommand::ProvideHeader(
                    pid,
                    proto::chainsync::HeaderContent {
                        variant: 1,
                        byron_prefix: None,
                        cbor: vec![0x80],
                    },
                    tip,
                )),
                "provide-rollback" => b.execute(ResponderCommand::ProvideRollback(pid, pt, tip)),
                "provide-blocks" => b.execute(ResponderCommand::ProvideBlocks(pid, vec![vec![0x80], vec![0x81, 0]])),
                "provide-peers" => b.execute(ResponderCommand::ProvidePeers(pid, vec![])),
                "provide-eb-announcement" => b.execute(ResponderCommand::ProvideEbAnnouncement(pid, any)),
                "provide-eb-offer" => b.execute(ResponderCommand::ProvideEbOffer(pid, pt, 10)),
                "provide-eb-txs-offer" => b.execute(ResponderCommand::ProvideEbTxsOffer(pid, pt)),
                "provide-votes" => b.execute(ResponderCommand::ProvideVotes(pid, vec![any])),
                "provide-eb" => b.execute(ResponderCommand::ProvideEb(pid, any)),
                "provide-eb-txs" => b.execute(ResponderCommand::ProvideEbTxs(
                    pid,
                    pt,
                    proto::leiosfetch::Bitmaps::all(2),
                    vec![any],
                )),
                "ban" => b.execute(ResponderCommand::BanPeer(pid)),
                "disconnect-peer" => b.execute(ResponderCommand::DisconnectPeer(pid)),
                other => pv_core::die(&format!("unknown responder step {other}")),
            }
            drain(b)
        });
        let outs = match res {
            Ok(o) => o,
            Err(msg) => {
                log.ev(json!({"ev": "panic", "a": a, "p": p, "m": m.json(), "msg": msg, "pre_conn": "-", "pre_hs": "-"}));
                return false;
            }
        };
        match a {
            "connected" => {
                self.views.insert(p, View::new());
                self.pending.insert(p, vec![]);
            }
            "disconnected" => {
                self.views.remove(&p);
                self.pending.remove(&p);
            }
            "recv" => {
                if let Some(v) = self.views.get_mut(&p) {
                    v.advance(m, 'c');
                }
            }
            _ => {}
        }
        let mut out = vec![];
        for o in outs {
            match o {
                BehaviorOutput::InterfaceCommand(InterfaceCommand::Connect(q)) => {
                    out.push(json!({"t": "connect", "p": rnum(&q), "m": MsgDesc::none().json(), "k": ""}))
                }
                BehaviorOutput::InterfaceCommand(InterfaceCommand::Disconnect(q)) => {
                    out.push(json!({"t": "disconnect", "p": rnum(&q), "m": MsgDesc::none().json(), "k": ""}))
                }
                BehaviorOutput::InterfaceCommand(InterfaceCommand::Send(q, mm)) => {
                    let d = msgs::describe(&mm);
                    let n = rnum(&q);
                    if let Some(v) = self.views.get_mut(&n) {
                        v.advance(&d, 's');
                    }
                    self.pending.entry(n).or_default().push(mm);
                    out.push(json!({"t": "send", "p": n, "m": d.json(), "k": ""}));
                }
                BehaviorOutput::ExternalEvent(e) => {
                    let (k, n) = event_kind(&e);
                    out.push(json!({"t": "event", "p": n, "m": MsgDesc::none().json(), "k": k}));
                }
            }
        }
        let tracked = self.known();
        let peers: Vec<_> = tracked
            .iter()
            .map(|q| {
                let s = self.beh.peers[&rpid(*q)].verif_snapshot();
                json!({"p": q, "conn": s.connection, "viol": s.violation, "errs": s.error_count, "hs": s.handshake,
                       "ver": s.version, "ka": s.keepalive, "ps": s.peersharing, "bf": s.blockfetch,
                       "cs": s.chainsync, "tx": s.txsubmission, "ln": s.leiosnotify, "lf": s.leiosfetch})
            })
            .collect();
        let evname = if a == "idle" { "hk" } else { a };
        log.ev(json!({"ev": evname, "p": p, "m": m.json(), "out": out, "tracked": tracked, "peers": peers}));
        true
    }
}

fn log_reset(log: &mut Ndjson, sid: &str) {
    log.ev(json!({"ev": "reset", "sid": sid, "cfg": {"responder": true, "max_err": 1, "max_per_ip": 2}}));
}

/// `resp-run`: replay TLC schedules of MCResponder ({"id":..,"sched":[{"ev","p","m"}..]} per line).
pub fn run_schedules(args: &pv_core::Args) {
    let rows = pv_core::read_ndjson(args.get("in"));
    let mut log = Ndjson::create(args.get("out"));
    let mut panics = 0;
    for (i, row) in rows.iter().enumerate() {
        log_reset(&mut log, row["id"].as_str().unwrap_or(&format!("r{i}")));
        let mut d = RDriver::new();
        for st in pv_core::jarr(&row["sched"]) {
            let a = st["ev"].as_str().unwrap_or("?");
            let m = if st["m"].is_object() { MsgDesc::from_json(&st["m"]) } else { MsgDesc::none() };
            if !d.step(a, st["p"].as_u64().unwrap_or(0), &m, &mut log) {
                panics += 1;
                break;
            }
        }
    }
    let lines = log.finish();
    println!("{}", json!({"events": lines, "schedules": rows.len(), "panics": panics}));
}

pub fn random_runs(args: &pv_core::Args) {
    let seed = args.seed();
    let runs = args.num("runs", 5);
    let events = args.num("events", 300);
    let npeers = args.num("peers", 6);
    let mut log = Ndjson::create(args.get("out"));
    let mut stats = BTreeMap::<String, u64>::new();
    for run in 0..runs {
        let mut rng = Rng::new(seed.wrapping_mul(999_983).wrapping_add(run * 104_729 + 17));
        log_reset(&mut log, &format!("resp-{seed}-{run}"));
        let mut d = RDriver::new();
        // per-run profile: some runs are error storms, some stay on one (peer, protocol) for bursts of messages
        let err_w = *rng.pick(&[5u64, 5, 25]);
        let burst = *rng.pick(&[0u64, 30, 60]);
        let mut last: Option<(u64, String)> = None;
        for _ in 0..events {
            let p = rng.range(1, npeers);
            let known = d.known();
            let r = rng.below(100 + err_w);
            let (a, p, mut m): (String, u64, MsgDesc) = if let (true, Some((q, pr))) = (rng.below(100) < burst, last.clone()) {
                // another arbitrary message of the same protocol to the same peer
                let k = *rng.pick(msgs::kinds(&pr));
                ("recv".into(), q, MsgDesc::new(&pr, k))
            } else if r < 12 {
                ("connected".into(), p, MsgDesc::none())
            } else if r < 17 {
                ("disconnected".into(), p, MsgDesc::none())
            } else if r < 17 + err_w {
                let q = if !known.is_empty() && rng.chance(2, 3) { *rng.pick(&known) } else { p };
                ("error".into(), q, MsgDesc::none())
            } else if r < 45 + err_w && !known.is_empty() {
                // a message a conformant initiator could send now
                let q = *rng.pick(&known);
                let opts = d.views.get(&q).map(|v| v.options('c')).unwrap_or_default();
                if opts.is_empty() {
                    ("recv".into(), q, msgs::random_desc(&mut rng, npeers))
                } else {
                    ("recv".into(), q, rng.pick(&opts).clone())
                }
            } else if r < 62 + err_w {
                let q = if !known.is_empty() && rng.chance(2, 3) { *rng.pick(&known) } else { p };
                ("recv".into(), q, msgs::random_desc(&mut rng, npeers))
            } else if r < 75 + err_w {
                // confirm something that was emitted, or something that never was
                let cand: Vec<u64> = d.pending.iter().filter(|(_, v)| !v.is_empty()).map(|(k, _)| *k).collect();
                if !cand.is_empty() && rng.chance(3, 4) {
                    let q = *rng.pick(&cand);
                    let v = &d.pending[&q];
                    ("sent".into(), q, msgs::describe(&v[rng.below(v.len() as u64) as usize]))
                } else {
                    ("sent".into(), p, msgs::random_desc(&mut rng, npeers))
                }
            } else {
                let q = if !known.is_empty() && rng.chance(3, 4) { *rng.pick(&known) } else { p };
                ((*rng.pick(&CMDS)).to_string(), q, MsgDesc::none())
            };
            if m.proto == "handshake" && m.kind == "Propose" {
                m.peers = rng.pick(&[vec![13u64, 15], vec![13], vec![15], vec![7, 15]]).clone();
            }
            if m.proto == "handshake" && m.kind == "Accept" && m.ver == 0 {
                m.ver = 13;
            }
            if a == "recv" {
                last = Some((p, m.proto.clone()));
            }
            *stats.entry(a.clone()).or_insert(0) += 1;
            if !d.step(&a, p, &m, &mut log) {
                *stats.entry("panic".into()).or_insert(0) += 1;
                break;
            }
        }
    }
    let lines = log.finish();
    println!("{}", json!({"events": lines, "stats": stats}));
}
