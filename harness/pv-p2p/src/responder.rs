//! Driver for the real `ResponderBehavior` (C29): arbitrary interface events and commands
//! under `pv_core::catch`; one ndjson event per step with outputs and per-peer snapshots.

use crate::msgs::{self, MsgDesc, View};
use futures::StreamExt;
use pallas_network2::behavior::responder::{ResponderBehavior, ResponderCommand, ResponderEvent};
use pallas_network2::behavior::AnyMessage;
use pallas_network2::protocol as proto;
use pallas_network2::{Behavior, BehaviorOutput, InterfaceCommand, InterfaceError, InterfaceEvent, PeerId};
use pv_core::{json, Ndjson, Rng};
use std::collections::BTreeMap;

/// several peers share an IP so that the per-IP connection limit is exercised
fn rpid(n: u64) -> PeerId {
    PeerId {
        host: format!("10.0.0.{}", n % 3),
        port: 3000 + n as u16,
    }
}
fn rnum(p: &PeerId) -> u64 {
    (p.port as u64).saturating_sub(3000)
}

fn drain(beh: &mut ResponderBehavior) -> Vec<BehaviorOutput<ResponderBehavior>> {
    let waker = futures::task::noop_waker();
    let mut cx = std::task::Context::from_waker(&waker);
    let mut v = Vec::new();
    while let std::task::Poll::Ready(Some(o)) = beh.poll_next_unpin(&mut cx) {
        v.push(o);
    }
    v
}

fn event_kind(e: &ResponderEvent) -> (&'static str, u64) {
    match e {
        ResponderEvent::PeerInitialized(p, _) => ("PeerInitialized", rnum(p)),
        ResponderEvent::PeerDisconnected(p) => ("PeerDisconnected", rnum(p)),
        ResponderEvent::IntersectionRequested(p, _) => ("IntersectionRequested", rnum(p)),
        ResponderEvent::NextHeaderRequested(p) => ("NextHeaderRequested", rnum(p)),
        ResponderEvent::BlockRangeRequested(p, _) => ("BlockRangeRequested", rnum(p)),
        ResponderEvent::PeersRequested(p, _) => ("PeersRequested", rnum(p)),
        ResponderEvent::TxReceived(p, _) => ("TxReceived", rnum(p)),
        ResponderEvent::EbNotificationRequested(p) => ("EbNotificationRequested", rnum(p)),
        ResponderEvent::EbRequested(p, _) => ("EbRequested", rnum(p)),
        ResponderEvent::EbTxsRequested(p, ..) => ("EbTxsRequested", rnum(p)),
    }
}

const CMDS: [&str; 15] = [
    "hk",
    "provide-intersection",
    "provide-header",
    "provide-rollback",
    "provide-blocks",
    "provide-peers",
    "provide-eb-announcement",
    "provide-eb-offer",
    "provide-eb-txs-offer",
    "provide-votes",
    "provide-eb",
    "provide-eb-txs",
    "ban",
    "disconnect-peer",
    "idle",
];

pub fn random_runs(args: &pv_core::Args) {
    let seed = args.seed();
    let runs = args.num("runs", 5);
    let events = args.num("events", 300);
    let npeers = args.num("peers", 6);
    let mut log = Ndjson::create(args.get("out"));
    let mut stats = BTreeMap::<String, u64>::new();
    let versions = [13u64, 15];
    for run in 0..runs {
        let mut rng = Rng::new(seed.wrapping_mul(999_983).wrapping_add(run * 104_729 + 17));
        log.ev(json!({"ev": "reset", "sid": format!("resp-{seed}-{run}"), "cfg": {"responder": true}}));
        let mut beh = ResponderBehavior::default();
        let mut pending: BTreeMap<u64, Vec<AnyMessage>> = BTreeMap::new();
        let mut views: BTreeMap<u64, View> = BTreeMap::new();
        for _ in 0..events {
            let p = rng.range(1, npeers);
            let known: Vec<u64> = {
                let mut v: Vec<u64> = beh.peers.keys().map(rnum).collect();
                v.sort();
                v
            };
            // choose a step
            let r = rng.below(100);
            let (a, p, m): (String, u64, MsgDesc) = if r < 12 {
                ("connected".into(), p, MsgDesc::none())
            } else if r < 17 {
                ("disconnected".into(), p, MsgDesc::none())
            } else if r < 22 {
                ("error".into(), p, MsgDesc::none())
            } else if r < 45 && !known.is_empty() {
                // a message a conformant initiator could send now
                let q = *rng.pick(&known);
                let opts = views.get(&q).map(|v| v.options('c')).unwrap_or_default();
                if opts.is_empty() {
                    ("recv".into(), q, msgs::random_desc(&mut rng, npeers))
                } else {
                    ("recv".into(), q, rng.pick(&opts).clone())
                }
            } else if r < 62 {
                ("recv".into(), p, msgs::random_desc(&mut rng, npeers))
            } else if r < 75 {
                // confirm something that was emitted, or something that never was
                let cand: Vec<u64> = pending.iter().filter(|(_, v)| !v.is_empty()).map(|(k, _)| *k).collect();
                if !cand.is_empty() && rng.chance(3, 4) {
                    let q = *rng.pick(&cand);
                    let v = &pending[&q];
                    ("sent".into(), q, msgs::describe(&v[rng.below(v.len() as u64) as usize]))
                } else {
                    ("sent".into(), p, msgs::random_desc(&mut rng, npeers))
                }
            } else {
                let q = if !known.is_empty() && rng.chance(3, 4) { *rng.pick(&known) } else { p };
                ((*rng.pick(&CMDS)).to_string(), q, MsgDesc::none())
            };
            let pid = rpid(p);
            let msg: Option<AnyMessage> = match a.as_str() {
                "sent" => pending
                    .get_mut(&p)
                    .and_then(|v| v.iter().position(|x| msgs::describe(x).same_kind(&m)).map(|i| v.remove(i)))
                    .or_else(|| msgs::build(&m, &versions)),
                "recv" => msgs::build(&m, &versions),
                _ => None,
            };
            let a2 = a.clone();
            let b = &mut beh;
            let pt = proto::Point::new(3, vec![3; 32]);
            let tip = proto::chainsync::Tip(proto::Point::new(9, vec![9; 32]), 9);
            let any = proto::AnyCbor::from_raw_bytes(vec![0x80]);
            let res = pv_core::catch(move || {
                match a2.as_str() {
                    "connected" => b.handle_io(InterfaceEvent::Connected(pid)),
                    "disconnected" => b.handle_io(InterfaceEvent::Disconnected(pid)),
                    "error" => b.handle_io(InterfaceEvent::Error(pid, InterfaceError::Other("io".into()))),
                    "recv" => b.handle_io(InterfaceEvent::Recv(pid, vec![msg.unwrap()])),
                    "sent" => b.handle_io(InterfaceEvent::Sent(pid, msg.unwrap())),
                    "idle" => b.handle_io(InterfaceEvent::Idle),
                    "hk" => b.execute(ResponderCommand::Housekeeping),
                    "provide-intersection" => b.execute(ResponderCommand::ProvideIntersection(pid, pt, tip)),
                    "provide-header" => b.execute(ResponderCommand::ProvideHeader(
                        pid,
                        proto::chainsync::HeaderContent {
                            variant: 1,
                            byron_prefix: None,
                            cbor: vec![0x80],
                        },
                        tip,
                    )),
                    "provide-rollback" => b.execute(ResponderCommand::ProvideRollback(pid, pt, tip)),
                    "provide-blocks" => b.execute(ResponderCommand::ProvideBlocks(pid, vec![vec![0x80], vec![0x81, 0]])),
                    "provide-peers" => b.execute(ResponderCommand::ProvidePeers(pid, vec![])),
                    "provide-eb-announcement" => b.execute(ResponderCommand::ProvideEbAnnouncement(pid, any)),
                    "provide-eb-offer" => b.execute(ResponderCommand::ProvideEbOffer(pid, pt, 10)),
                    "provide-eb-txs-offer" => b.execute(ResponderCommand::ProvideEbTxsOffer(pid, pt)),
                    "provide-votes" => b.execute(ResponderCommand::ProvideVotes(pid, vec![any])),
                    "provide-eb" => b.execute(ResponderCommand::ProvideEb(pid, any)),
                    "provide-eb-txs" => b.execute(ResponderCommand::ProvideEbTxs(
                        pid,
                        pt,
                        proto::leiosfetch::Bitmaps::all(2),
                        vec![any],
                    )),
                    "ban" => b.execute(ResponderCommand::BanPeer(pid)),
                    "disconnect-peer" => b.execute(ResponderCommand::DisconnectPeer(pid)),
                    other => pv_core::die(&format!("unknown responder step {other}")),
                }
                drain(b)
            });
            *stats.entry(a.clone()).or_insert(0) += 1;
            let outs = match res {
                Ok(o) => o,
                Err(msg) => {
                    log.ev(json!({"ev": "panic", "a": a, "p": p, "m": m.json(), "msg": msg, "pre_conn": "-", "pre_hs": "-"}));
                    *stats.entry("panic".into()).or_insert(0) += 1;
                    break;
                }
            };
            match a.as_str() {
                "connected" => {
                    views.insert(p, View::new());
                    pending.insert(p, vec![]);
                }
                "disconnected" => {
                    views.remove(&p);
                    pending.remove(&p);
                }
                "recv" => {
                    if let Some(v) = views.get_mut(&p) {
                        v.advance(&m, 'c');
                    }
                }
                _ => {}
            }
            let mut out = vec![];
            for o in outs {
                match o {
                    BehaviorOutput::InterfaceCommand(InterfaceCommand::Connect(q)) => {
                        out.push(json!({"t": "connect", "p": rnum(&q), "m": MsgDesc::none().json(), "k": ""}))
                    }
                    BehaviorOutput::InterfaceCommand(InterfaceCommand::Disconnect(q)) => {
                        out.push(json!({"t": "disconnect", "p": rnum(&q), "m": MsgDesc::none().json(), "k": ""}))
                    }
                    BehaviorOutput::InterfaceCommand(InterfaceCommand::Send(q, mm)) => {
                        let d = msgs::describe(&mm);
                        let n = rnum(&q);
                        if let Some(v) = views.get_mut(&n) {
                            v.advance(&d, 's');
                        }
                        pending.entry(n).or_default().push(mm);
                        out.push(json!({"t": "send", "p": n, "m": d.json(), "k": ""}));
                    }
                    BehaviorOutput::ExternalEvent(e) => {
                        let (k, n) = event_kind(&e);
                        out.push(json!({"t": "event", "p": n, "m": MsgDesc::none().json(), "k": k}));
                    }
                }
            }
            let mut tracked: Vec<u64> = beh.peers.keys().map(rnum).collect();
            tracked.sort();
            let peers: Vec<_> = tracked
                .iter()
                .map(|q| {
                    let s = beh.peers[&rpid(*q)].verif_snapshot();
                    json!({"p": q, "conn": s.connection, "viol": s.violation, "errs": s.error_count, "hs": s.handshake,
                           "ver": s.version, "ka": s.keepalive, "ps": s.peersharing, "bf": s.blockfetch,
                           "cs": s.chainsync, "tx": s.txsubmission, "ln": s.leiosnotify, "lf": s.leiosfetch})
                })
                .collect();
            let evname = if a == "idle" { "hk" } else { a.as_str() };
            log.ev(json!({"ev": evname, "p": p, "m": m.json(), "out": out, "tracked": tracked, "peers": peers}));
        }
    }
    let lines = log.finish();
    println!("{}", json!({"events": lines, "stats": stats}));
}
