//! C24 - replay of TLC-generated vectors into `State::apply` of the P2P stack
//! (pallas-network2/src/protocol/*).
//!
//! A vector carries abstract states `{cls, sub, data:[tokens]}` and messages
//! `{tag, data:[tokens]}` (spec/proto/Apply.tla). A token is mapped to a
//! concrete payload value by an injective constructor per slot type
//! (`cookie`, `point`, `tip`, ...); projection maps the value back to its
//! token (or -2 when it is none of the constructor's values). The expected
//! result is TLC's; this file only builds, calls, projects and compares.

use pallas_network2::protocol::{
    blockfetch, chainsync, handshake, keepalive, leiosfetch, leiosnotify, peersharing,
    txsubmission, AnyCbor, Point,
};
use pv_core::serde_json::Value;
use pv_core::{catch, die, jarr, jint, json, jstr, Args, Ndjson};
use std::collections::HashMap;

const FREE: i64 = -1;
const UNKNOWN: i64 = -2;

// ---------------------------------------------------------------- payloads
fn cookie(k: i64) -> u16 {
    (1000 + k) as u16
}
fn point(k: i64) -> Point {
    Point::Specific((100 + k) as u64, vec![(k & 0xff) as u8; 32])
}
fn tip(k: i64) -> chainsync::Tip {
    chainsync::Tip(point(k + 20), (5000 + k) as u64)
}
fn header(k: i64) -> chainsync::HeaderContent {
    chainsync::HeaderContent {
        variant: (1 + k) as u8,
        byron_prefix: None,
        cbor: vec![(k & 0xff) as u8; (48 + k) as usize],
    }
}
/// Size class of a token: list-carrying payloads are empty for token 1 and
/// have 2, 3, ... elements for the others, while requested amounts / counts
/// are 0, 2, 5 for tokens 1, 2, 3 - so that over the token pairs a reply is
/// shorter than, as long as and longer than what an earlier message asked
/// for (amount 0 with a non-empty reply included). Injective on 0..12.
fn n(k: i64) -> usize {
    match k {
        k if k < 0 => 0,
        0 => 1,
        1 => 0,
        2 => 2,
        3 => 3,
        k => (k + 3) as usize,
    }
}
fn asked(k: i64) -> i64 {
    match k {
        k if k < 0 => 0,
        0 => 1,
        1 => 0,
        2 => 2,
        3 => 5,
        k => 10 + k,
    }
}
fn points(k: i64) -> Vec<Point> {
    (0..n(k) as i64).map(|i| if i == 2 { Point::Origin } else { point(10 * k + i + 40) }).collect()
}
fn body(k: i64) -> Vec<u8> {
    vec![(0x40 + k) as u8; 32 * n(k)]
}
fn vdata(k: i64) -> handshake::n2n::VersionData {
    handshake::n2n::VersionData::new((7000 + k) as u64, k % 2 == 0, Some((k & 1) as u8), Some(false))
}
fn vtable(k: i64) -> handshake::VersionTable<handshake::n2n::VersionData> {
    let mut values = HashMap::new();
    for i in 0..n(k) as i64 {
        values.insert((10 + 20 * i + k) as u64, vdata(k + i));
    }
    handshake::VersionTable { values }
}
fn vnum(k: i64) -> u64 {
    (10 + k) as u64
}
fn reason(k: i64) -> handshake::RefuseReason {
    match k.rem_euclid(3) {
        0 => handshake::RefuseReason::HandshakeDecodeError(vnum(k), format!("decode-{k}")),
        1 => handshake::RefuseReason::VersionMismatch((0..n(k) as i64).map(|i| vnum(k + i)).collect()),
        _ => handshake::RefuseReason::Refused(vnum(k), format!("refused-{k}")),
    }
}
fn amount(k: i64) -> u8 {
    asked(k) as u8
}
fn peers(k: i64) -> Vec<peersharing::PeerAddress> {
    (0..n(k) as i64)
        .map(|i| {
            if i % 2 == 0 {
                peersharing::PeerAddress::V4(std::net::Ipv4Addr::new(10, 0, k as u8, i as u8), (3000 + k) as u16)
            } else {
                peersharing::PeerAddress::V6(
                    std::net::Ipv6Addr::new(0x2001, 0xdb8, 0, 0, 0, 0, i as u16, k as u16),
                    (4000 + k) as u16,
                )
            }
        })
        .collect()
}
fn txids(k: i64) -> Vec<txsubmission::TxIdAndSize<txsubmission::EraTxId>> {
    (0..n(k) as i64)
        .map(|i| txsubmission::TxIdAndSize(txsubmission::EraTxId(6, vec![(16 * k + i) as u8; 32]), (200 + k) as u32))
        .collect()
}
fn txid_list(k: i64) -> Vec<txsubmission::EraTxId> {
    (0..n(k) as i64).map(|i| txsubmission::EraTxId(6 - (i % 2) as u16, vec![(16 * k + i) as u8; 32])).collect()
}
fn bodies(k: i64) -> Vec<txsubmission::EraTxBody> {
    (0..n(k) as i64).map(|i| txsubmission::EraTxBody(6, vec![(0x80 + 8 * k + i) as u8; (30 + k) as usize])).collect()
}
fn count(k: i64) -> u16 {
    asked(k) as u16
}
fn cbor(k: i64) -> AnyCbor {
    AnyCbor::from_encode((900 + k) as u64)
}
fn cbors(k: i64) -> Vec<AnyCbor> {
    (0..n(k) as i64).map(|i| cbor(50 * k + i)).collect()
}
fn size(k: i64) -> u32 {
    (70000 + k) as u32
}
fn bitmaps(k: i64) -> leiosfetch::Bitmaps {
    leiosfetch::Bitmaps::from_indices((0..n(k)).map(|i| 64 * i + (k as usize)))
}

/// token of a value = the k whose constructor value equals it
fn tok<T: PartialEq>(v: &T, mk: impl Fn(i64) -> T) -> i64 {
    (0..12).find(|k| &mk(*k) == v).unwrap_or(UNKNOWN)
}
fn tok_header(v: &chainsync::HeaderContent) -> i64 {
    (0..12)
        .find(|k| {
            let h = header(*k);
            h.variant == v.variant && h.byron_prefix == v.byron_prefix && h.cbor == v.cbor
        })
        .unwrap_or(UNKNOWN)
}

fn st(cls: &str, sub: &str, data: Vec<i64>) -> Value {
    json!({"cls": cls, "sub": sub, "data": data})
}

// ------------------------------------------------------------------- trait
trait Fsm {
    type S: Clone + std::fmt::Debug;
    type M;
    fn init() -> Self::S;
    fn state(cls: &str, sub: &str, d: &[i64]) -> Option<Self::S>;
    fn msg(tag: &str, d: &[i64]) -> Option<Self::M>;
    fn apply(s: &Self::S, m: &Self::M) -> Result<Self::S, String>;
    fn project(s: &Self::S) -> Value;
}

struct Hs;
impl Fsm for Hs {
    type S = handshake::State<handshake::n2n::VersionData>;
    type M = handshake::Message<handshake::n2n::VersionData>;
    fn init() -> Self::S {
        Default::default()
    }
    fn state(cls: &str, sub: &str, d: &[i64]) -> Option<Self::S> {
        use handshake::{DoneState as D, State as S};
        Some(match (cls, sub) {
            ("Propose", _) => S::Propose,
            ("Confirm", _) => S::Confirm(vtable(d[0])),
            ("Done", "Accepted") => S::Done(D::Accepted(vnum(d[0]), vdata(d[1]))),
            ("Done", "Rejected") => S::Done(D::Rejected(reason(d[0]))),
            ("Done", "QueryReply") => S::Done(D::QueryReply(vtable(d[0]))),
            _ => return None,
        })
    }
    fn msg(tag: &str, d: &[i64]) -> Option<Self::M> {
        use handshake::Message as M;
        Some(match tag {
            "Propose" => M::Propose(vtable(d[0])),
            "Accept" => M::Accept(vnum(d[0]), vdata(d[1])),
            "Refuse" => M::Refuse(reason(d[0])),
            "QueryReply" => M::QueryReply(vtable(d[0])),
            _ => return None,
        })
    }
    fn apply(s: &Self::S, m: &Self::M) -> Result<Self::S, String> {
        s.apply(m).map_err(|e| format!("{e:?}"))
    }
    fn project(s: &Self::S) -> Value {
        use handshake::{DoneState as D, State as S};
        match s {
            S::Propose => st("Propose", "", vec![]),
            S::Confirm(t) => st("Confirm", "", vec![tok(t, vtable)]),
            S::Done(D::Accepted(v, d)) => st("Done", "Accepted", vec![tok(v, vnum), tok(d, vdata)]),
            S::Done(D::Rejected(r)) => st("Done", "Rejected", vec![tok(r, reason)]),
            S::Done(D::QueryReply(t)) => st("Done", "QueryReply", vec![tok(t, vtable)]),
        }
    }
}

struct Ka;
impl Fsm for Ka {
    type S = keepalive::State;
    type M = keepalive::Message;
    fn init() -> Self::S {
        Default::default()
    }
    fn state(cls: &str, sub: &str, d: &[i64]) -> Option<Self::S> {
        use keepalive::{ClientState as C, State as S};
        Some(match (cls, sub) {
            ("Client", "Empty") => S::Client(C::Empty),
            ("Client", "Response") => S::Client(C::Response(cookie(d[0]))),
            ("Server", _) => S::Server(cookie(d[0])),
            ("Done", _) => S::Done,
            _ => return None,
        })
    }
    fn msg(tag: &str, d: &[i64]) -> Option<Self::M> {
        use keepalive::Message as M;
        Some(match tag {
            "KeepAlive" => M::KeepAlive(cookie(d[0])),
            "ResponseKeepAlive" => M::ResponseKeepAlive(cookie(d[0])),
            "Done" => M::Done,
            _ => return None,
        })
    }
    fn apply(s: &Self::S, m: &Self::M) -> Result<Self::S, String> {
        s.apply(m).map_err(|e| format!("{e:?}"))
    }
    fn project(s: &Self::S) -> Value {
        use keepalive::{ClientState as C, State as S};
        match s {
            S::Client(C::Empty) => st("Client", "Empty", vec![]),
            S::Client(C::Response(c)) => st("Client", "Response", vec![tok(c, cookie)]),
            S::Server(c) => st("Server", "", vec![tok(c, cookie)]),
            S::Done => st("Done", "", vec![]),
        }
    }
}

struct Cs;
impl Fsm for Cs {
    type S = chainsync::State<chainsync::HeaderContent>;
    type M = chainsync::Message<chainsync::HeaderContent>;
    fn init() -> Self::S {
        Default::default()
    }
    fn state(cls: &str, sub: &str, d: &[i64]) -> Option<Self::S> {
        use chainsync::{Data as D, State as S};
        Some(match (cls, sub) {
            ("Idle", "New") => S::Idle(D::New),
            ("Idle", "Intersection") => S::Idle(D::Intersection(point(d[0]), tip(d[1]))),
            ("Idle", "NoIntersection") => S::Idle(D::NoIntersection(tip(d[0]))),
            ("Idle", "Content") => S::Idle(D::Content(header(d[0]), tip(d[1]))),
            ("Idle", "Rollback") => S::Idle(D::Rollback(point(d[0]), tip(d[1]))),
            ("Idle", "Drained") => S::Idle(D::Drained),
            ("CanAwait", _) => S::CanAwait,
            ("MustReply", _) => S::MustReply,
            ("Intersect", _) => S::Intersect(points(d[0])),
            ("Done", _) => S::Done,
            _ => return None,
        })
    }
    fn msg(tag: &str, d: &[i64]) -> Option<Self::M> {
        use chainsync::Message as M;
        Some(match tag {
            "RequestNext" => M::RequestNext,
            "AwaitReply" => M::AwaitReply,
            "RollForward" => M::RollForward(header(d[0]), tip(d[1])),
            "RollBackward" => M::RollBackward(point(d[0]), tip(d[1])),
            "FindIntersect" => M::FindIntersect(points(d[0])),
            "IntersectFound" => M::IntersectFound(point(d[0]), tip(d[1])),
            "IntersectNotFound" => M::IntersectNotFound(tip(d[0])),
            "Done" => M::Done,
            _ => return None,
        })
    }
    fn apply(s: &Self::S, m: &Self::M) -> Result<Self::S, String> {
        s.apply(m).map_err(|e| format!("{e:?}"))
    }
    fn project(s: &Self::S) -> Value {
        use chainsync::{Data as D, State as S};
        match s {
            S::Idle(D::New) => st("Idle", "New", vec![]),
            S::Idle(D::Intersection(p, t)) => st("Idle", "Intersection", vec![tok(p, point), tok(t, tip)]),
            S::Idle(D::NoIntersection(t)) => st("Idle", "NoIntersection", vec![tok(t, tip)]),
            S::Idle(D::Content(c, t)) => st("Idle", "Content", vec![tok_header(c), tok(t, tip)]),
            S::Idle(D::Rollback(p, t)) => st("Idle", "Rollback", vec![tok(p, point), tok(t, tip)]),
            S::Idle(D::Drained) => st("Idle", "Drained", vec![]),
            S::CanAwait => st("CanAwait", "", vec![]),
            S::MustReply => st("MustReply", "", vec![]),
            S::Intersect(ps) => st("Intersect", "", vec![tok(ps, points)]),
            S::Done => st("Done", "", vec![]),
        }
    }
}

struct Bf;
impl Fsm for Bf {
    type S = blockfetch::State;
    type M = blockfetch::Message;
    fn init() -> Self::S {
        Default::default()
    }
    fn state(cls: &str, sub: &str, d: &[i64]) -> Option<Self::S> {
        use blockfetch::State as S;
        Some(match (cls, sub) {
            ("Idle", _) => S::Idle,
            ("Busy", _) => S::Busy((point(d[0]), point(d[1]))),
            ("Streaming", "None") => S::Streaming(None),
            ("Streaming", "Some") => S::Streaming(Some(body(d[0]))),
            ("Done", _) => S::Done,
            _ => return None,
        })
    }
    fn msg(tag: &str, d: &[i64]) -> Option<Self::M> {
        use blockfetch::Message as M;
        Some(match tag {
            "RequestRange" => M::RequestRange((point(d[0]), point(d[1]))),
            "ClientDone" => M::ClientDone,
            "StartBatch" => M::StartBatch,
            "NoBlocks" => M::NoBlocks,
            "Block" => M::Block(body(d[0])),
            "BatchDone" => M::BatchDone,
            _ => return None,
        })
    }
    fn apply(s: &Self::S, m: &Self::M) -> Result<Self::S, String> {
        s.apply(m).map_err(|e| format!("{e:?}"))
    }
    fn project(s: &Self::S) -> Value {
        use blockfetch::State as S;
        match s {
            S::Idle => st("Idle", "", vec![]),
            S::Busy((a, b)) => st("Busy", "", vec![tok(a, point), tok(b, point)]),
            S::Streaming(None) => st("Streaming", "None", vec![]),
            S::Streaming(Some(b)) => st("Streaming", "Some", vec![tok(b, body)]),
            S::Done => st("Done", "", vec![]),
        }
    }
}

struct Ps;
impl Fsm for Ps {
    type S = peersharing::State;
    type M = peersharing::Message;
    fn init() -> Self::S {
        Default::default()
    }
    fn state(cls: &str, sub: &str, d: &[i64]) -> Option<Self::S> {
        use peersharing::{IdleState as I, State as S};
        Some(match (cls, sub) {
            ("Idle", "Empty") => S::Idle(I::Empty),
            ("Idle", "Response") => S::Idle(I::Response(peers(d[0]))),
            ("Busy", _) => S::Busy(amount(d[0])),
            ("Done", _) => S::Done,
            _ => return None,
        })
    }
    fn msg(tag: &str, d: &[i64]) -> Option<Self::M> {
        use peersharing::Message as M;
        Some(match tag {
            "ShareRequest" => M::ShareRequest(amount(d[0])),
            "SharePeers" => M::SharePeers(peers(d[0])),
            "Done" => M::Done,
            _ => return None,
        })
    }
    fn apply(s: &Self::S, m: &Self::M) -> Result<Self::S, String> {
        s.apply(m).map_err(|e| format!("{e:?}"))
    }
    fn project(s: &Self::S) -> Value {
        use peersharing::{IdleState as I, State as S};
        match s {
            S::Idle(I::Empty) => st("Idle", "Empty", vec![]),
            S::Idle(I::Response(p)) => st("Idle", "Response", vec![tok(p, peers)]),
            S::Busy(a) => st("Busy", "", vec![tok(a, amount)]),
            S::Done => st("Done", "", vec![]),
        }
    }
}

struct Tx;
impl Fsm for Tx {
    type S = txsubmission::State;
    type M = txsubmission::Message;
    fn init() -> Self::S {
        Default::default()
    }
    fn state(cls: &str, _sub: &str, d: &[i64]) -> Option<Self::S> {
        use txsubmission::State as S;
        Some(match cls {
            "Init" => S::Init,
            "Idle" => S::Idle,
            "TxIdsNonBlocking" => S::TxIdsNonBlocking,
            "TxIdsBlocking" => S::TxIdsBlocking,
            "Txs" => S::Txs(bodies(d[0])),
            "Done" => S::Done,
            _ => return None,
        })
    }
    fn msg(tag: &str, d: &[i64]) -> Option<Self::M> {
        use txsubmission::Message as M;
        Some(match tag {
            "Init" => M::Init,
            "RequestTxIdsBlocking" => M::RequestTxIds(true, count(d[0]), count(d[1])),
            "RequestTxIdsNonBlocking" => M::RequestTxIds(false, count(d[0]), count(d[1])),
            "ReplyTxIds" => M::ReplyTxIds(txids(d[0])),
            "RequestTxs" => M::RequestTxs(txid_list(d[0])),
            "ReplyTxs" => M::ReplyTxs(bodies(d[0])),
            "Done" => M::Done,
            _ => return None,
        })
    }
    fn apply(s: &Self::S, m: &Self::M) -> Result<Self::S, String> {
        s.apply(m).map_err(|e| format!("{e:?}"))
    }
    fn project(s: &Self::S) -> Value {
        use txsubmission::State as S;
        match s {
            S::Init => st("Init", "", vec![]),
            S::Idle => st("Idle", "", vec![]),
            S::TxIdsNonBlocking => st("TxIdsNonBlocking", "", vec![]),
            S::TxIdsBlocking => st("TxIdsBlocking", "", vec![]),
            S::Txs(b) => st("Txs", "", vec![tok(b, bodies)]),
            S::Done => st("Done", "", vec![]),
        }
    }
}

struct Ln;
impl Fsm for Ln {
    type S = leiosnotify::State;
    type M = leiosnotify::Message;
    fn init() -> Self::S {
        Default::default()
    }
    fn state(cls: &str, sub: &str, d: &[i64]) -> Option<Self::S> {
        use leiosnotify::{Notification as N, State as S};
        Some(match (cls, sub) {
            ("Idle", "None") => S::Idle(None),
            ("Idle", "BlockAnnouncement") => S::Idle(Some(N::BlockAnnouncement(cbor(d[0])))),
            ("Idle", "BlockOffer") => S::Idle(Some(N::BlockOffer(point(d[0]), size(d[1])))),
            ("Idle", "BlockTxsOffer") => S::Idle(Some(N::BlockTxsOffer(point(d[0])))),
            ("Idle", "Votes") => S::Idle(Some(N::Votes(cbors(d[0])))),
            ("Busy", _) => S::Busy,
            ("Done", _) => S::Done,
            _ => return None,
        })
    }
    fn msg(tag: &str, d: &[i64]) -> Option<Self::M> {
        use leiosnotify::Message as M;
        Some(match tag {
            "RequestNext" => M::RequestNext,
            "BlockAnnouncement" => M::BlockAnnouncement(cbor(d[0])),
            "BlockOffer" => M::BlockOffer(point(d[0]), size(d[1])),
            "BlockTxsOffer" => M::BlockTxsOffer(point(d[0])),
            "Votes" => M::Votes(cbors(d[0])),
            "Done" => M::Done,
            _ => return None,
        })
    }
    fn apply(s: &Self::S, m: &Self::M) -> Result<Self::S, String> {
        s.apply(m).map_err(|e| format!("{e:?}"))
    }
    fn project(s: &Self::S) -> Value {
        use leiosnotify::{Notification as N, State as S};
        match s {
            S::Idle(None) => st("Idle", "None", vec![]),
            S::Idle(Some(N::BlockAnnouncement(h))) => st("Idle", "BlockAnnouncement", vec![tok(h, cbor)]),
            S::Idle(Some(N::BlockOffer(p, z))) => st("Idle", "BlockOffer", vec![tok(p, point), tok(z, size)]),
            S::Idle(Some(N::BlockTxsOffer(p))) => st("Idle", "BlockTxsOffer", vec![tok(p, point)]),
            S::Idle(Some(N::Votes(v))) => st("Idle", "Votes", vec![tok(v, cbors)]),
            S::Busy => st("Busy", "", vec![]),
            S::Done => st("Done", "", vec![]),
        }
    }
}

struct Lf;
impl Fsm for Lf {
    type S = leiosfetch::State;
    type M = leiosfetch::Message;
    fn init() -> Self::S {
        Default::default()
    }
    fn state(cls: &str, sub: &str, d: &[i64]) -> Option<Self::S> {
        use leiosfetch::{Response as R, State as S};
        Some(match (cls, sub) {
            ("Idle", "None") => S::Idle(None),
            ("Idle", "Block") => S::Idle(Some((point(d[0]), R::Block(cbor(d[1]))))),
            ("Idle", "BlockTxs") => S::Idle(Some((point(d[0]), R::BlockTxs { txs: cbors(d[1]) }))),
            ("AwaitingBlock", _) => S::AwaitingBlock(point(d[0])),
            ("AwaitingBlockTxs", _) => S::AwaitingBlockTxs(point(d[0]), bitmaps(d[1])),
            ("Done", _) => S::Done,
            _ => return None,
        })
    }
    fn msg(tag: &str, d: &[i64]) -> Option<Self::M> {
        use leiosfetch::Message as M;
        Some(match tag {
            "BlockRequest" => M::BlockRequest(point(d[0])),
            "Block" => M::Block(cbor(d[0])),
            "BlockTxsRequest" => M::BlockTxsRequest(point(d[0]), bitmaps(d[1])),
            "BlockTxs" => M::BlockTxs {
                point: point(d[0]),
                bitmaps: bitmaps(d[1]),
                txs: cbors(d[2]),
            },
            "Done" => M::Done,
            _ => return None,
        })
    }
    fn apply(s: &Self::S, m: &Self::M) -> Result<Self::S, String> {
        s.apply(m).map_err(|e| format!("{e:?}"))
    }
    fn project(s: &Self::S) -> Value {
        use leiosfetch::{Response as R, State as S};
        match s {
            S::Idle(None) => st("Idle", "None", vec![]),
            S::Idle(Some((p, R::Block(b)))) => st("Idle", "Block", vec![tok(p, point), tok(b, cbor)]),
            S::Idle(Some((p, R::BlockTxs { txs }))) => st("Idle", "BlockTxs", vec![tok(p, point), tok(txs, cbors)]),
            S::AwaitingBlock(p) => st("AwaitingBlock", "", vec![tok(p, point)]),
            S::AwaitingBlockTxs(p, b) => st("AwaitingBlockTxs", "", vec![tok(p, point), tok(b, bitmaps)]),
            S::Done => st("Done", "", vec![]),
        }
    }
}

// ------------------------------------------------------------------ driver
fn ints(v: &Value) -> Vec<i64> {
    jarr(v).iter().map(jint).collect()
}

fn build_state<F: Fsm>(v: &Value) -> F::S {
    let d = ints(&v["data"]);
    F::state(jstr(&v["cls"]), jstr(&v["sub"]), &d).unwrap_or_else(|| die(&format!("no such state shape {v}")))
}

fn build_msg<F: Fsm>(v: &Value) -> F::M {
    let d = ints(&v["data"]);
    F::msg(jstr(&v["tag"]), &d).unwrap_or_else(|| die(&format!("no such message {v}")))
}

/// `got` = {"ok":true,cls,sub,data} | {"ok":false,"err":..} | {"panic":..}
fn agrees(exp: &Value, got: &Value) -> bool {
    if got.get("panic").is_some() {
        return false;
    }
    let eok = exp["ok"].as_bool().unwrap_or_else(|| die("exp.ok missing"));
    if eok != got["ok"].as_bool().unwrap() {
        return false;
    }
    if !eok {
        return true;
    }
    if exp["cls"] != got["cls"] || exp["sub"] != got["sub"] {
        return false;
    }
    let (e, g) = (ints(&exp["data"]), ints(&got["data"]));
    e.len() == g.len() && e.iter().zip(g.iter()).all(|(a, b)| *a == FREE || a == b)
}

fn clip(s: String) -> String {
    if s.len() > 400 { format!("{}...[{} chars]", &s[..400], s.len()) } else { s }
}
fn detail<F: Fsm>(s: &F::S, m: &F::M, exp: &Value) -> Value {
    let got = match catch(|| F::apply(s, m)) {
        Ok(Ok(n)) => clip(format!("{n:?}")),
        Ok(Err(e)) => format!("Err({e})"),
        Err(p) => format!("panic({p})"),
    };
    let want = if exp["ok"].as_bool() == Some(true) {
        let d: Vec<i64> = ints(&exp["data"]);
        F::state(jstr(&exp["cls"]), jstr(&exp["sub"]), &d).map(|x| clip(format!("{x:?}"))).unwrap_or_default()
    } else {
        "Err".to_string()
    };
    json!({"got": got, "want": want})
}

/// one application of the real `apply`; returns (got, next real state if Ok)
fn step<F: Fsm>(s: &F::S, m: &F::M) -> (Value, Option<F::S>) {
    match catch(|| F::apply(s, m)) {
        Ok(Ok(n)) => {
            let mut p = F::project(&n);
            p["ok"] = json!(true);
            (p, Some(n))
        }
        Ok(Err(e)) => (json!({"ok": false, "err": e}), None),
        Err(p) => (json!({"panic": p}), None),
    }
}

fn run_vec<F: Fsm>(idx: usize, v: &Value, out: &mut Ndjson) {
    let proto = jstr(&v["proto"]);
    match jstr(&v["kind"]) {
        "init" => {
            let got = F::project(&F::init());
            let ok = got["cls"] == v["st"]["cls"] && got["sub"] == v["st"]["sub"] && got["data"] == v["st"]["data"];
            out.ev(json!({"kind": "init", "proto": proto, "idx": idx, "step": 0, "st": v["st"], "msg": {"tag": "default"},
                          "exp": v["st"], "got": got, "ok": ok}));
        }
        "pair" => {
            let s = build_state::<F>(&v["st"]);
            // the builder and the projection must be inverse of each other
            if F::project(&s) != v["st"] {
                die(&format!("harness projection is not the inverse of the builder on {}", v["st"]));
            }
            let m = build_msg::<F>(&v["msg"]);
            let (got, _) = step::<F>(&s, &m);
            let ok = agrees(&v["exp"], &got);
            let mut row = json!({"kind": "pair", "proto": proto, "idx": idx, "step": 1, "st": v["st"], "msg": v["msg"],
                                 "exp": v["exp"], "got": got, "ok": ok});
            if !ok {
                // the full carried payload, as the implementation has it and as the specification prescribes it
                row["detail"] = detail::<F>(&s, &m, &v["exp"]);
            }
            out.ev(row);
        }
        "seq" => {
            let mut s = F::init();
            let mut resynced = false;
            for (i, stp) in jarr(&v["steps"]).iter().enumerate() {
                let before = F::project(&s);
                let m = build_msg::<F>(&stp["msg"]);
                let (got, next) = step::<F>(&s, &m);
                let ok = agrees(&stp["exp"], &got);
                // only failures and the last step are logged (the file stays small)
                if !ok || i + 1 == jarr(&v["steps"]).len() {
                    out.ev(json!({"kind": "seq", "proto": proto, "idx": idx, "step": i + 1, "st": before, "msg": stp["msg"],
                                  "exp": stp["exp"], "got": got, "ok": ok, "resynced": resynced,
                                  "len": jarr(&v["steps"]).len()}));
                }
                if ok {
                    if let Some(n) = next {
                        s = n;
                    }
                } else if stp["exp"]["ok"].as_bool() == Some(true) {
                    // continue from the state the specification prescribes
                    let e = &stp["exp"];
                    let d: Vec<i64> = ints(&e["data"]);
                    s = F::state(jstr(&e["cls"]), jstr(&e["sub"]), &d).unwrap_or_else(|| die("bad expected state"));
                    resynced = true;
                }
            }
        }
        k => die(&format!("unknown vector kind {k}")),
    }
}

pub fn replay(args: &Args) {
    let vecs = pv_core::read_ndjson(args.get("in"));
    let mut out = Ndjson::create(args.get("out"));
    let mut n = 0usize;
    let mut steps = 0usize;
    for (idx, v) in vecs.iter().enumerate() {
        steps += v.get("steps").map(|s| jarr(s).len()).unwrap_or(1);
        match jstr(&v["proto"]) {
            "handshake" => run_vec::<Hs>(idx, v, &mut out),
            "keepalive" => run_vec::<Ka>(idx, v, &mut out),
            "chainsync" => run_vec::<Cs>(idx, v, &mut out),
            "blockfetch" => run_vec::<Bf>(idx, v, &mut out),
            "peersharing" => run_vec::<Ps>(idx, v, &mut out),
            "txsubmission" => run_vec::<Tx>(idx, v, &mut out),
            "leiosnotify" => run_vec::<Ln>(idx, v, &mut out),
            "leiosfetch" => run_vec::<Lf>(idx, v, &mut out),
            p => die(&format!("unknown protocol {p}")),
        }
        n += 1;
    }
    let lines = out.finish();
    println!("{{\"vectors\":{n},\"rows\":{lines},\"steps\":{steps}}}");
}
