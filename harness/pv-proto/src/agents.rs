//! C23 - probes of the original-stack agents (pallas-network/src/miniprotocols).
//!
//! For every probe a fresh pair of in-process plexers over a UnixStream pair is
//! created, with a real client agent, a real server agent (where pallas has
//! one) and a *raw* channel next to each of them that can put any message on
//! the wire towards the other side. The pair is driven along a message path
//! (from TLC) with the high-level methods, then one entry point of the agent
//! under test is called and the outcome logged:
//!   {"ev":"call",proto,role,path,state,peer,via,commit,cond,steps,res,err,after}
//! Walks (`{"ev":"walk"}`) replay TLC behaviours through both real agents.
//! Nothing is judged here: spec/proto/TraceAgent.tla decides.

use pallas_codec::minicbor;
use pallas_codec::utils::AnyCbor;
use pallas_network::miniprotocols::{
    blockfetch, chainsync, handshake, keepalive, localstate, localtxsubmission, peersharing,
    txmonitor, txsubmission, Point,
};
use pallas_network::multiplexer::{AgentChannel, Bearer, Plexer, RunningPlexer};
use pv_core::serde_json::Value;
use pv_core::{die, jarr, jstr, json, Args, Ndjson};
use std::collections::BTreeMap;
use std::fmt::Debug;
use std::time::Duration;

#[derive(Clone, Copy, PartialEq, Eq, Debug)]
pub enum Role {
    Client,
    Server,
}
use Role::*;

impl Role {
    fn name(self) -> &'static str {
        match self {
            Client => "client",
            Server => "server",
        }
    }
    fn peer(self) -> Role {
        match self {
            Client => Server,
            Server => Client,
        }
    }
}

/// Ok, or the name of the error variant.
type Res = Result<(), String>;

fn ename<E: Debug>(e: E) -> String {
    let s = format!("{e:?}");
    let mut ids = s.split(|c: char| !c.is_alphanumeric()).filter(|x| !x.is_empty());
    let first = ids.next().unwrap_or("").to_string();
    // Plexer(Decoding(..)) / ChannelError(Decoding(..)): the payload could not be decoded
    if (first == "Plexer" || first == "ChannelError") && ids.next() == Some("Decoding") {
        return "Decoding".to_string();
    }
    first
}
fn r<T, E: Debug>(x: Result<T, E>) -> Res {
    x.map(|_| ()).map_err(ename)
}
fn classify(res: &Res) -> &'static str {
    match res {
        Ok(()) => "ok",
        Err(e) => match e.as_str() {
            "AgencyIsOurs" | "AgencyIsTheirs" | "InvalidInbound" | "InvalidOutbound" | "AlreadyInitialized" => "reject",
            // the message kind is fine, its payload is not (mismatching cookie, undecodable body)
            "KeepAliveCookieMismatch" | "Decoding" => "refuse",
            "Plexer" | "ChannelError" => "plexer",
            "Timeout" => "timeout",
            _ => "app",
        },
    }
}

pub enum S {
    Send(&'static [&'static str]),
    Recv(&'static [&'static str]),
}
pub struct Via {
    role: Role,
    name: &'static str,
    commit: bool,
    cond: bool,
    steps: Vec<S>,
}
fn via(role: Role, name: &'static str, commit: bool, steps: Vec<S>) -> Via {
    Via { role, name, commit, cond: false, steps }
}

/// channels of one link: real client / server channels and the raw senders
pub struct Chans {
    pub c: Option<AgentChannel>,
    pub s: Option<AgentChannel>,
    pub raw_to_c: AgentChannel,
    pub raw_to_s: AgentChannel,
}

pub async fn link(id: u16) -> (Chans, RunningPlexer, RunningPlexer) {
    let (sa, sb) = tokio::net::UnixStream::pair().unwrap_or_else(|e| die(&format!("socketpair: {e}")));
    let mut pa = Plexer::new(Bearer::Unix(sa));
    let mut pb = Plexer::new(Bearer::Unix(sb));
    // the raw channels are subscribed first: the later subscription of the real
    // agent takes over the inbound side, both keep a sender into the muxer
    let raw_to_s = pa.subscribe_client(id);
    let c = pa.subscribe_client(id);
    let raw_to_c = pb.subscribe_server(id);
    let s = pb.subscribe_server(id);
    (Chans { c: Some(c), s: Some(s), raw_to_c, raw_to_s }, pa.spawn(), pb.spawn())
}

fn enc<M: minicbor::Encode<()>>(m: &M) -> Vec<u8> {
    minicbor::to_vec(m).unwrap_or_else(|e| die(&format!("encode: {e}")))
}

/// `[label, "x"]` for a message `[label, payload..]` (None for payload-less messages)
fn malformed(good: &[u8]) -> Option<Vec<u8>> {
    if good.len() >= 3 && (0x82..=0x97).contains(&good[0]) && good[1] < 24 {
        Some(vec![0x82, good[1], 0x61, 0x78])
    } else {
        None
    }
}

fn dbg_state<T: Debug>(s: &T) -> String {
    ename(s)
}

pub trait Proto: Sized {
    const NAME: &'static str;
    const ID: u16;
    /// every message class of the protocol
    const MSGS: &'static [&'static str];
    fn new(ch: Chans) -> Self;
    /// state class of the agent ("" = no such agent / not tracked any more)
    fn state(&self, role: Role) -> String;
    fn raw(&mut self, to: Role) -> &mut AgentChannel;
    fn vias() -> Vec<Via>;
    /// wire bytes of a representative message of the class
    fn wire(&self, msg: &str) -> Vec<u8>;
    /// perform `msg` from the side that has agency, committing on both real agents
    async fn drive(&mut self, msg: &str) -> Res;
    async fn reach(&mut self, path: &[String]) -> Res {
        for m in path {
            self.drive(m).await?;
        }
        Ok(())
    }
    async fn call(&mut self, role: Role, via: &str, sel: &[String]) -> Res;
    /// messages of the right kind whose payload the receiver cannot accept:
    /// (what is wrong, wire bytes). Default: same label, payload replaced by a
    /// text item the payload decoder cannot take ("malformed"); protocols add
    /// well-formed but semantically wrong payloads.
    fn bad_wires(&self, msg: &str) -> Vec<(&'static str, Vec<u8>)> {
        malformed(&self.wire(msg)).map(|b| vec![("malformed", b)]).unwrap_or_default()
    }
    async fn deliver_raw(&mut self, to: Role, b: Vec<u8>) {
        if self.raw(to).enqueue_chunk(b).await.is_err() {
            die("raw enqueue failed");
        }
    }
    async fn deliver(&mut self, to: Role, msg: &str) {
        let b = self.wire(msg);
        if self.raw(to).enqueue_chunk(b).await.is_err() {
            die("raw enqueue failed");
        }
    }
}

fn point() -> Point {
    Point::Specific(42, vec![7u8; 32])
}

// =============================================================== handshake
const HS_MSGS: &[&str] = &["Propose", "Accept", "Refuse", "QueryReply"];
const MAGIC: u64 = 764824073;
pub struct Hs {
    c: handshake::N2NClient,
    s: handshake::N2NServer,
    rc: AgentChannel,
    rs: AgentChannel,
    s_blind: bool,
}
impl Hs {
    fn table() -> handshake::n2n::VersionTable {
        handshake::n2n::VersionTable::v7_and_above(MAGIC)
    }
    fn vd() -> handshake::n2n::VersionData {
        handshake::n2n::VersionData::new(MAGIC, false, None, None)
    }
    fn msg(m: &str) -> handshake::Message<handshake::n2n::VersionData> {
        match m {
            "Propose" => handshake::Message::Propose(Self::table()),
            "Accept" => handshake::Message::Accept(13, Self::vd()),
            "Refuse" => handshake::Message::Refuse(handshake::RefuseReason::Refused(13, "no".into())),
            "QueryReply" => handshake::Message::QueryReply(Self::table()),
            _ => die(&format!("handshake: no message {m}")),
        }
    }
}
impl Proto for Hs {
    const NAME: &'static str = "handshake";
    const ID: u16 = 0;
    const MSGS: &'static [&'static str] = HS_MSGS;
    fn new(mut ch: Chans) -> Self {
        Hs {
            c: handshake::Client::new(ch.c.take().unwrap()),
            s: handshake::Server::new(ch.s.take().unwrap()),
            rc: ch.raw_to_c,
            rs: ch.raw_to_s,
            s_blind: false,
        }
    }
    fn state(&self, role: Role) -> String {
        match role {
            Client => dbg_state(self.c.state()),
            Server if self.s_blind => String::new(),
            Server => dbg_state(self.s.state()),
        }
    }
    fn raw(&mut self, to: Role) -> &mut AgentChannel {
        if to == Client { &mut self.rc } else { &mut self.rs }
    }
    fn vias() -> Vec<Via> {
        vec![
            via(Client, "send_message", false, vec![S::Send(HS_MSGS)]),
            via(Client, "recv_message", false, vec![S::Recv(HS_MSGS)]),
            via(Client, "send_propose", true, vec![S::Send(&["Propose"])]),
            via(Client, "recv_while_confirm", true, vec![S::Recv(&["Accept", "Refuse", "QueryReply"])]),
            via(Client, "handshake", true, vec![S::Send(&["Propose"]), S::Recv(&["Accept", "Refuse", "QueryReply"])]),
            via(Server, "send_message", false, vec![S::Send(HS_MSGS)]),
            via(Server, "recv_message", false, vec![S::Recv(HS_MSGS)]),
            via(Server, "receive_proposed_versions", true, vec![S::Recv(&["Propose"])]),
            via(Server, "accept_version", true, vec![S::Send(&["Accept"])]),
            via(Server, "refuse", true, vec![S::Send(&["Refuse"])]),
            via(Server, "handshake", true, vec![S::Recv(&["Propose"]), S::Send(&["Accept"])]),
        ]
    }
    fn wire(&self, msg: &str) -> Vec<u8> {
        enc(&Self::msg(msg))
    }
    async fn drive(&mut self, msg: &str) -> Res {
        match msg {
            "Propose" => {
                r(self.c.send_propose(Self::table()).await)?;
                r(self.s.receive_proposed_versions().await)
            }
            "Accept" => {
                r(self.s.accept_version(13, Self::vd()).await)?;
                r(self.c.recv_while_confirm().await)
            }
            "Refuse" => {
                r(self.s.refuse(handshake::RefuseReason::Refused(13, "no".into())).await)?;
                r(self.c.recv_while_confirm().await)
            }
            "QueryReply" => {
                // the server agent has no method that sends QueryReply
                self.s_blind = true;
                self.deliver(Client, "QueryReply").await;
                r(self.c.recv_while_confirm().await)
            }
            _ => Err(format!("nodrive {msg}")),
        }
    }
    async fn call(&mut self, role: Role, via: &str, sel: &[String]) -> Res {
        match (role, via) {
            (Client, "send_message") => r(self.c.send_message(&Self::msg(&sel[0])).await),
            (Client, "recv_message") => r(self.c.recv_message().await),
            (Client, "send_propose") => r(self.c.send_propose(Self::table()).await),
            (Client, "recv_while_confirm") => r(self.c.recv_while_confirm().await),
            (Client, "handshake") => r(self.c.handshake(Self::table()).await),
            (Server, "send_message") => r(self.s.send_message(&Self::msg(&sel[0])).await),
            (Server, "recv_message") => r(self.s.recv_message().await),
            (Server, "receive_proposed_versions") => r(self.s.receive_proposed_versions().await),
            (Server, "accept_version") => r(self.s.accept_version(13, Self::vd()).await),
            (Server, "refuse") => r(self.s.refuse(handshake::RefuseReason::Refused(13, "no".into())).await),
            (Server, "handshake") => r(self.s.handshake(Self::table()).await),
            _ => die(&format!("handshake: no via {via}")),
        }
    }
}

// ======================================================= handshake (n2c)
pub struct Hc {
    c: handshake::N2CClient,
    s: handshake::N2CServer,
    rc: AgentChannel,
    rs: AgentChannel,
    s_blind: bool,
}
impl Hc {
    fn table() -> handshake::n2c::VersionTable {
        handshake::n2c::VersionTable::v10_and_above(MAGIC)
    }
    fn vd() -> handshake::n2c::VersionData {
        handshake::n2c::VersionData::new(MAGIC, Some(false))
    }
    fn msg(m: &str) -> handshake::Message<handshake::n2c::VersionData> {
        match m {
            "Propose" => handshake::Message::Propose(Self::table()),
            "Accept" => handshake::Message::Accept(32784, Self::vd()),
            "Refuse" => handshake::Message::Refuse(handshake::RefuseReason::Refused(32784, "no".into())),
            "QueryReply" => handshake::Message::QueryReply(Self::table()),
            _ => die(&format!("handshake_n2c: no message {m}")),
        }
    }
}
impl Proto for Hc {
    const NAME: &'static str = "handshake_n2c";
    const ID: u16 = 0;
    const MSGS: &'static [&'static str] = HS_MSGS;
    fn new(mut ch: Chans) -> Self {
        Hc {
            c: handshake::Client::new(ch.c.take().unwrap()),
            s: handshake::Server::new(ch.s.take().unwrap()),
            rc: ch.raw_to_c,
            rs: ch.raw_to_s,
            s_blind: false,
        }
    }
    fn state(&self, role: Role) -> String {
        match role {
            Client => dbg_state(self.c.state()),
            Server if self.s_blind => String::new(),
            Server => dbg_state(self.s.state()),
        }
    }
    fn raw(&mut self, to: Role) -> &mut AgentChannel {
        if to == Client { &mut self.rc } else { &mut self.rs }
    }
    fn vias() -> Vec<Via> {
        vec![
            via(Client, "send_message", false, vec![S::Send(HS_MSGS)]),
            via(Client, "recv_message", false, vec![S::Recv(HS_MSGS)]),
            via(Client, "send_propose", true, vec![S::Send(&["Propose"])]),
            via(Client, "recv_while_confirm", true, vec![S::Recv(&["Accept", "Refuse", "QueryReply"])]),
            via(Client, "handshake", true, vec![S::Send(&["Propose"]), S::Recv(&["Accept", "Refuse", "QueryReply"])]),
            via(Server, "send_message", false, vec![S::Send(HS_MSGS)]),
            via(Server, "recv_message", false, vec![S::Recv(HS_MSGS)]),
            via(Server, "receive_proposed_versions", true, vec![S::Recv(&["Propose"])]),
            via(Server, "accept_version", true, vec![S::Send(&["Accept"])]),
            via(Server, "refuse", true, vec![S::Send(&["Refuse"])]),
            via(Server, "handshake", true, vec![S::Recv(&["Propose"]), S::Send(&["Accept"])]),
        ]
    }
    fn wire(&self, msg: &str) -> Vec<u8> {
        enc(&Self::msg(msg))
    }
    async fn drive(&mut self, msg: &str) -> Res {
        match msg {
            "Propose" => {
                r(self.c.send_propose(Self::table()).await)?;
                r(self.s.receive_proposed_versions().await)
            }
            "Accept" => {
                r(self.s.accept_version(32784, Self::vd()).await)?;
                r(self.c.recv_while_confirm().await)
            }
            "Refuse" => {
                r(self.s.refuse(handshake::RefuseReason::Refused(32784, "no".into())).await)?;
                r(self.c.recv_while_confirm().await)
            }
            "QueryReply" => {
                // the server agent has no method that sends QueryReply
                self.s_blind = true;
                self.deliver(Client, "QueryReply").await;
                r(self.c.recv_while_confirm().await)
            }
            _ => Err(format!("nodrive {msg}")),
        }
    }
    async fn call(&mut self, role: Role, via: &str, sel: &[String]) -> Res {
        match (role, via) {
            (Client, "send_message") => r(self.c.send_message(&Self::msg(&sel[0])).await),
            (Client, "recv_message") => r(self.c.recv_message().await),
            (Client, "send_propose") => r(self.c.send_propose(Self::table()).await),
            (Client, "recv_while_confirm") => r(self.c.recv_while_confirm().await),
            (Client, "handshake") => r(self.c.handshake(Self::table()).await),
            (Server, "send_message") => r(self.s.send_message(&Self::msg(&sel[0])).await),
            (Server, "recv_message") => r(self.s.recv_message().await),
            (Server, "receive_proposed_versions") => r(self.s.receive_proposed_versions().await),
            (Server, "accept_version") => r(self.s.accept_version(32784, Self::vd()).await),
            (Server, "refuse") => r(self.s.refuse(handshake::RefuseReason::Refused(32784, "no".into())).await),
            (Server, "handshake") => r(self.s.handshake(Self::table()).await),
            _ => die(&format!("handshake_n2c: no via {via}")),
        }
    }
}


// =============================================================== chainsync
const CS_MSGS: &[&str] = &[
    "RequestNext", "AwaitReply", "RollForward", "RollBackward", "FindIntersect", "IntersectFound",
    "IntersectNotFound", "Done",
];
pub struct Cs {
    c: chainsync::N2NClient,
    s: chainsync::N2NServer,
    rc: AgentChannel,
    rs: AgentChannel,
}
impl Cs {
    fn tip() -> chainsync::Tip {
        chainsync::Tip(point(), 9)
    }
    fn header() -> chainsync::HeaderContent {
        chainsync::HeaderContent { variant: 1, byron_prefix: None, cbor: vec![0x82, 0x01, 0x02] }
    }
    fn msg(m: &str) -> chainsync::Message<chainsync::HeaderContent> {
        use chainsync::Message as M;
        match m {
            "RequestNext" => M::RequestNext,
            "AwaitReply" => M::AwaitReply,
            "RollForward" => M::RollForward(Self::header(), Self::tip()),
            "RollBackward" => M::RollBackward(point(), Self::tip()),
            "FindIntersect" => M::FindIntersect(vec![point(), Point::Origin]),
            "IntersectFound" => M::IntersectFound(point(), Self::tip()),
            "IntersectNotFound" => M::IntersectNotFound(Self::tip()),
            "Done" => M::Done,
            _ => die(&format!("chainsync: no message {m}")),
        }
    }
}
impl Proto for Cs {
    const NAME: &'static str = "chainsync";
    const ID: u16 = 2;
    const MSGS: &'static [&'static str] = CS_MSGS;
    fn new(mut ch: Chans) -> Self {
        Cs {
            c: chainsync::Client::new(ch.c.take().unwrap()),
            s: chainsync::Server::new(ch.s.take().unwrap()),
            rc: ch.raw_to_c,
            rs: ch.raw_to_s,
        }
    }
    fn state(&self, role: Role) -> String {
        if role == Client { dbg_state(self.c.state()) } else { dbg_state(self.s.state()) }
    }
    fn raw(&mut self, to: Role) -> &mut AgentChannel {
        if to == Client { &mut self.rc } else { &mut self.rs }
    }
    fn vias() -> Vec<Via> {
        vec![
            via(Client, "send_message", false, vec![S::Send(CS_MSGS)]),
            via(Client, "recv_message", false, vec![S::Recv(CS_MSGS)]),
            via(Client, "send_find_intersect", true, vec![S::Send(&["FindIntersect"])]),
            via(Client, "recv_intersect_response", true, vec![S::Recv(&["IntersectFound", "IntersectNotFound"])]),
            via(Client, "find_intersect", true, vec![S::Send(&["FindIntersect"]), S::Recv(&["IntersectFound", "IntersectNotFound"])]),
            via(Client, "send_request_next", true, vec![S::Send(&["RequestNext"])]),
            via(Client, "recv_while_can_await", true, vec![S::Recv(&["AwaitReply", "RollForward", "RollBackward"])]),
            via(Client, "recv_while_must_reply", true, vec![S::Recv(&["RollForward", "RollBackward"])]),
            via(Client, "request_next", true, vec![S::Send(&["RequestNext"]), S::Recv(&["AwaitReply", "RollForward", "RollBackward"])]),
            via(Client, "send_done", true, vec![S::Send(&["Done"])]),
            via(Server, "send_message", false, vec![S::Send(CS_MSGS)]),
            // recv_message is private; recv_while_idle is the only inbound entry point
            via(Server, "recv_while_idle", true, vec![S::Recv(CS_MSGS)]),
            via(Server, "send_intersect_not_found", true, vec![S::Send(&["IntersectNotFound"])]),
            via(Server, "send_intersect_found", true, vec![S::Send(&["IntersectFound"])]),
            via(Server, "send_roll_forward", true, vec![S::Send(&["RollForward"])]),
            via(Server, "send_roll_backward", true, vec![S::Send(&["RollBackward"])]),
            via(Server, "send_await_reply", true, vec![S::Send(&["AwaitReply"])]),
        ]
    }
    fn wire(&self, msg: &str) -> Vec<u8> {
        enc(&Self::msg(msg))
    }
    async fn drive(&mut self, msg: &str) -> Res {
        match msg {
            "RequestNext" => {
                r(self.c.send_request_next().await)?;
                r(self.s.recv_while_idle().await)
            }
            "FindIntersect" => {
                r(self.c.send_find_intersect(vec![point()]).await)?;
                r(self.s.recv_while_idle().await)
            }
            "Done" => {
                r(self.c.send_done().await)?;
                r(self.s.recv_while_idle().await)
            }
            "AwaitReply" => {
                r(self.s.send_await_reply().await)?;
                r(self.c.recv_while_can_await().await)
            }
            "RollForward" | "RollBackward" => {
                if msg == "RollForward" {
                    r(self.s.send_roll_forward(Self::header(), Self::tip()).await)?;
                } else {
                    r(self.s.send_roll_backward(point(), Self::tip()).await)?;
                }
                if *self.c.state() == chainsync::State::MustReply {
                    r(self.c.recv_while_must_reply().await)
                } else {
                    r(self.c.recv_while_can_await().await)
                }
            }
            "IntersectFound" => {
                r(self.s.send_intersect_found(point(), Self::tip()).await)?;
                r(self.c.recv_intersect_response().await)
            }
            "IntersectNotFound" => {
                r(self.s.send_intersect_not_found(Self::tip()).await)?;
                r(self.c.recv_intersect_response().await)
            }
            _ => Err(format!("nodrive {msg}")),
        }
    }
    async fn call(&mut self, role: Role, via: &str, sel: &[String]) -> Res {
        match (role, via) {
            (Client, "send_message") => r(self.c.send_message(&Self::msg(&sel[0])).await),
            (Client, "recv_message") => r(self.c.recv_message().await),
            (Client, "send_find_intersect") => r(self.c.send_find_intersect(vec![point()]).await),
            (Client, "recv_intersect_response") => r(self.c.recv_intersect_response().await),
            (Client, "find_intersect") => r(self.c.find_intersect(vec![point()]).await),
            (Client, "send_request_next") => r(self.c.send_request_next().await),
            (Client, "recv_while_can_await") => r(self.c.recv_while_can_await().await),
            (Client, "recv_while_must_reply") => r(self.c.recv_while_must_reply().await),
            (Client, "request_next") => r(self.c.request_next().await),
            (Client, "send_done") => r(self.c.send_done().await),
            (Server, "send_message") => r(self.s.send_message(&Self::msg(&sel[0])).await),
            (Server, "recv_while_idle") => r(self.s.recv_while_idle().await),
            (Server, "send_intersect_not_found") => r(self.s.send_intersect_not_found(Self::tip()).await),
            (Server, "send_intersect_found") => r(self.s.send_intersect_found(point(), Self::tip()).await),
            (Server, "send_roll_forward") => r(self.s.send_roll_forward(Self::header(), Self::tip()).await),
            (Server, "send_roll_backward") => r(self.s.send_roll_backward(point(), Self::tip()).await),
            (Server, "send_await_reply") => r(self.s.send_await_reply().await),
            _ => die(&format!("chainsync: no via {via}")),
        }
    }
}

// ============================================================== blockfetch
const BF_MSGS: &[&str] = &["RequestRange", "ClientDone", "StartBatch", "NoBlocks", "Block", "BatchDone"];
pub struct Bf {
    c: blockfetch::Client,
    s: blockfetch::Server,
    rc: AgentChannel,
    rs: AgentChannel,
}
impl Bf {
    fn msg(m: &str) -> blockfetch::Message {
        use blockfetch::Message as M;
        match m {
            "RequestRange" => M::RequestRange { range: (point(), point()) },
            "ClientDone" => M::ClientDone,
            "StartBatch" => M::StartBatch,
            "NoBlocks" => M::NoBlocks,
            "Block" => M::Block { body: vec![0x82, 0x01, 0x02] },
            "BatchDone" => M::BatchDone,
            _ => die(&format!("blockfetch: no message {m}")),
        }
    }
}
impl Proto for Bf {
    const NAME: &'static str = "blockfetch";
    const ID: u16 = 3;
    const MSGS: &'static [&'static str] = BF_MSGS;
    fn new(mut ch: Chans) -> Self {
        Bf {
            c: blockfetch::Client::new(ch.c.take().unwrap()),
            s: blockfetch::Server::new(ch.s.take().unwrap()),
            rc: ch.raw_to_c,
            rs: ch.raw_to_s,
        }
    }
    fn state(&self, role: Role) -> String {
        if role == Client { dbg_state(self.c.state()) } else { dbg_state(self.s.state()) }
    }
    fn raw(&mut self, to: Role) -> &mut AgentChannel {
        if to == Client { &mut self.rc } else { &mut self.rs }
    }
    fn vias() -> Vec<Via> {
        vec![
            via(Client, "send_message", false, vec![S::Send(BF_MSGS)]),
            via(Client, "recv_message", false, vec![S::Recv(BF_MSGS)]),
            via(Client, "send_request_range", true, vec![S::Send(&["RequestRange"])]),
            via(Client, "recv_while_busy", true, vec![S::Recv(&["StartBatch", "NoBlocks"])]),
            via(Client, "request_range", true, vec![S::Send(&["RequestRange"]), S::Recv(&["StartBatch", "NoBlocks"])]),
            via(Client, "recv_while_streaming", true, vec![S::Recv(&["Block", "BatchDone"])]),
            via(Client, "send_done", true, vec![S::Send(&["ClientDone"])]),
            via(Server, "send_message", false, vec![S::Send(BF_MSGS)]),
            via(Server, "recv_message", false, vec![S::Recv(BF_MSGS)]),
            via(Server, "send_start_batch", true, vec![S::Send(&["StartBatch"])]),
            via(Server, "send_no_blocks", true, vec![S::Send(&["NoBlocks"])]),
            via(Server, "send_block", true, vec![S::Send(&["Block"])]),
            via(Server, "send_batch_done", true, vec![S::Send(&["BatchDone"])]),
            via(Server, "recv_while_idle", true, vec![S::Recv(&["RequestRange", "ClientDone"])]),
        ]
    }
    fn wire(&self, msg: &str) -> Vec<u8> {
        enc(&Self::msg(msg))
    }
    async fn drive(&mut self, msg: &str) -> Res {
        match msg {
            "RequestRange" => {
                r(self.c.send_request_range((point(), point())).await)?;
                r(self.s.recv_while_idle().await)
            }
            "ClientDone" => {
                r(self.c.send_done().await)?;
                r(self.s.recv_while_idle().await)
            }
            "StartBatch" => {
                r(self.s.send_start_batch().await)?;
                r(self.c.recv_while_busy().await)
            }
            "NoBlocks" => {
                r(self.s.send_no_blocks().await)?;
                r(self.c.recv_while_busy().await)
            }
            "Block" => {
                r(self.s.send_block(vec![0x82, 0x01, 0x02]).await)?;
                r(self.c.recv_while_streaming().await)
            }
            "BatchDone" => {
                r(self.s.send_batch_done().await)?;
                r(self.c.recv_while_streaming().await)
            }
            _ => Err(format!("nodrive {msg}")),
        }
    }
    async fn call(&mut self, role: Role, via: &str, sel: &[String]) -> Res {
        match (role, via) {
            (Client, "send_message") => r(self.c.send_message(&Self::msg(&sel[0])).await),
            (Client, "recv_message") => r(self.c.recv_message().await),
            (Client, "send_request_range") => r(self.c.send_request_range((point(), point())).await),
            (Client, "recv_while_busy") => r(self.c.recv_while_busy().await),
            (Client, "request_range") => r(self.c.request_range((point(), point())).await),
            (Client, "recv_while_streaming") => r(self.c.recv_while_streaming().await),
            (Client, "send_done") => r(self.c.send_done().await),
            (Server, "send_message") => r(self.s.send_message(&Self::msg(&sel[0])).await),
            (Server, "recv_message") => r(self.s.recv_message().await),
            (Server, "send_start_batch") => r(self.s.send_start_batch().await),
            (Server, "send_no_blocks") => r(self.s.send_no_blocks().await),
            (Server, "send_block") => r(self.s.send_block(vec![0x82, 0x01, 0x02]).await),
            (Server, "send_batch_done") => r(self.s.send_batch_done().await),
            (Server, "recv_while_idle") => r(self.s.recv_while_idle().await),
            _ => die(&format!("blockfetch: no via {via}")),
        }
    }
}

// ============================================================ txsubmission
const TX_MSGS: &[&str] = &[
    "Init", "RequestTxIdsBlocking", "RequestTxIdsNonBlocking", "ReplyTxIds", "RequestTxs", "ReplyTxs", "Done",
];
pub struct Tx {
    c: txsubmission::Client,
    s: txsubmission::Server,
    rc: AgentChannel,
    rs: AgentChannel,
}
impl Tx {
    fn id() -> txsubmission::EraTxId {
        txsubmission::EraTxId(6, vec![3u8; 32])
    }
    fn ids() -> Vec<txsubmission::TxIdAndSize<txsubmission::EraTxId>> {
        vec![txsubmission::TxIdAndSize(Self::id(), 100)]
    }
    fn bodies() -> Vec<txsubmission::EraTxBody> {
        vec![txsubmission::EraTxBody(6, vec![0x82, 0x01, 0x02])]
    }
    fn msg(m: &str) -> txsubmission::Message<txsubmission::EraTxId, txsubmission::EraTxBody> {
        use txsubmission::Message as M;
        match m {
            "Init" => M::Init,
            "RequestTxIdsBlocking" => M::RequestTxIds(true, 0, 2),
            "RequestTxIdsNonBlocking" => M::RequestTxIds(false, 0, 2),
            "ReplyTxIds" => M::ReplyTxIds(Self::ids()),
            "RequestTxs" => M::RequestTxs(vec![Self::id()]),
            "ReplyTxs" => M::ReplyTxs(Self::bodies()),
            "Done" => M::Done,
            _ => die(&format!("txsubmission: no message {m}")),
        }
    }
}
impl Proto for Tx {
    const NAME: &'static str = "txsubmission";
    const ID: u16 = 4;
    const MSGS: &'static [&'static str] = TX_MSGS;
    fn new(mut ch: Chans) -> Self {
        Tx {
            c: txsubmission::Client::new(ch.c.take().unwrap()),
            s: txsubmission::Server::new(ch.s.take().unwrap()),
            rc: ch.raw_to_c,
            rs: ch.raw_to_s,
        }
    }
    fn state(&self, role: Role) -> String {
        if role == Client { dbg_state(self.c.state()) } else { dbg_state(self.s.state()) }
    }
    fn raw(&mut self, to: Role) -> &mut AgentChannel {
        if to == Client { &mut self.rc } else { &mut self.rs }
    }
    fn vias() -> Vec<Via> {
        vec![
            via(Client, "send_message", false, vec![S::Send(TX_MSGS)]),
            via(Client, "recv_message", false, vec![S::Recv(TX_MSGS)]),
            via(Client, "send_init", true, vec![S::Send(&["Init"])]),
            via(Client, "reply_tx_ids", true, vec![S::Send(&["ReplyTxIds"])]),
            via(Client, "reply_txs", true, vec![S::Send(&["ReplyTxs"])]),
            via(Client, "next_request", true, vec![S::Recv(&["RequestTxIdsBlocking", "RequestTxIdsNonBlocking", "RequestTxs"])]),
            via(Client, "send_done", true, vec![S::Send(&["Done"])]),
            via(Server, "send_message", false, vec![S::Send(TX_MSGS)]),
            via(Server, "recv_message", false, vec![S::Recv(TX_MSGS)]),
            via(Server, "wait_for_init", true, vec![S::Recv(&["Init"])]),
            via(Server, "request_tx_ids_blocking", true, vec![S::Send(&["RequestTxIdsBlocking"])]),
            via(Server, "request_tx_ids_nonblocking", true, vec![S::Send(&["RequestTxIdsNonBlocking"])]),
            via(Server, "request_txs", true, vec![S::Send(&["RequestTxs"])]),
            via(Server, "receive_next_reply", true, vec![S::Recv(&["ReplyTxIds", "ReplyTxs", "Done"])]),
        ]
    }
    fn wire(&self, msg: &str) -> Vec<u8> {
        enc(&Self::msg(msg))
    }
    async fn drive(&mut self, msg: &str) -> Res {
        match msg {
            "Init" => {
                r(self.c.send_init().await)?;
                r(self.s.wait_for_init().await)
            }
            "RequestTxIdsBlocking" | "RequestTxIdsNonBlocking" => {
                r(self.s.acknowledge_and_request_tx_ids(msg == "RequestTxIdsBlocking", 0, 2).await)?;
                r(self.c.next_request().await)
            }
            "RequestTxs" => {
                r(self.s.request_txs(vec![Self::id()]).await)?;
                r(self.c.next_request().await)
            }
            "ReplyTxIds" => {
                r(self.c.reply_tx_ids(Self::ids()).await)?;
                r(self.s.receive_next_reply().await)
            }
            "ReplyTxs" => {
                r(self.c.reply_txs(Self::bodies()).await)?;
                r(self.s.receive_next_reply().await)
            }
            "Done" => {
                r(self.c.send_done().await)?;
                r(self.s.receive_next_reply().await)
            }
            _ => Err(format!("nodrive {msg}")),
        }
    }
    async fn call(&mut self, role: Role, via: &str, sel: &[String]) -> Res {
        match (role, via) {
            (Client, "send_message") => r(self.c.send_message(&Self::msg(&sel[0])).await),
            (Client, "recv_message") => r(self.c.recv_message().await),
            (Client, "send_init") => r(self.c.send_init().await),
            (Client, "reply_tx_ids") => r(self.c.reply_tx_ids(Self::ids()).await),
            (Client, "reply_txs") => r(self.c.reply_txs(Self::bodies()).await),
            (Client, "next_request") => r(self.c.next_request().await),
            (Client, "send_done") => r(self.c.send_done().await),
            (Server, "send_message") => r(self.s.send_message(&Self::msg(&sel[0])).await),
            (Server, "recv_message") => r(self.s.recv_message().await),
            (Server, "wait_for_init") => r(self.s.wait_for_init().await),
            (Server, "request_tx_ids_blocking") => r(self.s.acknowledge_and_request_tx_ids(true, 0, 2).await),
            (Server, "request_tx_ids_nonblocking") => r(self.s.acknowledge_and_request_tx_ids(false, 0, 2).await),
            (Server, "request_txs") => r(self.s.request_txs(vec![Self::id()]).await),
            (Server, "receive_next_reply") => r(self.s.receive_next_reply().await),
            _ => die(&format!("txsubmission: no via {via}")),
        }
    }
}

// =============================================================== keepalive
const KA_MSGS: &[&str] = &["KeepAlive", "ResponseKeepAlive", "Done"];
pub struct Ka {
    c: keepalive::Client,
    s: keepalive::Server,
    rc: AgentChannel,
    rs: AgentChannel,
    c_blind: bool,
}
impl Ka {
    fn msg(&self, m: &str) -> keepalive::Message {
        match m {
            "KeepAlive" => keepalive::Message::KeepAlive(77),
            // echo the cookie the client is waiting for (a mismatch is a data-level
            // error the tables do not speak about)
            "ResponseKeepAlive" => keepalive::Message::ResponseKeepAlive(match self.c.state() {
                keepalive::State::Server(c) => *c,
                _ => 77,
            }),
            "Done" => keepalive::Message::Done,
            _ => die(&format!("keepalive: no message {m}")),
        }
    }
}
impl Proto for Ka {
    const NAME: &'static str = "keepalive";
    const ID: u16 = 8;
    const MSGS: &'static [&'static str] = KA_MSGS;
    fn new(mut ch: Chans) -> Self {
        Ka {
            c: keepalive::Client::new(ch.c.take().unwrap()),
            s: keepalive::Server::new(ch.s.take().unwrap()),
            rc: ch.raw_to_c,
            rs: ch.raw_to_s,
            c_blind: false,
        }
    }
    fn state(&self, role: Role) -> String {
        match role {
            Client if self.c_blind => String::new(),
            Client => dbg_state(self.c.state()),
            Server => dbg_state(self.s.state()),
        }
    }
    fn raw(&mut self, to: Role) -> &mut AgentChannel {
        if to == Client { &mut self.rc } else { &mut self.rs }
    }
    fn vias() -> Vec<Via> {
        let mut v = vec![
            via(Client, "send_message", false, vec![S::Send(KA_MSGS)]),
            via(Client, "recv_message", false, vec![S::Recv(KA_MSGS)]),
            via(Client, "send_keepalive_request", true, vec![S::Send(&["KeepAlive"])]),
            via(Client, "recv_keepalive_response", true, vec![S::Recv(&["ResponseKeepAlive"])]),
            via(Server, "send_message", false, vec![S::Send(KA_MSGS)]),
            via(Server, "recv_message", false, vec![S::Recv(KA_MSGS)]),
            via(Server, "recv_keepalive_request", true, vec![S::Recv(&["KeepAlive", "Done"])]),
        ];
        // "echo back the cookie of the most recent request": a no-op without one
        v.push(Via { role: Server, name: "send_keepalive_response", commit: true, cond: true, steps: vec![S::Send(&["ResponseKeepAlive"])] });
        v
    }
    fn wire(&self, msg: &str) -> Vec<u8> {
        enc(&self.msg(msg))
    }
    fn bad_wires(&self, msg: &str) -> Vec<(&'static str, Vec<u8>)> {
        let mut v: Vec<(&'static str, Vec<u8>)> =
            malformed(&self.wire(msg)).map(|b| vec![("malformed", b)]).unwrap_or_default();
        if msg == "ResponseKeepAlive" {
            if let keepalive::Message::ResponseKeepAlive(c) = self.msg(msg) {
                v.push(("cookie", enc(&keepalive::Message::ResponseKeepAlive(c ^ 0x5555))));
            }
        }
        v
    }
    async fn drive(&mut self, msg: &str) -> Res {
        match msg {
            "KeepAlive" => {
                r(self.c.send_keepalive_request().await)?;
                r(self.s.recv_keepalive_request().await)
            }
            "ResponseKeepAlive" => {
                r(self.s.send_keepalive_response().await)?;
                r(self.c.recv_keepalive_response().await)
            }
            "Done" => {
                // the client agent has no committing method that sends Done
                self.c_blind = true;
                r(self.c.send_message(&keepalive::Message::Done).await)?;
                r(self.s.recv_keepalive_request().await)
            }
            _ => Err(format!("nodrive {msg}")),
        }
    }
    async fn call(&mut self, role: Role, via: &str, sel: &[String]) -> Res {
        match (role, via) {
            (Client, "send_message") => {
                let m = self.msg(&sel[0]);
                r(self.c.send_message(&m).await)
            }
            (Client, "recv_message") => r(self.c.recv_message().await),
            (Client, "send_keepalive_request") => r(self.c.send_keepalive_request().await),
            (Client, "recv_keepalive_response") => r(self.c.recv_keepalive_response().await),
            (Server, "send_message") => {
                let m = self.msg(&sel[0]);
                r(self.s.send_message(&m).await)
            }
            (Server, "recv_message") => r(self.s.recv_message().await),
            (Server, "recv_keepalive_request") => r(self.s.recv_keepalive_request().await),
            (Server, "send_keepalive_response") => r(self.s.send_keepalive_response().await),
            _ => die(&format!("keepalive: no via {via}")),
        }
    }
}

// ============================================================= peersharing
const PS_MSGS: &[&str] = &["ShareRequest", "SharePeers", "Done"];
pub struct Ps {
    c: peersharing::Client,
    s: peersharing::Server,
    rc: AgentChannel,
    rs: AgentChannel,
}
impl Ps {
    fn peers() -> Vec<peersharing::PeerAddress> {
        vec![peersharing::PeerAddress::V4(std::net::Ipv4Addr::new(10, 0, 0, 1), 3001)]
    }
    fn msg(m: &str) -> peersharing::Message {
        match m {
            "ShareRequest" => peersharing::Message::ShareRequest(3),
            "SharePeers" => peersharing::Message::SharePeers(Self::peers()),
            "Done" => peersharing::Message::Done,
            _ => die(&format!("peersharing: no message {m}")),
        }
    }
}
impl Proto for Ps {
    const NAME: &'static str = "peersharing";
    const ID: u16 = 10;
    const MSGS: &'static [&'static str] = PS_MSGS;
    fn new(mut ch: Chans) -> Self {
        Ps {
            c: peersharing::Client::new(ch.c.take().unwrap()),
            s: peersharing::Server::new(ch.s.take().unwrap()),
            rc: ch.raw_to_c,
            rs: ch.raw_to_s,
        }
    }
    fn state(&self, role: Role) -> String {
        if role == Client { dbg_state(self.c.state()) } else { dbg_state(self.s.state()) }
    }
    fn raw(&mut self, to: Role) -> &mut AgentChannel {
        if to == Client { &mut self.rc } else { &mut self.rs }
    }
    fn vias() -> Vec<Via> {
        vec![
            via(Client, "send_message", false, vec![S::Send(PS_MSGS)]),
            via(Client, "recv_message", false, vec![S::Recv(PS_MSGS)]),
            via(Client, "send_share_request", true, vec![S::Send(&["ShareRequest"])]),
            via(Client, "recv_peer_addresses", true, vec![S::Recv(&["SharePeers"])]),
            via(Client, "send_done", true, vec![S::Send(&["Done"])]),
            via(Server, "send_message", false, vec![S::Send(PS_MSGS)]),
            via(Server, "recv_message", false, vec![S::Recv(PS_MSGS)]),
            via(Server, "recv_share_request", true, vec![S::Recv(&["ShareRequest", "Done"])]),
            via(Server, "send_peer_addresses", true, vec![S::Send(&["SharePeers"])]),
        ]
    }
    fn wire(&self, msg: &str) -> Vec<u8> {
        enc(&Self::msg(msg))
    }
    async fn drive(&mut self, msg: &str) -> Res {
        match msg {
            "ShareRequest" => {
                r(self.c.send_share_request(3).await)?;
                r(self.s.recv_share_request().await)
            }
            "SharePeers" => {
                r(self.s.send_peer_addresses(Self::peers()).await)?;
                r(self.c.recv_peer_addresses().await)
            }
            "Done" => {
                r(self.c.send_done().await)?;
                r(self.s.recv_share_request().await)
            }
            _ => Err(format!("nodrive {msg}")),
        }
    }
    async fn call(&mut self, role: Role, via: &str, sel: &[String]) -> Res {
        match (role, via) {
            (Client, "send_message") => r(self.c.send_message(&Self::msg(&sel[0])).await),
            (Client, "recv_message") => r(self.c.recv_message().await),
            (Client, "send_share_request") => r(self.c.send_share_request(3).await),
            (Client, "recv_peer_addresses") => r(self.c.recv_peer_addresses().await),
            (Client, "send_done") => r(self.c.send_done().await),
            (Server, "send_message") => r(self.s.send_message(&Self::msg(&sel[0])).await),
            (Server, "recv_message") => r(self.s.recv_message().await),
            (Server, "recv_share_request") => r(self.s.recv_share_request().await),
            (Server, "send_peer_addresses") => r(self.s.send_peer_addresses(Self::peers()).await),
            _ => die(&format!("peersharing: no via {via}")),
        }
    }
}

// ============================================================== localstate
const LS_MSGS: &[&str] = &["Acquire", "Failure", "Acquired", "Query", "Result", "ReAcquire", "Release", "Done"];
pub struct Ls {
    c: localstate::Client,
    s: localstate::Server,
    rc: AgentChannel,
    rs: AgentChannel,
}
impl Ls {
    fn any(n: u8) -> AnyCbor {
        AnyCbor::from_encode(n)
    }
    fn msg(m: &str) -> localstate::Message {
        use localstate::Message as M;
        match m {
            "Acquire" => M::Acquire(None),
            "Failure" => M::Failure(localstate::AcquireFailure::PointTooOld),
            "Acquired" => M::Acquired,
            "Query" => M::Query(Self::any(1)),
            "Result" => M::Result(Self::any(2)),
            "ReAcquire" => M::ReAcquire(None),
            "Release" => M::Release,
            "Done" => M::Done,
            _ => die(&format!("localstate: no message {m}")),
        }
    }
}
impl Proto for Ls {
    const NAME: &'static str = "localstate";
    const ID: u16 = 7;
    const MSGS: &'static [&'static str] = LS_MSGS;
    fn new(mut ch: Chans) -> Self {
        Ls {
            c: localstate::Client::new(ch.c.take().unwrap()),
            s: localstate::Server::new(ch.s.take().unwrap()),
            rc: ch.raw_to_c,
            rs: ch.raw_to_s,
        }
    }
    fn state(&self, role: Role) -> String {
        if role == Client { dbg_state(self.c.state()) } else { dbg_state(self.s.state()) }
    }
    fn raw(&mut self, to: Role) -> &mut AgentChannel {
        if to == Client { &mut self.rc } else { &mut self.rs }
    }
    fn vias() -> Vec<Via> {
        vec![
            via(Client, "send_message", false, vec![S::Send(LS_MSGS)]),
            via(Client, "recv_message", false, vec![S::Recv(LS_MSGS)]),
            via(Client, "send_acquire", true, vec![S::Send(&["Acquire"])]),
            via(Client, "send_reacquire", true, vec![S::Send(&["ReAcquire"])]),
            via(Client, "send_release", true, vec![S::Send(&["Release"])]),
            via(Client, "send_done", true, vec![S::Send(&["Done"])]),
            via(Client, "recv_while_acquiring", true, vec![S::Recv(&["Acquired", "Failure"])]),
            via(Client, "acquire", true, vec![S::Send(&["Acquire"]), S::Recv(&["Acquired", "Failure"])]),
            via(Client, "send_query", true, vec![S::Send(&["Query"])]),
            via(Client, "recv_while_querying", true, vec![S::Recv(&["Result"])]),
            via(Client, "query_any", true, vec![S::Send(&["Query"]), S::Recv(&["Result"])]),
            via(Server, "send_message", false, vec![S::Send(LS_MSGS)]),
            via(Server, "recv_message", false, vec![S::Recv(LS_MSGS)]),
            via(Server, "send_failure", true, vec![S::Send(&["Failure"])]),
            via(Server, "send_acquired", true, vec![S::Send(&["Acquired"])]),
            via(Server, "send_result", true, vec![S::Send(&["Result"])]),
            via(Server, "recv_while_idle", true, vec![S::Recv(&["Acquire", "Done"])]),
            via(Server, "recv_while_acquired", true, vec![S::Recv(&["ReAcquire", "Query", "Release"])]),
        ]
    }
    fn wire(&self, msg: &str) -> Vec<u8> {
        enc(&Self::msg(msg))
    }
    async fn drive(&mut self, msg: &str) -> Res {
        match msg {
            "Acquire" => {
                r(self.c.send_acquire(None).await)?;
                r(self.s.recv_while_idle().await)
            }
            "Done" => {
                r(self.c.send_done().await)?;
                r(self.s.recv_while_idle().await)
            }
            "Acquired" => {
                r(self.s.send_acquired().await)?;
                r(self.c.recv_while_acquiring().await)
            }
            "Failure" => {
                r(self.s.send_failure(localstate::AcquireFailure::PointTooOld).await)?;
                // reports the failure as Err(AcquirePointTooOld): an outcome, not a rejection
                match r(self.c.recv_while_acquiring().await) {
                    Err(e) if e.starts_with("Acquire") => Ok(()),
                    x => x,
                }
            }
            "Query" => {
                r(self.c.send_query(Self::any(1)).await)?;
                r(self.s.recv_while_acquired().await)
            }
            "ReAcquire" => {
                r(self.c.send_reacquire(None).await)?;
                r(self.s.recv_while_acquired().await)
            }
            "Release" => {
                r(self.c.send_release().await)?;
                r(self.s.recv_while_acquired().await)
            }
            "Result" => {
                r(self.s.send_result(Self::any(2)).await)?;
                r(self.c.recv_while_querying().await)
            }
            _ => Err(format!("nodrive {msg}")),
        }
    }
    async fn call(&mut self, role: Role, via: &str, sel: &[String]) -> Res {
        match (role, via) {
            (Client, "send_message") => r(self.c.send_message(&Self::msg(&sel[0])).await),
            (Client, "recv_message") => r(self.c.recv_message().await),
            (Client, "send_acquire") => r(self.c.send_acquire(None).await),
            (Client, "send_reacquire") => r(self.c.send_reacquire(None).await),
            (Client, "send_release") => r(self.c.send_release().await),
            (Client, "send_done") => r(self.c.send_done().await),
            (Client, "recv_while_acquiring") => r(self.c.recv_while_acquiring().await),
            (Client, "acquire") => r(self.c.acquire(None).await),
            (Client, "send_query") => r(self.c.send_query(Self::any(1)).await),
            (Client, "recv_while_querying") => r(self.c.recv_while_querying().await),
            (Client, "query_any") => r(self.c.query_any(Self::any(1)).await),
            (Server, "send_message") => r(self.s.send_message(&Self::msg(&sel[0])).await),
            (Server, "recv_message") => r(self.s.recv_message().await),
            (Server, "send_failure") => r(self.s.send_failure(localstate::AcquireFailure::PointTooOld).await),
            (Server, "send_acquired") => r(self.s.send_acquired().await),
            (Server, "send_result") => r(self.s.send_result(Self::any(2)).await),
            (Server, "recv_while_idle") => r(self.s.recv_while_idle().await),
            (Server, "recv_while_acquired") => r(self.s.recv_while_acquired().await),
            _ => die(&format!("localstate: no via {via}")),
        }
    }
}

// ======================================================= localtxsubmission
const LT_MSGS: &[&str] = &["SubmitTx", "AcceptTx", "RejectTx", "Done"];
pub struct Lt {
    c: localtxsubmission::Client,
    s: localtxsubmission::Server,
    rc: AgentChannel,
    rs: AgentChannel,
    s_blind: bool,
}
impl Lt {
    fn tx() -> localtxsubmission::EraTx {
        localtxsubmission::EraTx(6, vec![0x82, 0x01, 0x02])
    }
    fn reject() -> localtxsubmission::TxValidationError {
        localtxsubmission::TxValidationError::ShelleyTxValidationError {
            error: localtxsubmission::ApplyTxError(vec![]),
            era: localtxsubmission::ShelleyBasedEra::Conway,
        }
    }
}
impl Proto for Lt {
    const NAME: &'static str = "localtxsubmission";
    const ID: u16 = 6;
    const MSGS: &'static [&'static str] = LT_MSGS;
    fn new(mut ch: Chans) -> Self {
        Lt {
            c: localtxsubmission::Client::new(ch.c.take().unwrap()),
            s: localtxsubmission::Server::new(ch.s.take().unwrap()),
            rc: ch.raw_to_c,
            rs: ch.raw_to_s,
            s_blind: false,
        }
    }
    fn state(&self, role: Role) -> String {
        match role {
            Client => dbg_state(self.c.state()),
            Server if self.s_blind => String::new(),
            Server => dbg_state(self.s.state()),
        }
    }
    fn raw(&mut self, to: Role) -> &mut AgentChannel {
        if to == Client { &mut self.rc } else { &mut self.rs }
    }
    fn vias() -> Vec<Via> {
        // send_message / recv_message are private in both agents
        vec![
            via(Client, "send_submit_tx", true, vec![S::Send(&["SubmitTx"])]),
            via(Client, "terminate_gracefully", true, vec![S::Send(&["Done"])]),
            via(Client, "recv_submit_tx_response", true, vec![S::Recv(LT_MSGS)]),
            via(Client, "submit_tx", true, vec![S::Send(&["SubmitTx"]), S::Recv(&["AcceptTx", "RejectTx"])]),
            via(Server, "send_submit_tx_response_accepted", true, vec![S::Send(&["AcceptTx"])]),
            via(Server, "send_submit_tx_response_rejected", true, vec![S::Send(&["RejectTx"])]),
            via(Server, "recv_next_request", true, vec![S::Recv(LT_MSGS)]),
        ]
    }
    fn wire(&self, msg: &str) -> Vec<u8> {
        use localtxsubmission::Message as M;
        type Mg = M<localtxsubmission::EraTx, localtxsubmission::TxValidationError>;
        match msg {
            "SubmitTx" => enc::<Mg>(&M::SubmitTx(Self::tx())),
            "AcceptTx" => enc::<Mg>(&M::AcceptTx),
            // [2, [[6, []]]] - the shape the decoder expects (the encoder of
            // TxValidationError writes one array level less; codec matter, C22)
            "RejectTx" => vec![0x82, 0x02, 0x81, 0x82, 0x06, 0x80],
            "Done" => enc::<Mg>(&M::Done),
            _ => die(&format!("localtxsubmission: no message {msg}")),
        }
    }
    async fn drive(&mut self, msg: &str) -> Res {
        match msg {
            // once the server is no longer followed (see RejectTx) only the client is driven
            "SubmitTx" => {
                r(self.c.send_submit_tx(Self::tx()).await)?;
                if self.s_blind { Ok(()) } else { r(self.s.recv_next_request().await) }
            }
            "Done" => {
                r(self.c.terminate_gracefully().await)?;
                if self.s_blind { Ok(()) } else { r(self.s.recv_next_request().await) }
            }
            "AcceptTx" => {
                if self.s_blind {
                    self.deliver(Client, "AcceptTx").await;
                } else {
                    r(self.s.send_submit_tx_response(localtxsubmission::Response::Accepted).await)?;
                }
                r(self.c.recv_submit_tx_response().await)
            }
            "RejectTx" => {
                use localtxsubmission::Message as M;
                type Mg = M<localtxsubmission::EraTx, localtxsubmission::TxValidationError>;
                let own = enc::<Mg>(&M::RejectTx(Self::reject()));
                if !self.s_blind && minicbor::decode::<Mg>(&own).is_ok() {
                    r(self.s.send_submit_tx_response(localtxsubmission::Response::Rejected(Self::reject())).await)?;
                } else {
                    // what the pallas server writes cannot be decoded by the pallas client
                    // (codec matter): a raw channel delivers a decodable RejectTx instead
                    // and the server is no longer followed
                    self.s_blind = true;
                    self.deliver(Client, "RejectTx").await;
                }
                r(self.c.recv_submit_tx_response().await)
            }
            _ => Err(format!("nodrive {msg}")),
        }
    }
    async fn call(&mut self, role: Role, via: &str, _sel: &[String]) -> Res {
        match (role, via) {
            (Client, "send_submit_tx") => r(self.c.send_submit_tx(Self::tx()).await),
            (Client, "terminate_gracefully") => r(self.c.terminate_gracefully().await),
            (Client, "recv_submit_tx_response") => r(self.c.recv_submit_tx_response().await),
            (Client, "submit_tx") => r(self.c.submit_tx(Self::tx()).await),
            (Server, "send_submit_tx_response_accepted") => {
                r(self.s.send_submit_tx_response(localtxsubmission::Response::Accepted).await)
            }
            (Server, "send_submit_tx_response_rejected") => {
                r(self.s.send_submit_tx_response(localtxsubmission::Response::Rejected(Self::reject())).await)
            }
            (Server, "recv_next_request") => r(self.s.recv_next_request().await),
            _ => die(&format!("localtxsubmission: no via {via}")),
        }
    }
}

// =============================================================== txmonitor
const TM_MSGS: &[&str] = &[
    "Acquire", "AwaitAcquire", "Acquired", "RequestHasTx", "RequestNextTx", "RequestSizeAndCapacity",
    "ResponseHasTx", "ResponseNextTx", "ResponseSizeAndCapacity", "Release", "Done",
];
pub struct Tm {
    c: txmonitor::Client,
    rc: AgentChannel,
    rs: AgentChannel,
}
impl Tm {
    fn msg(m: &str) -> txmonitor::Message {
        use txmonitor::Message as M;
        match m {
            "Acquire" => M::Acquire,
            "AwaitAcquire" => M::AwaitAcquire,
            "Acquired" => M::Acquired(7),
            "RequestHasTx" => M::RequestHasTx("00".repeat(32)),
            "RequestNextTx" => M::RequestNextTx,
            "RequestSizeAndCapacity" => M::RequestSizeAndCapacity,
            "ResponseHasTx" => M::ResponseHasTx(true),
            "ResponseNextTx" => M::ResponseNextTx(None),
            "ResponseSizeAndCapacity" => M::ResponseSizeAndCapacity(txmonitor::MempoolSizeAndCapacity {
                capacity_in_bytes: 100,
                size_in_bytes: 10,
                number_of_txs: 1,
            }),
            "Release" => M::Release,
            "Done" => M::Done,
            _ => die(&format!("txmonitor: no message {m}")),
        }
    }
    /// start a composite method and abandon it at its first suspension point
    /// (the request is out and committed, the reply has not arrived)
    async fn partial(&mut self, which: &str) -> Res {
        use std::future::Future;
        use std::task::Poll;
        let c = &mut self.c;
        let mut fut: std::pin::Pin<Box<dyn Future<Output = Res> + '_>> = match which {
            "Acquire" => Box::pin(async move { r(c.acquire().await) }),
            "RequestHasTx" => Box::pin(async move { r(c.query_has_tx("00".repeat(32)).await) }),
            "RequestNextTx" => Box::pin(async move { r(c.query_next_tx().await) }),
            _ => Box::pin(async move { r(c.query_size_and_capacity().await) }),
        };
        for _ in 0..3 {
            let p = std::future::poll_fn(|cx| Poll::Ready(fut.as_mut().poll(cx))).await;
            if let Poll::Ready(x) = p {
                return x;
            }
            tokio::task::yield_now().await;
        }
        Ok(())
    }
}
impl Proto for Tm {
    const NAME: &'static str = "txmonitor";
    const ID: u16 = 9;
    const MSGS: &'static [&'static str] = TM_MSGS;
    fn new(mut ch: Chans) -> Self {
        Tm { c: txmonitor::Client::new(ch.c.take().unwrap()), rc: ch.raw_to_c, rs: ch.raw_to_s }
    }
    fn state(&self, role: Role) -> String {
        if role == Client { dbg_state(self.c.state()) } else { String::new() }
    }
    fn raw(&mut self, to: Role) -> &mut AgentChannel {
        if to == Client { &mut self.rc } else { &mut self.rs }
    }
    fn vias() -> Vec<Via> {
        vec![
            via(Client, "send_message", false, vec![S::Send(TM_MSGS)]),
            via(Client, "recv_message", false, vec![S::Recv(TM_MSGS)]),
            via(Client, "acquire", true, vec![S::Send(&["Acquire"]), S::Recv(&["Acquired"])]),
            via(Client, "query_has_tx", true, vec![S::Send(&["RequestHasTx"]), S::Recv(&["ResponseHasTx"])]),
            via(Client, "query_next_tx", true, vec![S::Send(&["RequestNextTx"]), S::Recv(&["ResponseNextTx"])]),
            via(Client, "query_size_and_capacity", true,
                vec![S::Send(&["RequestSizeAndCapacity"]), S::Recv(&["ResponseSizeAndCapacity"])]),
            via(Client, "release", true, vec![S::Send(&["Release"])]),
        ]
    }
    fn wire(&self, msg: &str) -> Vec<u8> {
        enc(&Self::msg(msg))
    }
    async fn drive(&mut self, _msg: &str) -> Res {
        Err("nodrive".into())
    }
    /// no server agent and only composite committing methods: reach by target
    async fn reach(&mut self, path: &[String]) -> Res {
        let p: Vec<&str> = path.iter().map(|s| s.as_str()).collect();
        match p.as_slice() {
            [] => Ok(()),
            ["Acquire"] => self.partial("Acquire").await,
            ["Acquire", "Acquired"] => {
                self.deliver(Client, "Acquired").await;
                r(self.c.acquire().await)
            }
            ["Acquire", "Acquired", q @ ("RequestHasTx" | "RequestNextTx" | "RequestSizeAndCapacity")] => {
                self.deliver(Client, "Acquired").await;
                r(self.c.acquire().await)?;
                self.partial(q).await
            }
            _ => Err(format!("noreach {path:?}")),
        }
    }
    async fn call(&mut self, role: Role, via: &str, sel: &[String]) -> Res {
        match (role, via) {
            (Client, "send_message") => r(self.c.send_message(&Self::msg(&sel[0])).await),
            (Client, "recv_message") => r(self.c.recv_message().await),
            (Client, "acquire") => r(self.c.acquire().await),
            (Client, "query_has_tx") => r(self.c.query_has_tx("00".repeat(32)).await),
            (Client, "query_next_tx") => r(self.c.query_next_tx().await),
            (Client, "query_size_and_capacity") => r(self.c.query_size_and_capacity().await),
            (Client, "release") => r(self.c.release().await),
            _ => die(&format!("txmonitor: no via {via}")),
        }
    }
}

// ================================================================== engine
fn strs(v: &Value) -> Vec<String> {
    jarr(v).iter().map(|x| jstr(x).to_string()).collect()
}

/// all choices of one class per step
fn combos(steps: &[S]) -> Vec<Vec<String>> {
    let mut out: Vec<Vec<String>> = vec![vec![]];
    for s in steps {
        let classes = match s {
            S::Send(c) | S::Recv(c) => *c,
        };
        let mut next = vec![];
        for pre in &out {
            for c in classes {
                let mut v = pre.clone();
                v.push(c.to_string());
                next.push(v);
            }
        }
        out = next;
    }
    out
}

const OTHER_KIND: usize = usize::MAX;

/// `bad` = Some((k, n)): the k-th step (a recv) is delivered with the n-th bad payload of its class
async fn probe<P: Proto>(
    out: &mut Ndjson,
    v: &Via,
    path: &[String],
    want_state: &str,
    sel: &[String],
    bad: Option<(usize, usize)>,
) {
    let (chans, pa, pb) = link(P::ID).await;
    let mut p = P::new(chans);
    let reached = tokio::time::timeout(Duration::from_secs(10), p.reach(path)).await;
    let state = p.state(v.role);
    let peer = p.state(v.role.peer());
    let steps: Vec<Value> = v
        .steps
        .iter()
        .zip(sel.iter())
        .map(|(s, c)| json!({"dir": if matches!(s, S::Send(_)) { "send" } else { "recv" }, "msg": c}))
        .collect();
    if !matches!(reached, Ok(Ok(()))) || state != want_state {
        // the state could not be set up with the committing methods along a valid path:
        // logged as it happened (TraceAgent accepts a reach event only if it succeeded)
        let why = match reached {
            Ok(Ok(())) => String::new(),
            Ok(Err(e)) => e,
            Err(_) => "Timeout".to_string(),
        };
        out.ev(json!({"ev": "reach", "proto": P::NAME, "role": v.role.name(), "path": path, "want": want_state,
                      "state": state, "err": why}));
    } else {
        let mut badkind = "";
        for (i, (s, c)) in v.steps.iter().zip(sel.iter()).enumerate() {
            if matches!(s, S::Recv(_)) {
                match bad {
                    // a well-formed message of a kind this entry point does not handle
                    Some((k, OTHER_KIND)) if k == i => {
                        badkind = "other-kind";
                        p.deliver(v.role, c).await;
                    }
                    Some((k, n)) if k == i => {
                        let (kind, bytes) = p.bad_wires(c).swap_remove(n);
                        badkind = kind;
                        p.deliver_raw(v.role, bytes).await;
                    }
                    _ => p.deliver(v.role, c).await,
                }
            }
        }
        let res = match tokio::time::timeout(Duration::from_secs(10), p.call(v.role, v.name, sel)).await {
            Ok(x) => x,
            Err(_) => Err("Timeout".to_string()),
        };
        let after = p.state(v.role);
        let failed = classify(&res) == "refuse" || (badkind == "other-kind" && res.is_err());
        out.ev(json!({"ev": "call", "proto": P::NAME, "role": v.role.name(), "path": path, "state": state, "peer": peer,
                      "via": v.name, "commit": v.commit, "cond": v.cond, "steps": steps, "res": classify(&res),
                      "err": res.err().unwrap_or_default(), "after": after,
                      "bad": bad.map(|(k, _)| k + 1).unwrap_or(0), "badkind": badkind}));
        // after a refused (well-formed) payload a legal exchange must still work: the same
        // entry point with an acceptable message of the same kind, on the same pair
        if bad.is_some() && failed && badkind != "malformed" && v.steps.len() == 1 {
            let state2 = p.state(v.role);
            // (for an unhandled kind: with the first kind the entry point does handle)
            let sel: Vec<String> = match &v.steps[0] {
                S::Recv(h) if badkind == "other-kind" => vec![h[0].to_string()],
                _ => sel.to_vec(),
            };
            let sel = &sel[..];
            let steps: Vec<Value> = vec![json!({"dir": "recv", "msg": sel[0]})];
            p.deliver(v.role, &sel[0]).await;
            let res = match tokio::time::timeout(Duration::from_secs(10), p.call(v.role, v.name, sel)).await {
                Ok(x) => x,
                Err(_) => Err("Timeout".to_string()),
            };
            let after = p.state(v.role);
            out.ev(json!({"ev": "call", "proto": P::NAME, "role": v.role.name(), "path": path, "state": state2, "peer": "",
                          "via": v.name, "commit": v.commit, "cond": v.cond, "steps": steps, "res": classify(&res),
                          "err": res.err().unwrap_or_default(), "after": after, "bad": 0, "badkind": "followup"}));
        }
    }
    drop(p);
    pa.abort().await;
    pb.abort().await;
}

async fn walk<P: Proto>(out: &mut Ndjson, path: &[String]) {
    let (chans, pa, pb) = link(P::ID).await;
    let mut p = P::new(chans);
    let (mut cs, mut ss) = (vec![], vec![]);
    let mut err = String::new();
    for m in path {
        match tokio::time::timeout(Duration::from_secs(10), p.drive(m)).await {
            Ok(Ok(())) => {}
            Ok(Err(e)) => {
                err = format!("{m}: {e}");
                break;
            }
            Err(_) => {
                err = format!("{m}: timeout");
                break;
            }
        }
        cs.push(p.state(Client));
        ss.push(p.state(Server));
    }
    out.ev(json!({"ev": "walk", "proto": P::NAME, "path": path, "cstates": cs, "sstates": ss, "err": err}));
    drop(p);
    pa.abort().await;
    pb.abort().await;
}

async fn run_proto<P: Proto>(plan: &[Value], out: &mut Ndjson, reps: usize) {
    // states (with their paths) per role, in plan order
    let mut states: BTreeMap<(String, String), Vec<String>> = BTreeMap::new();
    let mut order: Vec<(String, String)> = vec![];
    for t in plan.iter().filter(|t| jstr(&t["kind"]) == "triple" && jstr(&t["proto"]) == P::NAME) {
        let k = (jstr(&t["role"]).to_string(), jstr(&t["state"]).to_string());
        if !states.contains_key(&k) {
            order.push(k.clone());
            states.insert(k, strs(&t["path"]));
        }
    }
    let vias = P::vias();
    for _ in 0..reps {
        for (role, state) in &order {
            let path = &states[&(role.clone(), state.clone())];
            for v in vias.iter().filter(|v| v.role.name() == role) {
                for sel in combos(&v.steps) {
                    probe::<P>(out, v, path, state, &sel, None).await;
                    // the same exchange with each unacceptable payload for each inbound step
                    for (k, st) in v.steps.iter().enumerate() {
                        if matches!(st, S::Recv(_)) {
                            let n = {
                                let (chans, pa, pb) = link(P::ID).await;
                                let p = P::new(chans);
                                let n = p.bad_wires(&sel[k]).len();
                                drop(p);
                                pa.abort().await;
                                pb.abort().await;
                                n
                            };
                            for i in 0..n {
                                probe::<P>(out, v, path, state, &sel, Some((k, i))).await;
                            }
                        }
                    }
                }
                // inbound steps of entry points that handle only some kinds: every other kind of the
                // protocol, well-formed (the table may allow it in this state - e.g. the reply to a
                // different query - but this entry point must then refuse it without changing state)
                for (k, st) in v.steps.iter().enumerate() {
                    if let S::Recv(h) = st {
                        let base = combos(&v.steps).swap_remove(0);
                        for c in P::MSGS.iter().filter(|c| !h.contains(c)) {
                            let mut sel = base.clone();
                            sel[k] = c.to_string();
                            probe::<P>(out, v, path, state, &sel, Some((k, OTHER_KIND))).await;
                        }
                    }
                }
            }
        }
        for w in plan.iter().filter(|t| jstr(&t["kind"]) == "walk" && jstr(&t["proto"]) == P::NAME) {
            walk::<P>(out, &strs(&w["path"])).await;
        }
    }
}

pub fn trace(args: &Args) {
    let plan = pv_core::read_ndjson(args.get("plan"));
    let mut out = Ndjson::create(args.get("out"));
    let reps = args.num("reps", 1) as usize;
    let only = args.opt("only").map(|s| s.to_string());
    let rt = tokio::runtime::Builder::new_multi_thread()
        .worker_threads(2)
        .enable_all()
        .build()
        .unwrap_or_else(|e| die(&format!("tokio: {e}")));
    rt.block_on(async {
        let want = |n: &str| only.as_deref().map(|o| o == n).unwrap_or(true);
        if want(Hs::NAME) { run_proto::<Hs>(&plan, &mut out, reps).await; }
        if want(Hc::NAME) { run_proto::<Hc>(&plan, &mut out, reps).await; }
        if want(Cs::NAME) { run_proto::<Cs>(&plan, &mut out, reps).await; }
        if want(Bf::NAME) { run_proto::<Bf>(&plan, &mut out, reps).await; }
        if want(Tx::NAME) { run_proto::<Tx>(&plan, &mut out, reps).await; }
        if want(Ka::NAME) { run_proto::<Ka>(&plan, &mut out, reps).await; }
        if want(Ps::NAME) { run_proto::<Ps>(&plan, &mut out, reps).await; }
        if want(Ls::NAME) { run_proto::<Ls>(&plan, &mut out, reps).await; }
        if want(Lt::NAME) { run_proto::<Lt>(&plan, &mut out, reps).await; }
        if want(Tm::NAME) { run_proto::<Tm>(&plan, &mut out, reps).await; }
    });
    out.ev(json!({"ev": "end"}));
    let n = out.finish();
    println!("{{\"events\":{n}}}");
}
