//! Conformance drivers for the mini-protocol state machines (C23, C24).
mod agents;
mod apply;
mod session;

fn main() {
    let args = pv_core::Args::parse();
    match args.cmd.as_str() {
        "apply-replay" => apply::replay(&args),
        "agents-trace" => agents::trace(&args),
        "session-replay" => session::replay(&args),
        "session-trace" => session::trace(&args),
        other => pv_core::die(&format!("unknown sub-command {other}")),
    }
}
