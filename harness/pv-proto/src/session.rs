//! Chain-sync sessions (design model spec/proto/ChainSyncSession.tla, beyond
//! the listed properties): a real chainsync::Client and chainsync::Server
//! agent over two in-process plexers, the client feeding every RollForward /
//! RollBackward into the real chainsync RollbackBuffer.
//!  * `session-replay`: TLC-generated scripts (chain growth, fork switches,
//!    requests, answers with payloads, pops) are executed step by step and the
//!    agents' states, the received payloads and the buffer compared with the
//!    model state after every step (M2);
//!  * `session-trace`: a seeded random chain producer + client policy; every
//!    step is logged for TraceChainSyncSession (M3).
//! Blocks are integers 10*height+fork, 0 = origin.

use crate::agents::link;
use pallas_network::miniprotocols::chainsync::{
    self, HeaderContent, NextResponse, RollbackBuffer, RollbackEffect, Tip,
};
use pallas_network::miniprotocols::Point;
use pallas_network::multiplexer::RunningPlexer;
use pv_core::serde_json::Value;
use pv_core::{die, jarr, jint, jstr, json, Args, Ndjson, Rng};
use std::fmt::Debug;

fn point(b: i64) -> Point {
    if b == 0 { Point::Origin } else { Point::Specific(b as u64, vec![b as u8; 32]) }
}
fn label(p: &Point) -> i64 {
    match p {
        Point::Origin => 0,
        Point::Specific(s, h) if h.len() == 32 && h.iter().all(|x| *x == *s as u8) => *s as i64,
        _ => -1,
    }
}
fn header(b: i64) -> HeaderContent {
    HeaderContent { variant: 1, byron_prefix: None, cbor: vec![0x18, b as u8] }
}
fn header_label(h: &HeaderContent) -> i64 {
    if h.variant == 1 && h.byron_prefix.is_none() && h.cbor.len() == 2 && h.cbor[0] == 0x18 { h.cbor[1] as i64 } else { -1 }
}
fn tip(p: i64, h: i64) -> Tip {
    Tip(point(p), h as u64)
}
fn tip_json(t: &Tip) -> Value {
    json!({"p": label(&t.0), "h": t.1})
}
fn ename<E: Debug>(e: E) -> String {
    let s = format!("{e:?}");
    s.split(|c: char| !c.is_alphanumeric()).next().unwrap_or("").to_string()
}

struct Sess {
    c: chainsync::N2NClient,
    s: chainsync::N2NServer,
    buf: RollbackBuffer,
    popped: Vec<i64>,
    pa: RunningPlexer,
    pb: RunningPlexer,
}

/// what one step did, as far as the implementation can tell
#[derive(Default)]
struct Seen {
    msg: String,
    p: i64,
    pts: Vec<i64>,
    tip: Option<Value>,
    res: String,
    got: Vec<i64>,
}

impl Sess {
    async fn new() -> Self {
        let (mut ch, pa, pb) = link(2).await;
        Sess {
            c: chainsync::Client::new(ch.c.take().unwrap()),
            s: chainsync::Server::new(ch.s.take().unwrap()),
            buf: RollbackBuffer::new(),
            popped: vec![],
            pa,
            pb,
        }
    }
    async fn close(self) {
        drop(self.c);
        drop(self.s);
        self.pa.abort().await;
        self.pb.abort().await;
    }
    fn cst(&self) -> String {
        ename(self.c.state())
    }
    fn sst(&self) -> String {
        ename(self.s.state())
    }
    fn buf_labels(&self) -> Vec<i64> {
        self.buf.peek().map(label).collect()
    }

    async fn c_send(c: &mut chainsync::N2NClient, msg: &str, pts: &[i64]) -> Result<(), String> {
        match msg {
            "RequestNext" => c.send_request_next().await.map_err(ename),
            "FindIntersect" => c.send_find_intersect(pts.iter().map(|b| point(*b)).collect()).await.map_err(ename),
            "Done" => c.send_done().await.map_err(ename),
            m => Err(format!("nosend {m}")),
        }
    }
    async fn s_recv(s: &mut chainsync::N2NServer) -> Result<Seen, String> {
        let r = s.recv_while_idle().await.map_err(ename)?;
        Ok(match r {
            Some(chainsync::ClientRequest::RequestNext) => Seen { msg: "RequestNext".into(), ..Default::default() },
            Some(chainsync::ClientRequest::Intersect(ps)) => {
                Seen { msg: "FindIntersect".into(), pts: ps.iter().map(label).collect(), ..Default::default() }
            }
            None => Seen { msg: "Done".into(), ..Default::default() },
        })
    }
    async fn s_send(s: &mut chainsync::N2NServer, msg: &str, p: i64, t: Tip) -> Result<(), String> {
        match msg {
            "RollForward" => s.send_roll_forward(header(p), t).await.map_err(ename),
            "RollBackward" => s.send_roll_backward(point(p), t).await.map_err(ename),
            "AwaitReply" => s.send_await_reply().await.map_err(ename),
            "IntersectFound" => s.send_intersect_found(point(p), t).await.map_err(ename),
            "IntersectNotFound" => s.send_intersect_not_found(t).await.map_err(ename),
            m => Err(format!("noreply {m}")),
        }
    }
    /// feed a reply into the buffer the way a chain-sync consumer does
    fn on_next(&mut self, r: NextResponse<HeaderContent>) -> Seen {
        match r {
            NextResponse::Await => Seen { msg: "AwaitReply".into(), ..Default::default() },
            NextResponse::RollForward(h, t) => {
                let b = header_label(&h);
                self.buf.roll_forward(point(b));
                Seen { msg: "RollForward".into(), p: b, tip: Some(tip_json(&t)), ..Default::default() }
            }
            NextResponse::RollBackward(p, t) => {
                let res = match self.buf.roll_back(&p) {
                    RollbackEffect::Handled => "Handled",
                    RollbackEffect::OutOfScope => "OutOfScope",
                };
                Seen { msg: "RollBackward".into(), p: label(&p), tip: Some(tip_json(&t)), res: res.into(), ..Default::default() }
            }
        }
    }
    fn on_intersect(&mut self, r: chainsync::IntersectResponse) -> Seen {
        match r {
            (Some(p), t) => {
                // a fresh buffer sitting on the intersection
                self.buf = RollbackBuffer::new();
                self.popped.clear();
                Seen { msg: "IntersectFound".into(), p: label(&p), tip: Some(tip_json(&t)), ..Default::default() }
            }
            (None, t) => Seen { msg: "IntersectNotFound".into(), tip: Some(tip_json(&t)), ..Default::default() },
        }
    }
    /// the receiving half that fits the client's state
    async fn c_recv(&mut self, composite: bool) -> Result<Seen, String> {
        match self.cst().as_str() {
            "Intersect" => {
                let r = self.c.recv_intersect_response().await.map_err(ename)?;
                Ok(self.on_intersect(r))
            }
            "CanAwait" => {
                let r = self.c.recv_while_can_await().await.map_err(ename)?;
                Ok(self.on_next(r))
            }
            "MustReply" => {
                let r = if composite { self.c.request_or_await_next().await } else { self.c.recv_while_must_reply().await };
                let r = r.map_err(ename)?;
                Ok(self.on_next(r))
            }
            s => Err(format!("norecv in {s}")),
        }
    }
    fn pop(&mut self, d: usize) -> Seen {
        let got: Vec<i64> = self.buf.pop_with_depth(d).iter().map(label).collect();
        self.popped.extend(got.iter().copied());
        Seen { got, ..Default::default() }
    }
}

fn ints(v: &Value) -> Vec<i64> {
    jarr(v).iter().map(jint).collect()
}

struct Fail {
    step: usize,
    kind: &'static str,
    field: String,
    want: Value,
    got: Value,
}

/// compare what the step did and the state after it with the model's
fn check(k: usize, row: &Value, seen: &Seen, s: &Sess, skip_state: bool) -> Option<Fail> {
    let st = &row["step"];
    let f = |kind: &'static str, field: &str, want: Value, got: Value| Some(Fail { step: k, kind, field: field.into(), want, got });
    if !skip_state {
        if jstr(&row["cst"]) != s.cst() {
            return f("state", "cst", row["cst"].clone(), json!(s.cst()));
        }
        if jstr(&row["sst"]) != s.sst() {
            return f("state", "sst", row["sst"].clone(), json!(s.sst()));
        }
    }
    match jstr(&st["a"]) {
        "s_recv" => {
            if jstr(&st["msg"]) != seen.msg {
                return f("data", "s_recv.msg", st["msg"].clone(), json!(seen.msg));
            }
        }
        "c_recv" => {
            if jstr(&st["msg"]) != seen.msg {
                return f("data", "c_recv.msg", st["msg"].clone(), json!(seen.msg));
            }
            if jint(&st["p"]) != seen.p {
                return f("data", "c_recv.p", st["p"].clone(), json!(seen.p));
            }
            if let Some(r) = st.get("res") {
                if jstr(r) != seen.res {
                    return f("buffer", "roll_back.res", r.clone(), json!(seen.res));
                }
            }
        }
        "pop" => {
            if ints(&st["popped"]) != seen.got {
                return f("buffer", "pop.popped", st["popped"].clone(), json!(seen.got));
            }
        }
        _ => {}
    }
    if ints(&row["buf"]) != s.buf_labels() {
        return f("buffer", "buf", row["buf"].clone(), json!(s.buf_labels()));
    }
    if ints(&row["popped"]) != s.popped {
        return f("buffer", "popped", row["popped"].clone(), json!(s.popped));
    }
    None
}

async fn server_step(s: &mut chainsync::N2NServer, st: &Value) -> Result<Seen, String> {
    match jstr(&st["a"]) {
        "grow" | "switch" => Ok(Seen::default()),
        "s_recv" => Sess::s_recv(s).await,
        "s_send" => {
            let t = tip(jint(&st["tip"]["p"]), jint(&st["tip"]["h"]));
            Sess::s_send(s, jstr(&st["msg"]), jint(&st["p"]), t).await.map(|_| Seen::default())
        }
        a => Err(format!("not a server step {a}")),
    }
}

async fn replay_one(script: &[Value], composite: bool) -> (usize, Option<Fail>) {
    let mut s = Sess::new().await;
    let mut k = 0usize;
    let mut fail = None;
    let agent_err = |k: usize, e: String| Fail { step: k, kind: "state", field: "agent error".into(), want: json!("Ok"), got: json!(e) };
    while k < script.len() && fail.is_none() {
        let row = &script[k];
        let st = &row["step"];
        let a = jstr(&st["a"]);
        // composite: request + the server's part + reply through one client method
        if composite && a == "c_send" && jstr(&st["msg"]) != "Done" {
            if let Some(j) = (k + 1..script.len()).find(|j| jstr(&script[*j]["step"]["a"]) == "c_recv") {
                if (k + 1..j).all(|m| matches!(jstr(&script[m]["step"]["a"]), "grow" | "switch" | "s_recv" | "s_send")) {
                    let pts: Vec<Point> = ints(&st["pts"]).iter().map(|b| point(*b)).collect();
                    let is_next = jstr(&st["msg"]) == "RequestNext";
                    let (c, sv) = (&mut s.c, &mut s.s);
                    let server = async {
                        for m in k + 1..j {
                            if let Err(e) = server_step(sv, &script[m]["step"]).await {
                                return Err((m, e));
                            }
                        }
                        Ok(())
                    };
                    enum R {
                        N(NextResponse<HeaderContent>),
                        I(chainsync::IntersectResponse),
                    }
                    let client = async {
                        if is_next { c.request_next().await.map(R::N).map_err(ename) } else { c.find_intersect(pts).await.map(R::I).map_err(ename) }
                    };
                    let (rc, rs) = tokio::join!(client, server);
                    if let Err((m, e)) = rs {
                        fail = Some(agent_err(m, e));
                        break;
                    }
                    match rc {
                        Err(e) => fail = Some(agent_err(j, e)),
                        Ok(R::N(r)) => {
                            let seen = s.on_next(r);
                            fail = check(j, &script[j], &seen, &s, false);
                        }
                        Ok(R::I(r)) => {
                            let seen = s.on_intersect(r);
                            fail = check(j, &script[j], &seen, &s, false);
                        }
                    }
                    k = j + 1;
                    continue;
                }
            }
        }
        let seen = match a {
            "grow" | "switch" => Ok(Seen::default()),
            "c_send" => Sess::c_send(&mut s.c, jstr(&st["msg"]), &ints(&st["pts"])).await.map(|_| Seen::default()),
            "s_recv" | "s_send" => server_step(&mut s.s, st).await,
            "c_recv" => s.c_recv(composite).await,
            "pop" => Ok(s.pop(jint(&st["d"]) as usize)),
            x => die(&format!("unknown step {x}")),
        };
        match seen {
            Err(e) => fail = Some(agent_err(k, e)),
            Ok(seen) => fail = check(k, row, &seen, &s, false),
        }
        k += 1;
    }
    s.close().await;
    (script.len(), fail)
}

pub fn replay(args: &Args) {
    let scripts = pv_core::read_ndjson(args.get("in"));
    let mut out = Ndjson::create(args.get("out"));
    let rt = tokio::runtime::Builder::new_multi_thread().worker_threads(2).enable_all().build().unwrap();
    let mut steps = 0usize;
    rt.block_on(async {
        for (i, sc) in scripts.iter().enumerate() {
            for composite in [false, true] {
                let r = tokio::time::timeout(std::time::Duration::from_secs(20), replay_one(jarr(sc), composite)).await;
                let mode = if composite { "composite" } else { "split" };
                match r {
                    Err(_) => out.ev(json!({"i": i, "mode": mode, "ok": false,
                        "fail": {"step": -1, "kind": "state", "field": "timeout", "want": "progress", "got": "hang"}})),
                    Ok((n, None)) => {
                        steps += n;
                        out.ev(json!({"i": i, "mode": mode, "ok": true, "steps": n}))
                    }
                    Ok((n, Some(f))) => {
                        steps += n;
                        out.ev(json!({"i": i, "mode": mode, "ok": false, "steps": n,
                            "fail": {"step": f.step, "kind": f.kind, "field": f.field, "want": f.want, "got": f.got,
                                     "at": jarr(sc)[f.step.min(jarr(sc).len() - 1)]["step"]}}))
                    }
                }
            }
        }
    });
    out.finish();
    println!("{{\"scripts\":{},\"steps\":{}}}", scripts.len(), steps);
}

// ------------------------------------------------------------------- M3
const MAX_BLOCKS: usize = 5;

struct Producer {
    chain: Vec<i64>,
    ptr: usize,
    pend: bool,
    req: Vec<i64>,
}
impl Producer {
    fn tip(&self) -> (i64, i64) {
        (self.chain.last().copied().unwrap_or(0), self.chain.len() as i64)
    }
    fn on_chain(&self, p: i64) -> bool {
        p == 0 || self.chain.contains(&p)
    }
    fn pos(&self, p: i64) -> usize {
        if p == 0 { 0 } else { self.chain.iter().position(|x| *x == p).unwrap() + 1 }
    }
    fn point_at(&self, i: usize) -> i64 {
        if i == 0 { 0 } else { self.chain[i - 1] }
    }
}

async fn trace_one(out: &mut Ndjson, rng: &mut Rng, steps: usize) {
    let mut s = Sess::new().await;
    let mut pr = Producer { chain: vec![], ptr: 0, pend: false, req: vec![] };
    let mut isect = 0i64;
    let mut lost = false;
    // what is on the wire: 0 nothing, 1 to server, 2 to client
    let mut wire = 0u8;
    let log = |out: &mut Ndjson, s: &Sess, mut ev: Value| {
        ev["cst"] = json!(s.cst());
        ev["sst"] = json!(s.sst());
        ev["buf"] = json!(s.buf_labels());
        ev["popped"] = json!(s.popped);
        out.ev(ev);
    };
    for _ in 0..steps {
        let cst = s.cst();
        let sst = s.sst();
        if cst == "Done" && sst == "Done" {
            break;
        }
        // enabled step kinds
        let mut opts: Vec<&str> = vec![];
        if pr.chain.len() < MAX_BLOCKS {
            opts.push("grow");
        }
        if !pr.chain.is_empty() {
            opts.push("switch");
        }
        if wire == 1 {
            opts.extend(["s_recv", "s_recv", "s_recv"]);
        }
        if wire == 2 {
            opts.extend(["c_recv", "c_recv", "c_recv"]);
        }
        if wire == 0 {
            let can_reply = match sst.as_str() {
                "Intersect" | "CanAwait" => true,
                "MustReply" => pr.pend || pr.ptr < pr.chain.len(),
                _ => false,
            };
            if can_reply {
                opts.extend(["s_send", "s_send", "s_send"]);
            }
            if cst == "Idle" && sst == "Idle" {
                opts.push("find");
                if !lost {
                    opts.extend(["next", "next", "next", "next"]);
                    if s.buf.size() > 0 {
                        opts.push("pop");
                    }
                }
                if rng.chance(1, 25) {
                    opts.push("done");
                }
            }
        }
        if opts.is_empty() {
            break;
        }
        let choice = *rng.pick(&opts);
        match choice {
            "grow" => {
                let lastf = pr.chain.last().map(|b| b % 10).unwrap_or(1);
                let f = if lastf == 2 { 2 } else { rng.range(1, 2) as i64 };
                let b = 10 * (pr.chain.len() as i64 + 1) + f;
                pr.chain.push(b);
                log(out, &s, json!({"a": "grow", "b": b}));
            }
            "switch" => {
                let k = rng.below(pr.chain.len() as u64) as usize;
                let f = 3 - pr.chain[k] % 10;
                let b = 10 * (k as i64 + 1) + f;
                pr.chain.truncate(k);
                pr.chain.push(b);
                if pr.ptr > k {
                    pr.ptr = k;
                    pr.pend = true;
                }
                log(out, &s, json!({"a": "switch", "k": k, "b": b}));
            }
            "find" | "next" | "done" => {
                let view: Vec<i64> = s.popped.iter().copied().chain(s.buf_labels()).collect();
                let (msg, pts) = match choice {
                    "next" => ("RequestNext", vec![]),
                    "done" => ("Done", vec![]),
                    _ => {
                        let mut known: Vec<i64> = std::iter::once(isect).chain(view.iter().copied()).collect();
                        known.reverse();
                        if rng.bool() {
                            known.push(0);
                            ("FindIntersect", known)
                        } else {
                            ("FindIntersect", vec![known[0]])
                        }
                    }
                };
                let r = Sess::c_send(&mut s.c, msg, &pts).await;
                wire = 1;
                log(out, &s, json!({"a": "c_send", "msg": msg, "pts": pts, "err": r.err().unwrap_or_default()}));
            }
            "s_recv" => {
                let r = Sess::s_recv(&mut s.s).await;
                wire = 0;
                let (msg, err) = match r {
                    Ok(seen) => {
                        pr.req = seen.pts.clone();
                        (seen.msg, String::new())
                    }
                    Err(e) => (String::new(), e),
                };
                log(out, &s, json!({"a": "s_recv", "msg": msg, "err": err}));
            }
            "s_send" => {
                // the chain producer's rule
                let (tp, th) = pr.tip();
                let (msg, p) = if sst == "Intersect" {
                    match pr.req.iter().copied().find(|p| pr.on_chain(*p)) {
                        Some(best) => {
                            pr.ptr = pr.pos(best);
                            pr.pend = true;
                            ("IntersectFound", best)
                        }
                        None => ("IntersectNotFound", 0),
                    }
                } else if pr.pend {
                    pr.pend = false;
                    ("RollBackward", pr.point_at(pr.ptr))
                } else if pr.ptr < pr.chain.len() {
                    pr.ptr += 1;
                    ("RollForward", pr.chain[pr.ptr - 1])
                } else {
                    ("AwaitReply", 0)
                };
                let r = Sess::s_send(&mut s.s, msg, p, tip(tp, th)).await;
                wire = 2;
                log(out, &s, json!({"a": "s_send", "msg": msg, "p": p, "tip": {"p": tp, "h": th}, "err": r.err().unwrap_or_default()}));
            }
            "c_recv" => {
                let base = s.popped.last().copied().unwrap_or(isect);
                let before = s.buf_labels();
                let r = s.c_recv(rng.bool()).await;
                wire = 0;
                match r {
                    Ok(seen) => {
                        if seen.msg == "IntersectFound" {
                            isect = seen.p;
                            lost = false;
                        }
                        if seen.msg == "RollBackward" && !before.contains(&seen.p) && seen.p != base {
                            lost = true;
                        }
                        log(out, &s, json!({"a": "c_recv", "msg": seen.msg, "p": seen.p, "res": seen.res, "tip": seen.tip.unwrap_or(json!({}))}));
                    }
                    Err(e) => log(out, &s, json!({"a": "c_recv", "msg": "", "p": 0, "res": "", "err": e})),
                }
            }
            "pop" => {
                let d = rng.below(s.buf.size().min(4) as u64) as usize;
                let seen = s.pop(d);
                log(out, &s, json!({"a": "pop", "d": d, "got": seen.got}));
            }
            _ => unreachable!(),
        }
    }
    s.close().await;
}

pub fn trace(args: &Args) {
    let mut out = Ndjson::create(args.get("out"));
    let mut rng = Rng::new(args.seed());
    let runs = args.num("runs", 5) as usize;
    let steps = args.num("steps", 80) as usize;
    let rt = tokio::runtime::Builder::new_multi_thread().worker_threads(2).enable_all().build().unwrap();
    rt.block_on(async {
        for i in 0..runs {
            if i > 0 {
                out.ev(json!({"a": "reset"}));
            }
            if tokio::time::timeout(std::time::Duration::from_secs(30), trace_one(&mut out, &mut rng, steps)).await.is_err() {
                out.ev(json!({"a": "hang"}));
            }
        }
    });
    let n = out.finish();
    println!("{{\"events\":{n}}}");
}
