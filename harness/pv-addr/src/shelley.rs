//! C18 — Shelley / stake addresses against spec/addr/ShelleyAddr.tla.
//!
//! An address description (JSON) is what the API shows: payment kind `pk`,
//! delegation kind `dk`, network id `n`, hashes `h1`/`h2` (byte arrays) and
//! pointer components `ptr` (BigNat JSON). The numeric address type is never
//! interpreted here — the spec's dispatch table owns it.
use pallas_addresses::{
    Address, Network, Pointer, ShelleyAddress, ShelleyDelegationPart, ShelleyPaymentPart, StakeAddress, StakePayload,
};
use pallas_crypto::hash::Hash;
use pv_core::serde_json::Value;
use pv_core::*;
use std::str::FromStr;

fn hash28(v: &Value) -> Hash<28> {
    let b = jbytes(v);
    if b.len() != 28 {
        die("hash must have 28 bytes");
    }
    let mut a = [0u8; 28];
    a.copy_from_slice(&b);
    Hash::<28>::from(a)
}

fn u64_of(v: &Value) -> u64 {
    big_from_json(v).parse::<u64>().unwrap_or_else(|_| die("pointer component is not a u64"))
}

/// Build the address with the real constructors.
fn build(d: &Value) -> Address {
    let net = Network::from(jint(&d["n"]) as u8);
    let pk = jstr(&d["pk"]);
    match pk {
        "stake_key" => return Address::Stake(StakeAddress::new(net, StakePayload::Stake(hash28(&d["h1"])))),
        "stake_script" => return Address::Stake(StakeAddress::new(net, StakePayload::Script(hash28(&d["h1"])))),
        _ => {}
    }
    let pay = match pk {
        "key" => ShelleyPaymentPart::key_hash(hash28(&d["h1"])),
        "script" => ShelleyPaymentPart::script_hash(hash28(&d["h1"])),
        other => die(&format!("unknown payment kind {other}")),
    };
    let deleg = match jstr(&d["dk"]) {
        "key" => ShelleyDelegationPart::key_hash(hash28(&d["h2"])),
        "script" => ShelleyDelegationPart::script_hash(hash28(&d["h2"])),
        "pointer" => {
            let p = jarr(&d["ptr"]);
            ShelleyDelegationPart::Pointer(Pointer::new(u64_of(&p[0]), u64_of(&p[1]), u64_of(&p[2])))
        }
        "none" => ShelleyDelegationPart::Null,
        other => die(&format!("unknown delegation kind {other}")),
    };
    Address::Shelley(ShelleyAddress::new(net, pay, deleg))
}

/// Project an address to its description through the public accessors.
fn project(a: &Address) -> Value {
    match a {
        Address::Shelley(s) => {
            let (pk, h1) = match s.payment() {
                ShelleyPaymentPart::Key(h) => ("key", h.to_vec()),
                ShelleyPaymentPart::Script(h) => ("script", h.to_vec()),
            };
            let (dk, h2, ptr) = match s.delegation() {
                ShelleyDelegationPart::Key(h) => ("key", h.to_vec(), vec![]),
                ShelleyDelegationPart::Script(h) => ("script", h.to_vec(), vec![]),
                ShelleyDelegationPart::Pointer(p) => (
                    "pointer",
                    vec![],
                    vec![big_json_u64(p.slot()), big_json_u64(p.tx_idx()), big_json_u64(p.cert_idx())],
                ),
                ShelleyDelegationPart::Null => ("none", vec![], vec![]),
            };
            json!({"pk": pk, "dk": dk, "n": s.network().value(), "h1": bytes_json(&h1), "h2": bytes_json(&h2), "ptr": ptr})
        }
        Address::Stake(s) => {
            let (pk, h1) = match s.payload() {
                StakePayload::Stake(h) => ("stake_key", h.to_vec()),
                StakePayload::Script(h) => ("stake_script", h.to_vec()),
            };
            json!({"pk": pk, "dk": "none", "n": s.network().value(), "h1": bytes_json(&h1), "h2": [], "ptr": []})
        }
        Address::Byron(_) => json!({"pk": "byron", "dk": "none", "n": 0, "h1": [], "h2": [], "ptr": []}),
    }
}

fn parsed(orig: &Address, r: Result<Address, pallas_addresses::Error>) -> Value {
    match r {
        Ok(a) => json!({"ok": true, "a": project(&a), "same": a == *orig}),
        Err(e) => json!({"ok": false, "err": e.to_string()}),
    }
}

/// All public calls on one address, as events. A panic inside a call is an
/// event of its own (no spec action matches it).
fn calls(a: &Address) -> Vec<Value> {
    let mut evs = Vec::new();
    let mut call = |name: &str, f: &mut dyn FnMut() -> Option<Value>| match catch(|| f()) {
        Ok(Some(v)) => evs.push(v),
        Ok(None) => {}
        Err(msg) => evs.push(json!({"ev": "panic", "at": name, "msg": msg})),
    };
    call("to_header", &mut || {
        let h = match a {
            Address::Shelley(s) => s.to_header(),
            Address::Stake(s) => s.to_header(),
            Address::Byron(_) => die("byron"),
        };
        Some(json!({"ev": "to_header", "h": h, "typeid": a.typeid()}))
    });
    call("to_vec", &mut || Some(json!({"ev": "to_vec", "bytes": bytes_json(&a.to_vec())})));
    call("to_hex", &mut || Some(json!({"ev": "to_hex", "str": a.to_hex()})));
    call("hrp", &mut || {
        Some(json!({"ev": "hrp", "hrp": match a.hrp() { Ok(h) => h.to_string(), Err(_) => "refused".to_string() }}))
    });
    call("to_bech32", &mut || {
        Some(match a.to_bech32() {
            Ok(s) => match bech32::decode(&s) {
                Ok((hrp, data)) => json!({"ev": "to_bech32", "hrp": hrp.to_string(), "data": bytes_json(&data)}),
                Err(e) => json!({"ev": "to_bech32", "hrp": "undecodable", "data": [], "str": s, "err": e.to_string()}),
            },
            Err(_) => json!({"ev": "to_bech32", "hrp": "refused", "data": []}),
        })
    });
    call("from_bytes", &mut || Some(json!({"ev": "from_bytes", "res": parsed(a, Address::from_bytes(&a.to_vec()))})));
    call("from_hex", &mut || Some(json!({"ev": "from_hex", "res": parsed(a, Address::from_hex(&a.to_hex()))})));
    call("from_bech32", &mut || {
        a.to_bech32().ok().map(|s| json!({"ev": "from_bech32", "res": parsed(a, Address::from_bech32(&s))}))
    });
    call("from_str", &mut || Some(json!({"ev": "from_str", "res": parsed(a, Address::from_str(&a.to_string()))})));
    evs
}

/// M1: vectors printed by GenShelleyAddr — {"a": description, "calls": [expected events]}.
pub fn replay(args: &Args) {
    let vecs = read_ndjson(args.get("in"));
    let mut out = Ndjson::create(args.get("out"));
    for (i, v) in vecs.iter().enumerate() {
        if v.get("kind").map(|k| k == "parse").unwrap_or(false) {
            // design-model vector: raw bytes -> Address::from_bytes
            let bytes = jbytes(&v["bytes"]);
            let got = match catch(|| Address::from_bytes(&bytes)) {
                Ok(Ok(a)) => json!({"ok": true, "a": project(&a)}),
                Ok(Err(e)) => {
                    let d = format!("{e:?}");
                    let name = d.split(|c: char| !c.is_alphanumeric()).next().unwrap_or("").to_string();
                    json!({"ok": false, "why": name})
                }
                Err(msg) => json!({"ok": false, "why": "panic", "msg": msg}),
            };
            let same = got == v["res"];
            out.ev(json!({"i": i, "ok": same, "at": "parse", "why": if got["why"] == "panic" { "panic" } else { "mismatch" },
                          "got": got, "want": v["res"], "bytes": v["bytes"], "calls": 1}));
            continue;
        }
        let built = catch(|| build(&v["a"]));
        let a = match built {
            Ok(a) => a,
            Err(msg) => {
                out.ev(json!({"i": i, "ok": false, "at": "new", "why": "panic", "msg": msg, "a": v["a"]}));
                continue;
            }
        };
        let got = calls(&a);
        let want = jarr(&v["calls"]);
        let mut row = json!({"i": i, "ok": true, "calls": got.len()});
        // from_bech32 is only performed when to_bech32 succeeds
        let mut gi = 0;
        for w in want {
            let name = jstr(&w["ev"]);
            let g = got.get(gi);
            match g {
                Some(g) if g["ev"] == w["ev"] => {
                    if g != w {
                        row = json!({"i": i, "ok": false, "at": name, "why": "mismatch", "got": g, "want": w, "a": v["a"]});
                        break;
                    }
                    gi += 1;
                }
                Some(g) if g["ev"] == "panic" => {
                    row = json!({"i": i, "ok": false, "at": g["at"], "why": "panic", "got": g, "want": w, "a": v["a"]});
                    break;
                }
                _ if name == "from_bech32" && got.iter().any(|e| e["ev"] == "to_bech32" && e["hrp"] == "refused") => {}
                _ => {
                    row = json!({"i": i, "ok": false, "at": name, "why": "missing", "want": w, "a": v["a"]});
                    break;
                }
            }
        }
        out.ev(row);
    }
    out.finish();
}

fn edge_u64(rng: &mut Rng) -> u64 {
    match rng.below(8) {
        0 => rng.below(300),
        1 => {
            // around a 7-bit group boundary
            let k = rng.range(1, 9) as u32;
            let b = 1u64 << (7 * k);
            match rng.below(3) {
                0 => b - 1,
                1 => b,
                _ => b + rng.below(128),
            }
        }
        2 => u64::MAX - rng.below(3),
        3 => (1u64 << 63) - 1 + rng.below(3),
        4 => rng.next_u64() >> rng.below(64),
        _ => rng.next_u64(),
    }
}

/// M3: seeded random addresses, every public call logged for TraceShelleyAddr.
pub fn trace(args: &Args) {
    let mut rng = Rng::new(args.seed());
    let n = args.num("n", 200);
    let mut out = Ndjson::create(args.get("out"));
    let kinds: [(&str, &str); 10] = [
        ("key", "key"), ("script", "key"), ("key", "script"), ("script", "script"), ("key", "pointer"),
        ("script", "pointer"), ("key", "none"), ("script", "none"), ("stake_key", "none"), ("stake_script", "none"),
    ];
    for i in 0..n {
        // cycle kinds x networks so that every combination occurs, values random
        let (pk, dk) = kinds[(i % 10) as usize];
        let net = if i < 160 { (i / 10) % 16 } else { rng.below(16) };
        let h1 = rng.bytes(28);
        let h2 = if dk == "key" || dk == "script" { rng.bytes(28) } else { vec![] };
        let ptr: Vec<Value> = if dk == "pointer" {
            (0..3).map(|_| big_json_u64(edge_u64(&mut rng))).collect()
        } else {
            vec![]
        };
        let d = json!({"ev": "new", "pk": pk, "dk": dk, "n": net, "h1": bytes_json(&h1), "h2": bytes_json(&h2), "ptr": ptr});
        match catch(|| build(&d)) {
            Ok(a) => {
                out.ev(d);
                for e in calls(&a) {
                    out.ev(e);
                }
            }
            Err(msg) => out.ev(json!({"ev": "panic", "at": "new", "msg": msg})),
        }
    }
    out.finish();
}
