//! Conformance drivers (pv-addr). Sub-commands are added per property.
mod byron;
mod shelley;

fn main() {
    let args = pv_core::Args::parse();
    match args.cmd.as_str() {
        "shelley-replay" => shelley::replay(&args),
        "shelley-trace" => shelley::trace(&args),
        "byron-trace" => byron::trace(&args),
        other => pv_core::die(&format!("unknown sub-command {other}")),
    }
}
