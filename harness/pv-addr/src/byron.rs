//! C19 — Byron addresses against spec/addr/ByronAddr.tla.
//!
//! The checksum is uninterpreted in the specification; the values it learns
//! come from the table-driven CRC-32/ISO-HDLC below (independent of the `crc`
//! crate pallas uses), which is itself pinned by known-answer events.
use pallas_addresses::byron::{
    AddrAttrProperty, AddrDistr, AddrType, AddressPayload, ByronAddress, SpendingData,
};
use pallas_addresses::Address;
use pallas_codec::minicbor::bytes::ByteVec;
use pallas_crypto::hash::Hash;
use pv_core::serde_json::Value;
use pv_core::*;
use std::str::FromStr;

fn crc32(data: &[u8]) -> u32 {
    let mut table = [0u32; 256];
    for (i, t) in table.iter_mut().enumerate() {
        let mut c = i as u32;
        for _ in 0..8 {
            c = if c & 1 != 0 { 0xEDB8_8320 ^ (c >> 1) } else { c >> 1 };
        }
        *t = c;
    }
    let mut c = 0xFFFF_FFFFu32;
    for b in data {
        c = table[((c ^ *b as u32) & 0xFF) as usize] ^ (c >> 8);
    }
    c ^ 0xFFFF_FFFF
}
fn hex8(c: u32) -> String {
    format!("{c:08x}")
}

const KAT_INPUTS: [&str; 6] = [
    "",
    "00",
    "313233343536373839",
    "ffffffff",
    "000102030405060708090a0b0c0d0e0f101112131415161718191a1b1c1d1e1f",
    "83581cababababababababababababababababababababababababababababa000",
];

fn hash28(rng: &mut Rng) -> Hash<28> {
    let mut a = [0u8; 28];
    rng.fill(&mut a);
    Hash::<28>::from(a)
}

fn random_payload(rng: &mut Rng, i: u64) -> AddressPayload {
    let addrtype = match i % 4 {
        0 => AddrType::PubKey,
        1 => AddrType::Script,
        2 => AddrType::Redeem,
        _ => {
            let bits = rng.range(1, 31);
            AddrType::Other(3 + rng.below(1 << bits) as u32)
        }
    };
    let mut attrs = Vec::new();
    if (i / 4) % 2 == 1 || rng.chance(1, 4) {
        if rng.bool() {
            attrs.push(AddrAttrProperty::AddrDistr(if rng.bool() {
                AddrDistr::SingleKeyDistribution(hash28(rng))
            } else {
                AddrDistr::BootstrapEraDistribution
            }));
        }
        if rng.bool() {
            let n = rng.below(40) as usize;
            attrs.push(AddrAttrProperty::DerivationPath(ByteVec::from(rng.bytes(n))));
        }
        if rng.bool() || attrs.is_empty() {
            let n = rng.range(1, 5) as usize;
            attrs.push(AddrAttrProperty::NetworkTag(ByteVec::from(rng.bytes(n))));
        }
        rng.shuffle(&mut attrs);
    }
    if i % 9 == 8 {
        // large attributes: a long derivation path (often with stake distribution and
        // network tag): encoded addresses of roughly 90..300 bytes
        attrs.retain(|a| !matches!(a, AddrAttrProperty::DerivationPath(_)));
        let n = if rng.bool() { rng.range(42, 77) } else { rng.range(78, 200) } as usize;
        attrs.push(AddrAttrProperty::DerivationPath(ByteVec::from(rng.bytes(n))));
        if rng.bool() && !attrs.iter().any(|a| matches!(a, AddrAttrProperty::AddrDistr(_))) {
            attrs.push(AddrAttrProperty::AddrDistr(AddrDistr::SingleKeyDistribution(hash28(rng))));
        }
        rng.shuffle(&mut attrs);
    }
    if rng.chance(1, 3) {
        // through the hashing constructor, as wallets build them
        let klen = if rng.bool() { 32 } else { 64 };
        let key = ByteVec::from(rng.bytes(klen));
        let sd = match rng.below(3) {
            0 => SpendingData::PubKey(key),
            1 => SpendingData::Script(key),
            _ => SpendingData::Redeem(key),
        };
        AddressPayload::new(addrtype, sd, attrs.into())
    } else {
        AddressPayload { root: hash28(rng), attributes: attrs.into(), addrtype }
    }
}

const PARSERS: [&str; 7] = [
    "ByronAddress::from_bytes",
    "ByronAddress::from_base58",
    "Address::from_bytes",
    "Address::from_hex",
    "Address::from_str(base58)",
    "Address::from_str(hex)",
    "Address::try_from",
];

enum Parsed {
    Byron(ByronAddress),
    Other,
    Fail,
}

fn lift(r: Result<Address, pallas_addresses::Error>) -> Parsed {
    match r {
        Ok(Address::Byron(b)) => Parsed::Byron(b),
        Ok(_) => Parsed::Other,
        Err(_) => Parsed::Fail,
    }
}

/// Run one parser on the given raw bytes (text forms are derived from the
/// bytes with the base58 / hex crates, not with pallas).
fn parse_with(entry: &str, bytes: &[u8]) -> Result<Parsed, String> {
    catch(|| match entry {
        "ByronAddress::from_bytes" => match ByronAddress::from_bytes(bytes) {
            Ok(b) => Parsed::Byron(b),
            Err(_) => Parsed::Fail,
        },
        "ByronAddress::from_base58" => match ByronAddress::from_base58(&base58::ToBase58::to_base58(bytes)) {
            Ok(b) => Parsed::Byron(b),
            Err(_) => Parsed::Fail,
        },
        "Address::from_bytes" => lift(Address::from_bytes(bytes)),
        "Address::from_hex" => lift(Address::from_hex(&hex(bytes))),
        "Address::from_str(base58)" => lift(Address::from_str(&base58::ToBase58::to_base58(bytes))),
        "Address::from_str(hex)" => lift(Address::from_str(&hex(bytes))),
        "Address::try_from" => lift(Address::try_from(bytes)),
        other => die(&format!("unknown parser {other}")),
    })
}

fn payload_of(a: &ByronAddress) -> Vec<u8> {
    a.payload.0.to_vec()
}

fn cbor_uint_len(v: u32) -> usize {
    match v {
        0..=23 => 1,
        24..=0xFF => 2,
        0x100..=0xFFFF => 3,
        _ => 5,
    }
}

pub fn trace(args: &Args) {
    let mut rng = Rng::new(args.seed());
    let n = args.num("n", 100);
    let sample = args.num("corrupt", 3);
    let mut out = Ndjson::create(args.get("out"));
    for k in KAT_INPUTS {
        out.ev(json!({"ev": "kat", "data": k, "crc": hex8(crc32(&unhex(k)))}));
    }
    for i in 0..n {
        let payload = random_payload(&mut rng, i);
        let addr = match catch(|| ByronAddress::from_decoded(payload.clone())) {
            Ok(a) => a,
            Err(msg) => {
                out.ev(json!({"ev": "panic", "at": "from_decoded", "msg": msg}));
                continue;
            }
        };
        let pbytes = payload_of(&addr);
        let phex = hex(&pbytes);
        out.ev(json!({"ev": "crc", "payload": phex, "crc": hex8(crc32(&pbytes))}));
        let bytes = addr.to_vec();
        out.ev(json!({"ev": "from_decoded", "payload": phex, "crc": hex8(addr.crc), "len": bytes.len()}));
        // text forms produced by pallas itself are used for the round trip
        for entry in PARSERS {
            let r = catch(|| match entry {
                "ByronAddress::from_bytes" => ByronAddress::from_bytes(&bytes).map(Address::Byron),
                "ByronAddress::from_base58" => ByronAddress::from_base58(&addr.to_base58()).map(Address::Byron),
                "Address::from_bytes" => Address::from_bytes(&Address::Byron(addr.clone()).to_vec()),
                "Address::from_hex" => Address::from_hex(&Address::Byron(addr.clone()).to_hex()),
                "Address::from_str(base58)" => Address::from_str(&Address::Byron(addr.clone()).to_string()),
                "Address::from_str(hex)" => Address::from_str(&addr.to_hex()),
                "Address::try_from" => Address::try_from(&bytes[..]),
                other => die(&format!("unknown parser {other}")),
            });
            out.ev(match r {
                Ok(Ok(Address::Byron(b))) => {
                    let inner_same = b.decode().map(|p| p == payload).unwrap_or(false);
                    json!({"ev": "roundtrip", "entry": entry, "payload": hex(&payload_of(&b)), "crc": hex8(b.crc),
                           "outcome": "ok", "same": b == addr && inner_same, "len": bytes.len()})
                }
                Ok(Ok(_)) => json!({"ev": "roundtrip", "entry": entry, "payload": phex, "crc": hex8(addr.crc), "outcome": "other-kind", "same": false, "len": bytes.len()}),
                Ok(Err(e)) => json!({"ev": "roundtrip", "entry": entry, "payload": phex, "crc": hex8(addr.crc), "outcome": "err", "same": false, "err": e.to_string(), "len": bytes.len()}),
                Err(msg) => json!({"ev": "panic", "at": entry, "msg": msg}),
            });
        }
        if i >= sample {
            continue;
        }
        // every single-bit corruption of the encoded address
        let crc_len = cbor_uint_len(addr.crc);
        let head_len = bytes.len() - pbytes.len() - crc_len;
        for bit in 0..bytes.len() * 8 {
            let j = bit / 8;
            let mut bad = bytes.clone();
            bad[j] ^= 1 << (bit % 8);
            let region = if j < head_len {
                "framing"
            } else if j < head_len + pbytes.len() {
                "payload"
            } else if j == head_len + pbytes.len() && crc_len > 1 {
                "framing"
            } else {
                "crc"
            };
            out.ev(json!({"ev": "corrupt", "bit": bit, "region": region, "addr": i}));
            let mut rejected: Vec<Value> = Vec::new();
            for entry in PARSERS {
                match parse_with(entry, &bad) {
                    Ok(Parsed::Byron(b)) => {
                        let pb = payload_of(&b);
                        out.ev(json!({"ev": "crc", "payload": hex(&pb), "crc": hex8(crc32(&pb))}));
                        out.ev(json!({"ev": "parse", "entry": entry, "outcome": "ok", "payload": hex(&pb), "crc": hex8(b.crc)}));
                    }
                    Ok(Parsed::Other) => out.ev(json!({"ev": "parse", "entry": entry, "outcome": "other-kind"})),
                    Ok(Parsed::Fail) => rejected.push(json!(entry)),
                    Err(msg) => out.ev(json!({"ev": "panic", "at": entry, "msg": msg})),
                }
            }
            out.ev(json!({"ev": "rejected", "entries": rejected}));
        }
    }
    out.finish();
}
