//! Strict generic CBOR head tokenizer (trusted glue for C22, RFC 8949 s.3).
//!
//! Turns a byte string into the head tokens `[major, arg, indef]` that
//! `spec/proto/WellFormed.tla` consumes.  It knows nothing about nesting: it
//! reads one head, skips the payload bytes of a definite byte/text string and
//! goes on until the input is exhausted.  Whether the heads form exactly one
//! well-formed item (container lengths, break placement, tags, chunking) is
//! decided by the TLA+ pushdown machine, not here.  An unreadable head
//! (truncated argument or payload, reserved additional information 28..30,
//! two-byte simple value < 32, text that is not UTF-8) yields the token
//! `[-1, 0, 0]`, which the machine rejects, and ends the token string.

/// Arguments are clipped so that TLC's 32-bit integers (and 2 * count for
/// maps) cannot overflow; no real message has 5 * 10^8 items.
const CLIP: u64 = 500_000_000;
const BAD: [i64; 3] = [-1, 0, 0];

pub fn tokenize(b: &[u8]) -> Vec<[i64; 3]> {
    let mut out = Vec::new();
    let mut p = 0usize;
    while p < b.len() {
        let major = (b[p] >> 5) as i64;
        let ai = b[p] & 0x1f;
        p += 1;
        let (arg, indef) = match ai {
            0..=23 => (ai as u64, false),
            24..=27 => {
                let n = 1usize << (ai - 24);
                if b.len() - p < n {
                    out.push(BAD);
                    return out;
                }
                let v = b[p..p + n].iter().fold(0u64, |v, x| (v << 8) | *x as u64);
                p += n;
                (v, false)
            }
            31 => (31, true),
            _ => {
                out.push(BAD);
                return out;
            }
        };
        if major == 7 && ai == 24 && arg < 32 {
            out.push(BAD);
            return out;
        }
        if (major == 2 || major == 3) && !indef {
            if arg > (b.len() - p) as u64 {
                out.push(BAD);
                return out;
            }
            let n = arg as usize;
            if major == 3 && std::str::from_utf8(&b[p..p + n]).is_err() {
                out.push(BAD);
                return out;
            }
            p += n;
        }
        out.push([major, arg.min(CLIP) as i64, indef as i64]);
    }
    out
}

#[cfg(test)]
mod tests {
    use super::tokenize;
    #[test]
    fn heads() {
        assert_eq!(tokenize(&[0x82, 0x01, 0x43, 1, 2, 3]), vec![[4, 2, 0], [0, 1, 0], [2, 3, 0]]);
        assert_eq!(tokenize(&[0x9f, 0x18, 0x64, 0xff]), vec![[4, 31, 1], [0, 100, 0], [7, 31, 1]]);
        assert_eq!(tokenize(&[0x19, 0x01]), vec![[-1, 0, 0]]);
        assert_eq!(tokenize(&[0x44, 1, 2]), vec![[-1, 0, 0]]);
        assert_eq!(tokenize(&[0xd8, 0x18, 0x41, 0]), vec![[6, 24, 0], [2, 1, 0]]);
        assert_eq!(tokenize(&[0x1c]), vec![[-1, 0, 0]]);
    }
}
