//! Conformance drivers (pv-msgs). Sub-commands are added per property.
fn main() {
    let args = pv_core::Args::parse();
    match args.cmd.as_str() {
        other => pv_core::die(&format!("unknown sub-command {other}")),
    }
}
