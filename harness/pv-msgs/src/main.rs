//! Conformance drivers for the mini-protocol message codecs (C22) and the
//! handshake responders (C25) of both network stacks.
mod hs;
mod queries;
mod reject;
mod tok;
mod wf;

fn main() {
    let args = pv_core::Args::parse();
    match args.cmd.as_str() {
        "wf-trace" => wf::trace(&args),
        "hs-replay" => hs::replay(&args),
        "hs-trace" => hs::trace(&args),
        other => pv_core::die(&format!("unknown sub-command {other}")),
    }
}
