//! C25 drivers: run a handshake proposal C against the real responders with
//! own table S and log every handshake message the responder sends.
//!   original stack  handshake::Server::<D>::handshake(S) behind a plexer pair (UnixStream pair); the client side
//!                   is a raw channel that proposes C and reads the replies (D = n2n and n2c version data)
//!   P2P stack       ResponderBehavior with HandshakeResponder{supported_version: S}, fed Connected +
//!                   Recv(Propose C), outputs drained
//! Tables are lists of [version, magic, x]; x is the part of the version data that is not the magic:
//!   n2n: diffusion mode = x & 1, peer_sharing = Some(x >> 1), query = Some(false)
//!   n2c: x mod 3: 0 -> no query flag, 1 -> Some(false), 2 -> Some(true)
//! The magic column holds an abstract id k (1..) that stands for MAGICS[k - 1]: wide u64 magics, neighbours differing
//! only above bit 31.
//! Event: {"ev":"hs","impl":..,"c":[..],"s":[..],"replies":[..],"ret":..}
use futures::StreamExt;
use pallas_network::miniprotocols::handshake as h1;
use pallas_network::multiplexer::{AgentChannel, Bearer, ChannelBuffer, Plexer};
use pallas_network2::behavior::responder::handshake::{HandshakeResponder, HandshakeResponderConfig};
use pallas_network2::behavior::responder::ResponderBehavior;
use pallas_network2::behavior::AnyMessage;
use pallas_network2::protocol::handshake as h2;
use pallas_network2::{Behavior, BehaviorOutput, InterfaceCommand, InterfaceEvent, PeerId};
use pv_core::serde_json::Value;
use pv_core::{die, jarr, jint, json, read_ndjson, Args, Ndjson, Rng};
use std::fmt::Debug;

type Row = [i64; 3];

fn rows(v: &Value) -> Vec<Row> {
    jarr(v).iter().map(|e| { let a = jarr(e); [jint(&a[0]), jint(&a[1]), jint(&a[2])] }).collect()
}
fn rows_json(t: &[Row]) -> Value {
    json!(t.iter().map(|r| r.to_vec()).collect::<Vec<_>>())
}

/// Network magics are logged as small abstract ids (TLC integers are 32-bit); id k stands for MAGICS[k - 1].
/// Neighbouring ids differ only above bit 31 (or only in bit 63), so that a codec which narrows the u64 magic makes
/// two different magics collide.
pub const MAGICS: [u64; 10] = [764824073, 764824073 + (1 << 32), 1097911063, 1097911063 + (1 << 63), 1, 1 + (1 << 32), 2, 4, 1 << 32, u64::MAX];
fn magic(m: i64) -> u64 {
    MAGICS[(m as usize - 1) % MAGICS.len()]
}

fn n2n_1(m: i64, x: i64) -> h1::n2n::VersionData {
    h1::n2n::VersionData::new(magic(m), x & 1 == 1, Some((x >> 1) as u8), Some(false))
}
fn n2c_1(m: i64, x: i64) -> h1::n2c::VersionData {
    h1::n2c::VersionData::new(magic(m), match x % 3 { 0 => None, 1 => Some(false), _ => Some(true) })
}
fn n2n_2(m: i64, x: i64) -> h2::n2n::VersionData {
    h2::n2n::VersionData::new(magic(m), x & 1 == 1, Some((x >> 1) as u8), Some(false))
}

/// abstract (magic, x) of version data the responder sent: looked up among the data of both tables
fn project<D: PartialEq>(d: &D, c: &[Row], s: &[Row], mk: fn(i64, i64) -> D) -> (i64, i64) {
    s.iter().chain(c.iter()).find(|r| mk(r[1], r[2]) == *d).map(|r| (r[1], r[2])).unwrap_or((-1, -1))
}

fn reply1<D: PartialEq + Debug + Clone>(m: &h1::Message<D>, c: &[Row], s: &[Row], mk: fn(i64, i64) -> D) -> Value {
    match m {
        h1::Message::Accept(v, d) => {
            let (m, x) = project(d, c, s, mk);
            json!({"t": "accept", "v": v, "m": m, "x": x})
        }
        h1::Message::Refuse(h1::RefuseReason::VersionMismatch(vs)) => json!({"t": "refuse", "why": "mismatch", "vs": vs}),
        h1::Message::Refuse(h1::RefuseReason::Refused(v, _)) => json!({"t": "refuse", "why": "refused", "v": v}),
        h1::Message::Refuse(h1::RefuseReason::HandshakeDecodeError(v, _)) => json!({"t": "refuse", "why": "decode", "v": v}),
        h1::Message::Propose(_) => json!({"t": "other", "why": "propose"}),
        h1::Message::QueryReply(_) => json!({"t": "other", "why": "query-reply"}),
    }
}

const SENTINEL: u64 = 0x7FFF_FFFF_FFFF;

struct Pair {
    server: Option<AgentChannel>,
    client: ChannelBuffer,
    _plexers: (pallas_network::multiplexer::RunningPlexer, pallas_network::multiplexer::RunningPlexer),
}

fn pair() -> Pair {
    let (sa, sb) = tokio::net::UnixStream::pair().unwrap_or_else(|e| die(&format!("socketpair: {e}")));
    let mut pa = Plexer::new(Bearer::Unix(sa));
    let mut pb = Plexer::new(Bearer::Unix(sb));
    let server = pa.subscribe_server(0);
    let client = pb.subscribe_client(0);
    Pair { server: Some(server), client: ChannelBuffer::new(client), _plexers: (pa.spawn(), pb.spawn()) }
}

/// one handshake of the original stack's Server over the shared plexer pair
async fn run1<D>(p: &mut Pair, c: &[Row], s: &[Row], mk: fn(i64, i64) -> D) -> (Vec<Value>, String)
where
    D: Debug + Clone + PartialEq,
    h1::Message<D>: pallas_codec::Fragment,
{
    let table = |t: &[Row]| h1::VersionTable { values: t.iter().map(|r| (r[0] as u64, mk(r[1], r[2]))).collect() };
    p.client.send_msg_chunks(&h1::Message::Propose(table(c))).await.unwrap_or_else(|e| die(&format!("client send: {e:?}")));
    let mut server = h1::Server::<D>::new(p.server.take().expect("server channel"));
    let ret = match server.handshake(table(s)).await {
        Ok(Some((v, _))) => format!("accepted:{v}"),
        Ok(None) => "refused".to_string(),
        Err(e) => format!("error:{e:?}"),
    };
    // a marker behind whatever the server sent, so that the client knows where the replies end
    let mut buf = ChannelBuffer::new(server.unwrap());
    let mark: h1::Message<D> = h1::Message::Refuse(h1::RefuseReason::Refused(SENTINEL, "pv-sentinel".into()));
    buf.send_msg_chunks(&mark).await.unwrap_or_else(|e| die(&format!("sentinel send: {e:?}")));
    p.server = Some(buf.unwrap());
    let mut replies = Vec::new();
    loop {
        let m: h1::Message<D> = p.client.recv_full_msg().await.unwrap_or_else(|e| die(&format!("client recv: {e:?}")));
        if matches!(&m, h1::Message::Refuse(h1::RefuseReason::Refused(v, _)) if *v == SENTINEL) {
            break;
        }
        replies.push(reply1(&m, c, s, mk));
    }
    (replies, ret)
}

/// one handshake of the P2P stack's responder behaviour
fn run2(c: &[Row], s: &[Row], n: usize) -> (Vec<Value>, String) {
    let table = |t: &[Row]| h2::VersionTable { values: t.iter().map(|r| (r[0] as u64, n2n_2(r[1], r[2]))).collect() };
    let mut b = ResponderBehavior::default();
    b.handshake = HandshakeResponder::new(HandshakeResponderConfig { supported_version: table(s) });
    let pid = PeerId { host: format!("10.0.{}.{}", (n >> 8) & 255, n & 255), port: 3001 };
    let waker = futures::task::noop_waker();
    let mut cx = std::task::Context::from_waker(&waker);
    let mut outs = Vec::new();
    b.handle_io(InterfaceEvent::Connected(pid.clone()));
    while let std::task::Poll::Ready(Some(o)) = b.poll_next_unpin(&mut cx) {
        outs.push(o);
    }
    b.handle_io(InterfaceEvent::Recv(pid.clone(), vec![AnyMessage::Handshake(h2::Message::Propose(table(c)))]));
    while let std::task::Poll::Ready(Some(o)) = b.poll_next_unpin(&mut cx) {
        outs.push(o);
    }
    let mut replies = Vec::new();
    for o in &outs {
        if let BehaviorOutput::InterfaceCommand(InterfaceCommand::Send(to, AnyMessage::Handshake(m))) = o {
            if *to != pid {
                continue;
            }
            replies.push(match m {
                h2::Message::Accept(v, d) => {
                    let (m, x) = project(d, c, s, n2n_2);
                    json!({"t": "accept", "v": v, "m": m, "x": x})
                }
                h2::Message::Refuse(h2::RefuseReason::VersionMismatch(vs)) => json!({"t": "refuse", "why": "mismatch", "vs": vs}),
                h2::Message::Refuse(h2::RefuseReason::Refused(v, _)) => json!({"t": "refuse", "why": "refused", "v": v}),
                h2::Message::Refuse(h2::RefuseReason::HandshakeDecodeError(v, _)) => json!({"t": "refuse", "why": "decode", "v": v}),
                h2::Message::Propose(_) => json!({"t": "other", "why": "propose"}),
                h2::Message::QueryReply(_) => json!({"t": "other", "why": "query-reply"}),
            });
        }
    }
    let ret = match b.peers.get(&pid) {
        Some(st) if st.is_initialized() => format!("initialized:{:?}", st.accepted_version()),
        Some(_) => "not-initialized".to_string(),
        None => "no-peer".to_string(),
    };
    (replies, ret)
}

fn drive(pairs: &[(Vec<Row>, Vec<Row>)], out: &str) {
    let rt = tokio::runtime::Builder::new_current_thread().enable_all().build().unwrap_or_else(|e| die(&format!("tokio: {e}")));
    let mut w = Ndjson::create(out);
    rt.block_on(async {
        let mut pa = pair();
        let mut pb = pair();
        for (n, (c, s)) in pairs.iter().enumerate() {
            let mut log = |name: &str, r: Result<(Vec<Value>, String), String>| {
                let (replies, ret) = r.unwrap_or_else(|p| (vec![json!({"t": "other", "why": "panic"})], format!("panic:{p}")));
                w.ev(json!({"ev": "hs", "impl": name, "c": rows_json(c), "s": rows_json(s), "replies": replies, "ret": ret}));
            };
            log("n1-n2n", Ok(run1(&mut pa, c, s, n2n_1).await));
            log("n1-n2c", Ok(run1(&mut pb, c, s, n2c_1).await));
            log("n2", pv_core::catch(|| run2(c, s, n)));
        }
    });
    println!("{}", json!({"events": w.finish(), "pairs": pairs.len()}));
}

/// M1: replay the (C, S) pairs enumerated by TLC (GenHandshake)
pub fn replay(args: &Args) {
    let pairs: Vec<_> = read_ndjson(args.get("in")).iter().map(|v| (rows(&v["c"]), rows(&v["s"]))).collect();
    drive(&pairs, args.get("out"));
}

/// M3: seeded tables of 0..16 versions, overlapping and disjoint, equal and different data / magics
pub fn trace(args: &Args) {
    let mut g = Rng::new(args.seed());
    let magics: Vec<i64> = (1..=MAGICS.len() as i64).collect();
    let mut pairs = Vec::new();
    for _ in 0..args.num("n", 300) {
        let pool: Vec<i64> = match g.below(3) {
            0 => (7..=14).collect(),
            1 => (32770..=32791).chain([1, 4097]).collect(),
            _ => (0..40).map(|_| g.below(2_000_000_000) as i64).collect(),
        };
        // the "home" network and its wide twin (same low 32 bits) are the usual choices
        let home = *g.pick(&[1i64, 2, 3, 5]);
        let table = |g: &mut Rng, from: &[i64], base: &[Row]| -> Vec<Row> {
            let n = g.below(17) as usize;
            let mut vs: Vec<i64> = from.to_vec();
            g.shuffle(&mut vs);
            vs.truncate(n.min(vs.len()));
            vs.iter()
                .map(|v| match base.iter().find(|r| r[0] == *v) {
                    Some(r) if g.chance(2, 3) => *r,                                  // same data as the other side
                    Some(r) if g.bool() => [*v, r[1], g.below(4) as i64],             // same magic, other data
                    _ => [*v, if g.chance(2, 4) { home } else if g.bool() { home + 1 } else { *g.pick(&magics) }, g.below(4) as i64],
                })
                .collect()
        };
        let s = table(&mut g, &pool, &[]);
        // the proposal: overlapping with S, or (1 in 4) drawn from the versions S does not have
        let c = if g.chance(1, 4) {
            let rest: Vec<i64> = pool.iter().copied().filter(|v| !s.iter().any(|r| r[0] == *v)).collect();
            table(&mut g, &rest, &[])
        } else {
            table(&mut g, &pool, &s)
        };
        pairs.push((c, s));
    }
    drive(&pairs, args.get("out"));
}
