//! Local-tx-submission reject reasons (`TxValidationError`): a breadth-first
//! sample of the ledger-failure tree with generated payloads, plus the values
//! obtained by decoding the reject-reason corpus embedded in the unit tests of
//! pallas-network/src/miniprotocols/localtxsubmission/codec.rs (real node output).
use crate::queries::{coin, gov_id, hash28, txin};
use crate::wf::{emit, Out, G};
use pallas_codec::minicbor;
use pallas_codec::utils::{Bytes, Set};
use pallas_network::miniprotocols::localstate::queries_v16 as q;
use pallas_network::miniprotocols::localtxsubmission::primitives::{Credential, Language, StakeCredential, Voter};
use pallas_network::miniprotocols::localtxsubmission::*;

fn dc(g: &mut G) -> DisplayCoin {
    DisplayCoin(coin(g.u64()))
}
fn kh(g: &mut G) -> KeyHash {
    KeyHash(Bytes::from(g.hash(28)))
}
fn sh(g: &mut G) -> SafeHash {
    SafeHash(Bytes::from(g.hash(32)))
}
fn ra(g: &mut G) -> DisplayRewardAccount {
    DisplayRewardAccount(Bytes::from(g.hash(29)))
}
fn few<T>(g: &mut G, mut f: impl FnMut(&mut G) -> T) -> Vec<T> {
    (0..g.0.below(4)).map(|_| f(g)).collect()
}
fn set<T>(g: &mut G, f: impl FnMut(&mut G) -> T) -> Set<T> {
    Set::from(few(g, f))
}
fn net(g: &mut G) -> Network {
    if g.0.bool() { Network::Mainnet } else { Network::Testnet }
}
fn cred(g: &mut G) -> Credential {
    if g.0.bool() { Credential::KeyHashObj(hash28(g)) } else { Credential::ScriptHashObj(hash28(g)) }
}
fn scred(g: &mut G) -> StakeCredential {
    if g.0.bool() { StakeCredential::AddrKeyhash(hash28(g)) } else { StakeCredential::ScriptHash(hash28(g)) }
}
fn voter(g: &mut G) -> Voter {
    match g.0.below(5) {
        0 => Voter::ConstitutionalCommitteeKey(hash28(g)),
        1 => Voter::ConstitutionalCommitteeScript(hash28(g)),
        2 => Voter::DRepKey(hash28(g)),
        3 => Voter::DRepScript(hash28(g)),
        _ => Voter::StakePoolKey(hash28(g)),
    }
}
fn smaybe<T>(g: &mut G, f: impl FnOnce(&mut G) -> T) -> SMaybe<T> {
    if g.0.bool() { SMaybe::Some(f(g)) } else { SMaybe::None }
}
fn i63(g: &mut G) -> i64 {
    let v = (g.u64() >> 1) as i64;
    if g.0.bool() { v } else { -v - 1 }
}
fn ix(g: &mut G) -> PlutusPurposeIx {
    match g.0.below(6) {
        0 => PlutusPurpose::Spending(g.u64()),
        1 => PlutusPurpose::Minting(g.u64()),
        2 => PlutusPurpose::Certifying(g.u64()),
        3 => PlutusPurpose::Rewarding(g.u64()),
        4 => PlutusPurpose::Voting(g.u64()),
        _ => PlutusPurpose::Proposing(g.u64()),
    }
}

fn name<T: std::fmt::Debug>(x: &T) -> String {
    format!("{x:?}").split(|c: char| !c.is_alphanumeric() && c != '_').next().unwrap_or("?").to_string()
}

fn utxo(g: &mut G) -> Vec<UtxoFailure> {
    use UtxoFailure::*;
    vec![
        UtxosFailure(self::UtxosFailure::ValidationTagMismatch(g.0.bool(), TagMismatchDescription::PassedUnexpectedly)),
        UtxosFailure(self::UtxosFailure::ValidationTagMismatch(
            g.0.bool(),
            TagMismatchDescription::FailedUnexpectedly(few(g, |g| FailureDescription::PlutusFailure(g.string(), Bytes::from(g.bytes())))),
        )),
        UtxosFailure(self::UtxosFailure::CollectErrors(Array(vec![
            CollectError::NoWitness(DisplayScriptHash(hash28(g))),
            CollectError::NoCostModel(Language::PlutusV2),
        ]))),
        BadInputsUTxO(set(g, txin)),
        OutsideValidityIntervalUTxO(
            ValidityInterval { invalid_before: smaybe(g, |g| g.u64()), invalid_hereafter: smaybe(g, |g| g.u64()) },
            g.u64(),
        ),
        MaxTxSizeUTxO(i63(g), i63(g)),
        InputSetEmptyUTxO,
        FeeTooSmallUTxO(dc(g), dc(g)),
        ValueNotConservedUTxO(q::Value::Coin(coin(g.u64())), q::Value::Coin(coin(g.u64()))),
        WrongNetwork(net(g), set(g, |g| DisplayAddress(Bytes::from(g.hash(57))))),
        WrongNetworkWithdrawal(net(g), set(g, ra)),
        InsufficientCollateral(DeltaCoin(g.u32() as i32), dc(g)),
        ExUnitsTooBigUTxO(q::ExUnits { mem: g.u64(), steps: g.u64() }, q::ExUnits { mem: g.u64(), steps: g.u64() }),
        CollateralContainsNonADA(q::Value::Coin(coin(g.u64()))),
        WrongNetworkInTxBody(net(g), net(g)),
        OutsideForecast(g.u64()),
        TooManyCollateralInputs(g.u16(), g.u16()),
        NoCollateralInputs,
        IncorrectTotalCollateralField(DeltaCoin(-(g.u16() as i32)), dc(g)),
        BabbageNonDisjointRefInputs(few(g, txin)),
    ]
}

fn utxow(g: &mut G) -> Vec<ConwayUtxoWPredFailure> {
    use ConwayUtxoWPredFailure::*;
    vec![
        InvalidWitnessesUTXOW(Array(few(g, |g| VKey(Bytes::from(g.hash(32)))))),
        MissingVKeyWitnessesUTXOW(set(g, kh)),
        MissingScriptWitnessesUTXOW(set(g, hash28)),
        ScriptWitnessNotValidatingUTXOW(set(g, hash28)),
        MissingTxBodyMetadataHash(Bytes::from(g.hash(32))),
        MissingTxMetadata(Bytes::from(g.hash(32))),
        ConflictingMetadataHash(Bytes::from(g.hash(32)), Bytes::from(g.hash(32))),
        InvalidMetadata(),
        ExtraneousScriptWitnessesUTXOW(set(g, hash28)),
        MissingRequiredDatums(set(g, sh), set(g, sh)),
        NotAllowedSupplementalDatums(set(g, sh), set(g, sh)),
        PPViewHashesDontMatch(smaybe(g, sh), smaybe(g, sh)),
        UnspendableUTxONoDatumHash(set(g, txin)),
        ExtraRedeemers(Array(few(g, ix))),
        MalformedScriptWitnesses(set(g, hash28)),
        MalformedReferenceScripts(set(g, hash28)),
    ]
}

fn certs(g: &mut G) -> Vec<ConwayCertsPredFailure> {
    use ConwayCertPredFailure::*;
    use ConwayCertsPredFailure::*;
    let mut v = vec![WithdrawalsNotInRewardsCERTS(OHashMap(few(g, |g| (ra(g), dc(g)))))];
    {
        use ConwayDelegPredFailure::*;
        for f in [
            IncorrectDepositDELEG(dc(g)),
            StakeKeyRegisteredDELEG(cred(g)),
            StakeKeyNotRegisteredDELEG(cred(g)),
            StakeKeyHasNonZeroRewardAccountBalanceDELEG(dc(g)),
            DelegateeDRepNotRegisteredDELEG(cred(g)),
            DelegateeStakePoolNotRegisteredDELEG(kh(g)),
        ] {
            v.push(CertFailure(DelegFailure(f)));
        }
    }
    {
        use ShelleyPoolPredFailure::*;
        for f in [
            StakePoolNotRegisteredOnKeyPOOL(kh(g)),
            StakePoolRetirementWrongEpochPOOL(Mismatch(EpochNo(g.u64()), EpochNo(g.u64())), Mismatch(EpochNo(g.u64()), EpochNo(g.u64()))),
            StakePoolCostTooLowPOOL(Mismatch(dc(g), dc(g))),
            WrongNetworkPOOL(Mismatch(net(g), net(g)), kh(g)),
            PoolMedataHashTooBig(kh(g), i63(g)),
        ] {
            v.push(CertFailure(PoolFailure(f)));
        }
    }
    {
        use ConwayGovCertPredFailure::*;
        for f in [
            DRepAlreadyRegistered(cred(g)),
            DRepNotRegistered(cred(g)),
            DRepIncorrectDeposit(dc(g), dc(g)),
            CommitteeHasPreviouslyResigned(cred(g)),
            DRepIncorrectRefund(dc(g), dc(g)),
            CommitteeIsUnknown(cred(g)),
        ] {
            v.push(CertFailure(GovCertFailure(f)));
        }
    }
    v
}

fn gov(g: &mut G) -> Vec<ConwayGovPredFailure> {
    use ConwayGovPredFailure::*;
    vec![
        GovActionsDoNotExist(few(g, gov_id)),
        ProposalProcedureNetworkIdMismatch(ra(g), net(g)),
        TreasuryWithdrawalsNetworkIdMismatch(set(g, ra), net(g)),
        ProposalDepositIncorrect(dc(g), dc(g)),
        DisallowedVoters(few(g, |g| (voter(g), gov_id(g)))),
        ConflictingCommitteeUpdate(set(g, cred)),
        ExpirationEpochTooSmall(OHashMap(few(g, |g| (scred(g), EpochNo(g.u64()))))),
        VotingOnExpiredGovAction(few(g, |g| (voter(g), gov_id(g)))),
        ProposalCantFollow(smaybe(g, gov_id), (g.u64(), g.u64()), (g.u64(), g.u64())),
        InvalidPolicyHash(smaybe(g, |g| DisplayScriptHash(hash28(g))), smaybe(g, |g| DisplayScriptHash(hash28(g)))),
        DisallowedVotesDuringBootstrap(few(g, |g| (voter(g), gov_id(g)))),
        VotersDoNotExist(few(g, voter)),
        ProposalReturnAccountDoesNotExist(ra(g)),
        TreasuryWithdrawalReturnAccountsDoNotExist(few(g, ra)),
    ]
}

/// one TxValidationError per sampled ledger failure + multi-failure lists + the non-Shelley variants
pub fn rejections(g: &mut G) -> Vec<(TxValidationError, String)> {
    use ConwayLedgerFailure::*;
    let mut fs: Vec<(ConwayLedgerFailure, String)> = Vec::new();
    for f in utxo(g) {
        let n = format!("Utxow.Utxo.{}", if let UtxoFailure::UtxosFailure(u) = &f { format!("Utxos.{}", name(u)) } else { name(&f) });
        fs.push((UtxowFailure(ConwayUtxoWPredFailure::UtxoFailure(f)), n));
    }
    for f in utxow(g) {
        let n = format!("Utxow.{}", name(&f));
        fs.push((UtxowFailure(f), n));
    }
    for f in certs(g) {
        let n = match &f {
            ConwayCertsPredFailure::CertFailure(c) => match c {
                ConwayCertPredFailure::DelegFailure(x) => format!("Certs.Deleg.{}", name(x)),
                ConwayCertPredFailure::PoolFailure(x) => format!("Certs.Pool.{}", name(x)),
                ConwayCertPredFailure::GovCertFailure(x) => format!("Certs.GovCert.{}", name(x)),
            },
            other => format!("Certs.{}", name(other)),
        };
        fs.push((CertsFailure(f), n));
    }
    for f in gov(g) {
        let n = format!("Gov.{}", name(&f));
        fs.push((GovFailure(f), n));
    }
    for f in [
        WdrlNotDelegatedToDRep(few(g, kh)),
        TreasuryValueMismatch(dc(g), dc(g)),
        TxRefScriptsSizeTooBig(i63(g), i63(g)),
        MempoolFailure(g.string()),
        WithdrawalsMissingAccounts(OHashMap(few(g, |g| (ra(g), dc(g))))),
        IncompleteWithdrawals(OHashMap(few(g, |g| (ra(g), (dc(g), dc(g)))))),
    ] {
        let n = name(&f);
        fs.push((f, n));
    }
    let era = |g: &mut G| match g.0.below(6) {
        0 => ShelleyBasedEra::Shelley,
        1 => ShelleyBasedEra::Allegra,
        2 => ShelleyBasedEra::Mary,
        3 => ShelleyBasedEra::Alonzo,
        4 => ShelleyBasedEra::Babbage,
        _ => ShelleyBasedEra::Conway,
    };
    let mut out: Vec<(TxValidationError, String)> = Vec::new();
    out.push((TxValidationError::ShelleyTxValidationError { error: ApplyTxError(vec![]), era: era(g) }, "shelley/no-failures".into()));
    // list of two: drawn from the UTXOW group (the leading entries); every other failure is sent on its own below
    let n_utxow = fs.iter().take_while(|(_, n)| n.starts_with("Utxow.")).count() as u64;
    let a = g.0.below(n_utxow) as usize;
    let b = g.0.below(n_utxow) as usize;
    out.push((
        TxValidationError::ShelleyTxValidationError { error: ApplyTxError(vec![fs[a].0.clone(), fs[b].0.clone()]), era: era(g) },
        "shelley/two-failures".into(),
    ));
    for (f, n) in fs {
        out.push((TxValidationError::ShelleyTxValidationError { error: ApplyTxError(vec![f]), era: era(g) }, format!("shelley/{n}")));
    }
    out.push((TxValidationError::ByronTxValidationError { error: ApplyTxError(vec![]) }, "byron".into()));
    out.push((TxValidationError::Plutus(g.string()), "plutus-string".into()));
    out
}

/// every hex literal passed to `assert_reject_reason(..)` in the codec's unit tests, decoded to a value
pub fn corpus(o: &mut Out) -> usize {
    let path = format!("{}/pallas-network/src/miniprotocols/localtxsubmission/codec.rs", pv_core::repo_root());
    let Ok(src) = std::fs::read_to_string(&path) else { return 0 };
    let mut n = 0;
    let mut seen = std::collections::BTreeSet::new();
    let mut seen_values = std::collections::BTreeSet::new();
    for part in src.split("assert_reject_reason(").skip(1) {
        let Some(lit) = part.split('"').nth(1) else { continue };
        if lit.is_empty() || lit.len() % 2 != 0 || !lit.bytes().all(|c| c.is_ascii_hexdigit()) || !seen.insert(lit.to_string()) {
            continue;
        }
        let bytes = pv_core::unhex(lit);
        let Ok(Ok(v)) = pv_core::catch(|| minicbor::decode::<TxValidationError>(&bytes)) else { continue };
        // one message per ledger failure of the decoded value, so that a finding names the failure variant
        let singles: Vec<(TxValidationError, String)> = match v {
            TxValidationError::ShelleyTxValidationError { error, era } => error
                .0
                .into_iter()
                .map(|f| {
                    let c = format!("shelley/{}", failure_name(&f));
                    (TxValidationError::ShelleyTxValidationError { error: ApplyTxError(vec![f]), era: era.clone() }, c)
                })
                .collect(),
            other => {
                let c = format!("corpus/{}", name(&other));
                vec![(other, c)]
            }
        };
        for (v, class) in singles {
            if !seen_values.insert(format!("{v:?}")) {
                continue;
            }
            n += 1;
            let m: Message<EraTx, TxValidationError> = Message::RejectTx(v);
            emit(o, "n1", "localtxsubmission", "RejectTx", &class, &m, &|m| format!("{m:?}"));
        }
    }
    n
}

pub fn failure_name(f: &ConwayLedgerFailure) -> String {
    use ConwayLedgerFailure::*;
    match f {
        UtxowFailure(ConwayUtxoWPredFailure::UtxoFailure(UtxoFailure::UtxosFailure(u))) => format!("Utxow.Utxo.Utxos.{}", name(u)),
        UtxowFailure(ConwayUtxoWPredFailure::UtxoFailure(u)) => format!("Utxow.Utxo.{}", name(u)),
        UtxowFailure(u) => format!("Utxow.{}", name(u)),
        CertsFailure(ConwayCertsPredFailure::CertFailure(c)) => match c {
            ConwayCertPredFailure::DelegFailure(x) => format!("Certs.Deleg.{}", name(x)),
            ConwayCertPredFailure::PoolFailure(x) => format!("Certs.Pool.{}", name(x)),
            ConwayCertPredFailure::GovCertFailure(x) => format!("Certs.GovCert.{}", name(x)),
        },
        CertsFailure(c) => format!("Certs.{}", name(c)),
        GovFailure(x) => format!("Gov.{}", name(x)),
        other => name(other),
    }
}
