//! Local-state-query payload values (queries_v16): every `Request` /
//! `BlockQuery` variant, and a few typed results wrapped as `AnyCbor`.
use crate::wf::G;
use pallas_codec::utils::{AnyCbor, AnyUInt, Bytes, TagWrap};
use pallas_network::miniprotocols::localstate::queries_v16 as q;
use pallas_network::miniprotocols::localtxsubmission::SMaybe;
use std::collections::BTreeSet;

/// the width-minimal AnyUInt of a value (other widths are C03's business)
pub fn coin(v: u64) -> AnyUInt {
    match v {
        0..=23 => AnyUInt::MajorByte(v as u8),
        24..=0xFF => AnyUInt::U8(v as u8),
        0x100..=0xFFFF => AnyUInt::U16(v as u16),
        0x1_0000..=0xFFFF_FFFF => AnyUInt::U32(v as u32),
        _ => AnyUInt::U64(v),
    }
}

pub fn b28(g: &mut G) -> Bytes {
    Bytes::from(g.hash(28))
}
pub fn stake_addr(g: &mut G) -> q::StakeAddr {
    q::StakeAddr::from((g.0.below(2) as u8, b28(g)))
}
pub fn hash32(g: &mut G) -> pallas_network::miniprotocols::localtxsubmission::Hash<32> {
    let mut h = [0u8; 32];
    g.0.fill(&mut h);
    h.into()
}
pub fn hash28(g: &mut G) -> pallas_network::miniprotocols::localtxsubmission::Hash<28> {
    let mut h = [0u8; 28];
    g.0.fill(&mut h);
    h.into()
}
pub fn txin(g: &mut G) -> q::TransactionInput {
    q::TransactionInput { transaction_id: hash32(g), index: g.u64() }
}
pub fn gov_id(g: &mut G) -> q::GovActionId {
    q::GovActionId { tx_id: hash32(g), gov_action_ix: g.u32() }
}
fn set<T: Ord>(g: &mut G, mut f: impl FnMut(&mut G) -> T) -> BTreeSet<T> {
    (0..g.0.below(4)).map(|_| f(g)).collect()
}
fn tagged<T: Ord>(g: &mut G, f: impl FnMut(&mut G) -> T) -> q::TaggedSet<T> {
    TagWrap(set(g, f))
}
fn pools(g: &mut G) -> q::Pools {
    tagged(g, b28)
}
fn maybe_pools(g: &mut G) -> SMaybe<q::Pools> {
    if g.0.bool() { SMaybe::Some(pools(g)) } else { SMaybe::None }
}
fn drep(g: &mut G) -> q::DRep {
    match g.0.below(4) {
        0 => q::DRep::KeyHash(b28(g)),
        1 => q::DRep::ScriptHash(b28(g)),
        2 => q::DRep::AlwaysAbstain,
        _ => q::DRep::AlwaysNoConfidence,
    }
}

pub fn requests(g: &mut G) -> Vec<(q::Request, String)> {
    use q::BlockQuery::*;
    let status = |g: &mut G| *g.0.pick(&[0u8, 1, 2]);
    let bqs: Vec<q::BlockQuery> = vec![
        GetLedgerTip,
        GetEpochNo,
        GetNonMyopicMemberRewards(tagged(g, |g| if g.0.bool() { q::Either::Left(coin(g.u64())) } else { q::Either::Right(stake_addr(g)) })),
        GetCurrentPParams,
        GetProposedPParamsUpdates,
        GetStakeDistribution,
        GetUTxOByAddress((0..g.0.below(4)).map(|_| Bytes::from(g.bytes())).collect()),
        GetUTxOWhole,
        DebugEpochState,
        GetCBOR(Box::new(if g.0.bool() { GetEpochNo } else { GetUTxOByTxIn(set(g, txin)) })),
        GetFilteredDelegationsAndRewardAccounts(set(g, stake_addr)),
        GetGenesisConfig,
        DebugNewEpochState,
        DebugChainDepState,
        GetRewardProvenance,
        GetUTxOByTxIn(set(g, txin)),
        GetStakePools,
        GetStakePoolParams(pools(g)),
        GetRewardInfoPools,
        GetPoolState(maybe_pools(g)),
        GetStakeSnapshots(maybe_pools(g)),
        GetPoolDistr(maybe_pools(g)),
        GetStakeDelegDeposits(tagged(g, stake_addr)),
        GetConstitution,
        GetGovState,
        GetDRepState(tagged(g, stake_addr)),
        GetDRepStakeDistr(tagged(g, drep)),
        GetCommitteeMembersState(
            tagged(g, stake_addr),
            tagged(g, stake_addr),
            tagged(g, |g| match status(g) {
                0 => q::MemberStatus::Active,
                1 => q::MemberStatus::Expired,
                _ => q::MemberStatus::Unrecognized,
            }),
        ),
        GetFilteredVoteDelegatees(set(g, stake_addr)),
        GetAccountState,
        GetSPOStakeDistr(pools(g)),
        GetProposals(tagged(g, gov_id)),
        GetRatifyState,
        GetFuturePParams,
        GetBigLedgerPeerSnapshot,
        GetLedgerPeerSnapshot(if g.0.bool() { q::LedgerPeerSnapshotKind::All } else { q::LedgerPeerSnapshotKind::Big }),
        GetPoolDistr2(maybe_pools(g)),
        GetStakeDistribution2,
        GetDRepsDelegations(tagged(g, drep)),
    ];
    let mut out = vec![
        (q::Request::GetSystemStart, "GetSystemStart".to_string()),
        (q::Request::GetChainBlockNo, "GetChainBlockNo".to_string()),
        (q::Request::GetChainPoint, "GetChainPoint".to_string()),
        (q::Request::LedgerQuery(q::LedgerQuery::HardForkQuery(q::HardForkQuery::GetInterpreter)), "GetInterpreter".to_string()),
        (q::Request::LedgerQuery(q::LedgerQuery::HardForkQuery(q::HardForkQuery::GetCurrentEra)), "GetCurrentEra".to_string()),
    ];
    for bq in bqs {
        let name = format!("{bq:?}");
        let name = name.split(|c: char| !c.is_alphanumeric()).next().unwrap_or("?").to_string();
        out.push((q::Request::LedgerQuery(q::LedgerQuery::BlockQuery(g.0.range(0, 7) as u16, bq)), name));
    }
    out
}

pub fn results(g: &mut G) -> Vec<(AnyCbor, &'static str)> {
    vec![
        (AnyCbor::from_encode(q::ChainBlockNumber { slot_timeline: g.u32(), block_number: g.u32() }), "ChainBlockNumber"),
        (
            AnyCbor::from_encode(q::SystemStart {
                year: q::BigInt::from(g.u32() as i64),
                day_of_year: g.0.range(1, 366) as i64,
                picoseconds_of_day: q::BigInt::from(g.u64() as i64 >> 1),
            }),
            "SystemStart",
        ),
        (AnyCbor::from_encode(set(g, txin)), "TxIns"),
    ]
}
