//! C22 driver (M3): generate message values of every variant of every
//! mini-protocol of both stacks, encode them with the real codecs, tokenize the
//! bytes (tok.rs) and log one event per message:
//!   {"ev":"msg","stack":"n1"|"n2","proto":..,"variant":..,"class":..,
//!    "enc":"ok"|"error"|"panic","dec":"ok"|"error"|"panic"|"-",
//!    "rt":bool,"reenc":bool,"toks":[[major,arg,indef]..],"len":N,"hex":".."}
//! `rt` = decode(encode(m)) is an equal message.  Equality is the Debug
//! rendering of the value (most Message types have no PartialEq), with version
//! tables rendered in key order (HashMap iteration order is not part of the value).
//! TraceWF.tla decides: enc = "ok" /\ Accepts(toks) /\ rt.
use crate::tok::tokenize;
use pallas_codec::minicbor::{self, Decode, Encode};
use pallas_codec::utils::{AnyCbor, Bytes, TagWrap};
use pallas_network::miniprotocols as n1;
use pallas_network2::protocol as n2;
use pv_core::{catch, json, Args, Ndjson, Rng};
use std::collections::{BTreeMap, BTreeSet, HashMap};
use std::fmt::Debug;
use std::net::{Ipv4Addr, Ipv6Addr};

pub struct Out {
    pub w: Ndjson,
}

fn dbg<M: Debug>(m: &M) -> String {
    format!("{m:?}")
}

pub fn emit<M>(o: &mut Out, stack: &str, proto: &str, variant: &str, class: &str, m: &M, norm: &dyn Fn(&M) -> String)
where
    M: Encode<()> + for<'b> Decode<'b, ()>,
{
    let mut ev = json!({"ev": "msg", "stack": stack, "proto": proto, "variant": variant, "class": class,
                        "enc": "ok", "dec": "-", "rt": false, "reenc": false, "toks": [], "len": 0, "hex": ""});
    match catch(|| minicbor::to_vec(m)) {
        Err(p) => {
            ev["enc"] = json!("panic");
            ev["why"] = json!(p);
        }
        Ok(Err(e)) => {
            ev["enc"] = json!("error");
            ev["why"] = json!(e.to_string());
        }
        Ok(Ok(bytes)) => {
            ev["toks"] = json!(tokenize(&bytes));
            ev["len"] = json!(bytes.len());
            ev["hex"] = json!(pv_core::hex(&bytes[..bytes.len().min(64)]));
            match catch(|| minicbor::decode::<M>(&bytes)) {
                Err(p) => {
                    ev["dec"] = json!("panic");
                    ev["why"] = json!(p);
                }
                Ok(Err(e)) => {
                    ev["dec"] = json!("error");
                    ev["why"] = json!(e.to_string());
                }
                Ok(Ok(m2)) => {
                    ev["dec"] = json!("ok");
                    let (a, b) = (norm(m), norm(&m2));
                    let same = a == b;
                    ev["rt"] = json!(same);
                    if !same {
                        // the first place where the two renderings differ, with some context
                        let (ca, cb): (Vec<char>, Vec<char>) = (a.chars().collect(), b.chars().collect());
                        let k = ca.iter().zip(cb.iter()).take_while(|(x, y)| x == y).count();
                        let cut = |c: &[char]| c[k.saturating_sub(60)..c.len().min(k + 100)].iter().collect::<String>();
                        ev["why"] = json!(format!("sent ..{}.. decoded ..{}..", cut(&ca), cut(&cb)));
                    }
                    ev["reenc"] = json!(matches!(catch(|| minicbor::to_vec(&m2)), Ok(Ok(b2)) if b2 == bytes));
                }
            }
        }
    }
    o.w.ev(ev);
}

macro_rules! put {
    ($o:expr, $stack:expr, $proto:expr, $variant:expr, $class:expr, $m:expr) => {
        emit($o, $stack, $proto, $variant, $class, &$m, &dbg)
    };
}

// ------------------------------------------------------------ value generators
/// Seeded generator. Every field generator mixes uniformly random values with the *structured special values* of
/// its domain (integer width boundaries, special-purpose IP ranges, empty / boundary-length strings and lists);
/// the specials are taken round-robin (`cur`), so that all of them occur in every run, whatever the seed.
pub struct G(pub Rng, pub usize);

const EDGE: [u64; 17] = [0, 1, 23, 24, 255, 256, 65535, 65536, 0xFFFF_FFFF, 0x1_0000_0000, (1 << 63) - 1, 1 << 63, u64::MAX - 1, u64::MAX,
                         764824073, 2, 1097911063];

/// special-purpose IPv4 addresses (RFC 6890): unspecified, loopback, broadcast, TEST-NET-1, private, link-local, multicast
pub const V4_SPECIAL: [[u8; 4]; 9] = [[0, 0, 0, 0], [127, 0, 0, 1], [255, 255, 255, 255], [192, 0, 2, 146], [10, 0, 0, 1], [169, 254, 1, 1],
                                      [224, 0, 0, 1], [192, 168, 255, 255], [1, 0, 0, 0]];
/// special-purpose IPv6 addresses: ::, ::1, IPv4-mapped (::ffff:a.b.c.d), IPv4-compatible (::a.b.c.d), NAT64 64:ff9b::/96,
/// link-local fe80::/10, unique-local fc00::/7, multicast ff00::/8, 6to4 2002::/16, documentation 2001:db8::/32, all-ones
pub const V6_SPECIAL: [u128; 14] = [
    0,
    1,
    0xffff_c000_0292,
    0xffff_0000_0000,
    0xffff_ffff_ffff,
    0xc000_0292,
    0x0064_ff9b_0000_0000_0000_0000_c000_0292,
    0xfe80_0000_0000_0000_0000_0000_0000_0001,
    0xfd00_0000_0000_0000_0000_0000_0000_0001,
    0xff02_0000_0000_0000_0000_0000_0000_0001,
    0x2002_c000_0292_0000_0000_0000_0000_0001,
    0x2001_0db8_0000_0000_0000_0000_0000_0001,
    0xffff_0000_0000_0000_0000_0000_0000_0000,
    u128::MAX,
];

impl G {
    fn next(&mut self) -> usize {
        self.1 += 1;
        self.1
    }
    pub fn u64(&mut self) -> u64 {
        if self.0.bool() { EDGE[self.next() % EDGE.len()] } else { self.0.next_u64() >> self.0.below(64) }
    }
    pub fn u32(&mut self) -> u32 {
        self.u64().min(u32::MAX as u64) as u32
    }
    pub fn u16(&mut self) -> u16 {
        self.u64().min(u16::MAX as u64) as u16
    }
    pub fn u8(&mut self) -> u8 {
        self.u64().min(u8::MAX as u64) as u8
    }
    pub fn len(&mut self) -> usize {
        // 65535 / 65536: the 2-byte / 4-byte length head boundary (rare, they are big)
        if self.0.chance(1, 60) { *self.0.pick(&[65535usize, 65536]) } else { *self.0.pick(&[0usize, 1, 2, 3, 23, 24, 25, 32, 255, 256, 300]) }
    }
    pub fn count(&mut self) -> usize {
        // 255 / 256: the 1-byte / 2-byte count head boundary (rare)
        if self.0.chance(1, 60) { *self.0.pick(&[255usize, 256]) } else { *self.0.pick(&[0usize, 1, 2, 3, 5, 23, 24, 30]) }
    }
    pub fn bytes(&mut self) -> Vec<u8> {
        let n = self.len();
        self.0.bytes(n)
    }
    pub fn hash(&mut self, n: usize) -> Vec<u8> {
        self.0.bytes(n)
    }
    pub fn string(&mut self) -> String {
        let n = self.len();
        let alphabet = ["a", "Z", "0", " ", "\"", "\\", "é", "ß", "€", "漢", "🦀", "\n"];
        let mut s = String::new();
        while s.len() < n {
            s.push_str(*self.0.pick(&alphabet[..]));
        }
        s
    }
    pub fn vec<T>(&mut self, mut f: impl FnMut(&mut G) -> T) -> Vec<T> {
        let n = self.count();
        (0..n).map(|_| f(self)).collect()
    }
    pub fn any_cbor(&mut self) -> AnyCbor {
        match self.0.below(6) {
            0 => AnyCbor::from_encode(self.u64()),
            1 => AnyCbor::from_encode(minicbor::bytes::ByteVec::from(self.bytes())),
            2 => AnyCbor::from_encode((self.u64(), self.string(), self.0.bool())),
            3 => AnyCbor::from_encode(self.vec(|g| g.u64())),
            4 => AnyCbor::from_encode(BTreeMap::from([(self.u64(), self.string()), (self.u64(), self.string())])),
            _ => AnyCbor::from_encode(TagWrap::<Bytes, 24>(Bytes::from(self.bytes()))),
        }
    }
    pub fn v4(&mut self) -> Ipv4Addr {
        if self.0.bool() { Ipv4Addr::from(V4_SPECIAL[self.next() % V4_SPECIAL.len()]) } else { Ipv4Addr::from(self.u32()) }
    }
    pub fn v6(&mut self) -> Ipv6Addr {
        if self.0.bool() {
            return Ipv6Addr::from(V6_SPECIAL[self.next() % V6_SPECIAL.len()]);
        }
        let w = [self.u32(), self.u32(), self.u32(), self.u32()];
        Ipv6Addr::from(((w[0] as u128) << 96) | ((w[1] as u128) << 64) | ((w[2] as u128) << 32) | w[3] as u128)
    }
    pub fn port(&mut self) -> u16 {
        *self.0.pick(&[0u16, 1, 23, 24, 255, 256, 3001, 65534, 65535])
    }
    /// 0..16 distinct version numbers (N2N 7..14, N2C 32770.., small and huge ones)
    pub fn versions(&mut self) -> Vec<u64> {
        let n = self.0.below(17) as usize;
        let mut s = BTreeSet::new();
        while s.len() < n {
            s.insert(match self.0.below(4) {
                0 => self.0.range(7, 14),
                1 => self.0.range(32770, 32791),
                2 => self.0.range(0, 40),
                _ => self.u64(),
            });
        }
        let mut v: Vec<u64> = s.into_iter().collect();
        self.0.shuffle(&mut v);
        v
    }
}

// ------------------------------------------------------------- original stack
fn p1(g: &mut G) -> (n1::Point, &'static str) {
    match g.0.below(4) {
        0 => (n1::Point::Origin, "origin"),
        1 if g.0.bool() => (n1::Point::Specific(0, g.hash(32)), "slot0"),
        1 => (n1::Point::Specific(g.u64(), g.bytes()), "specific-anylen"),
        _ => (n1::Point::Specific(g.u64(), g.hash(32)), "specific"),
    }
}
fn tip1(g: &mut G) -> n1::chainsync::Tip {
    n1::chainsync::Tip(p1(g).0, g.u64())
}

fn norm_hs1<D: Debug + Clone>(m: &n1::handshake::Message<D>) -> String {
    use n1::handshake::Message::*;
    match m {
        Propose(t) => format!("Propose({:?})", t.values.iter().collect::<BTreeMap<_, _>>()),
        QueryReply(t) => format!("QueryReply({:?})", t.values.iter().collect::<BTreeMap<_, _>>()),
        other => format!("{other:?}"),
    }
}

fn refuse1(g: &mut G) -> (n1::handshake::RefuseReason, &'static str) {
    use n1::handshake::RefuseReason::*;
    match g.0.below(3) {
        0 => (VersionMismatch(g.versions()), "version-mismatch"),
        1 => (HandshakeDecodeError(g.u64(), g.string()), "decode-error"),
        _ => (Refused(g.u64(), g.string()), "refused"),
    }
}

fn hs1<D>(o: &mut Out, g: &mut G, flavour: &str, mut data: impl FnMut(&mut G) -> D)
where
    D: Debug + Clone + Encode<()> + for<'b> Decode<'b, ()>,
{
    use n1::handshake::{Message, VersionTable};
    let proto = format!("handshake-{flavour}");
    let table = |g: &mut G, data: &mut dyn FnMut(&mut G) -> D| VersionTable {
        values: g.versions().into_iter().map(|v| (v, data(g))).collect::<HashMap<_, _>>(),
    };
    let t = table(g, &mut data);
    let class = format!("table{}", if t.values.is_empty() { "-empty" } else { "" });
    emit(o, "n1", &proto, "Propose", &class, &Message::Propose(t), &norm_hs1);
    emit(o, "n1", &proto, "Accept", "-", &Message::Accept(g.u64(), data(g)), &norm_hs1);
    let (r, c) = refuse1(g);
    emit(o, "n1", &proto, "Refuse", c, &Message::<D>::Refuse(r), &norm_hs1);
    let t = table(g, &mut data);
    emit(o, "n1", &proto, "QueryReply", "table", &Message::QueryReply(t), &norm_hs1);
}

fn header1(g: &mut G) -> (n1::chainsync::HeaderContent, &'static str) {
    // representable combinations: a byron prefix exactly for variant 0
    if g.0.chance(1, 3) {
        (n1::chainsync::HeaderContent { variant: 0, byron_prefix: Some((g.u8(), g.u64())), cbor: g.bytes() }, "byron")
    } else {
        (n1::chainsync::HeaderContent { variant: g.0.range(1, 7) as u8, byron_prefix: None, cbor: g.bytes() }, "shelley")
    }
}

fn chainsync1<C>(o: &mut Out, g: &mut G, flavour: &str, mut content: impl FnMut(&mut G) -> (C, &'static str))
where
    C: Debug + Encode<()> + for<'b> Decode<'b, ()>,
{
    use n1::chainsync::Message;
    let proto = format!("chainsync-{flavour}");
    put!(o, "n1", &proto, "RequestNext", "-", Message::<C>::RequestNext);
    put!(o, "n1", &proto, "AwaitReply", "-", Message::<C>::AwaitReply);
    let (c, class) = content(g);
    put!(o, "n1", &proto, "RollForward", class, Message::RollForward(c, tip1(g)));
    let (p, class) = p1(g);
    put!(o, "n1", &proto, "RollBackward", class, Message::<C>::RollBackward(p, tip1(g)));
    let pts = g.vec(|g| p1(g).0);
    let class = if pts.is_empty() { "empty" } else { "points" };
    put!(o, "n1", &proto, "FindIntersect", class, Message::<C>::FindIntersect(pts));
    let (p, class) = p1(g);
    put!(o, "n1", &proto, "IntersectFound", class, Message::<C>::IntersectFound(p, tip1(g)));
    put!(o, "n1", &proto, "IntersectNotFound", "-", Message::<C>::IntersectNotFound(tip1(g)));
    put!(o, "n1", &proto, "Done", "-", Message::<C>::Done);
}

fn peer1(g: &mut G, v6: bool) -> n1::peersharing::PeerAddress {
    use n1::peersharing::PeerAddress::*;
    if v6 { V6(g.v6(), g.port() as _) } else { V4(g.v4(), g.port() as _) }
}

fn peers_class(n: usize, n6: usize) -> &'static str {
    match (n, n6) {
        (0, _) => "empty",
        (_, 0) => "ipv4",
        (a, b) if a == b => "ipv6",
        _ => "mixed",
    }
}

fn dmq(g: &mut G) -> n1::localmsgsubmission::DmqMsg {
    use n1::localmsgsubmission::*;
    DmqMsg {
        msg_id: g.bytes(),
        msg_payload: DmqMsgPayload { msg_body: g.bytes(), kes_period: g.u64(), expires_at: g.u32() },
        kes_signature: g.bytes(),
        operational_certificate: DmqMsgOperationalCertificate {
            kes_vk: g.hash(32),
            issue_number: g.u64(),
            start_kes_period: g.u64(),
            cert_sig: g.hash(64),
        },
        cold_verification_key: g.hash(32),
    }
}

pub fn stack1(o: &mut Out, g: &mut G) {
    // handshake, both flavours; only wire-representable version data (n2n: peer_sharing and query both or neither)
    hs1(o, g, "n2n", |g| {
        let ext = g.0.bool();
        n1::handshake::n2n::VersionData::new(g.u64(), g.0.bool(), ext.then(|| g.u8()), ext.then(|| g.0.bool()))
    });
    hs1(o, g, "n2c", |g| n1::handshake::n2c::VersionData::new(g.u64(), if g.0.bool() { Some(g.0.bool()) } else { None }));

    chainsync1(o, g, "header", header1);
    chainsync1(o, g, "block", |g| (n1::chainsync::BlockContent(g.bytes()), "block"));
    chainsync1(o, g, "skipped", |_| (n1::chainsync::SkippedContent, "skipped"));

    {
        use n1::blockfetch::Message::*;
        let (a, ca) = p1(g);
        put!(o, "n1", "blockfetch", "RequestRange", ca, RequestRange { range: (a, p1(g).0) });
        put!(o, "n1", "blockfetch", "ClientDone", "-", ClientDone);
        put!(o, "n1", "blockfetch", "StartBatch", "-", StartBatch);
        put!(o, "n1", "blockfetch", "NoBlocks", "-", NoBlocks);
        put!(o, "n1", "blockfetch", "Block", "-", Block { body: g.bytes() });
        put!(o, "n1", "blockfetch", "BatchDone", "-", BatchDone);
    }
    {
        use n1::txsubmission::{EraTxBody, EraTxId, Message, TxIdAndSize};
        type M = Message<EraTxId, EraTxBody>;
        let cls = |n: usize| if n == 0 { "empty" } else { "list" };
        put!(o, "n1", "txsubmission", "Init", "-", M::Init);
        put!(o, "n1", "txsubmission", "RequestTxIds", "-", M::RequestTxIds(g.0.bool(), g.u16(), g.u16()));
        let ids = g.vec(|g| TxIdAndSize(EraTxId(g.u16(), g.hash(32)), g.u32()));
        put!(o, "n1", "txsubmission", "ReplyTxIds", cls(ids.len()), M::ReplyTxIds(ids));
        let ids = g.vec(|g| EraTxId(g.u16(), g.bytes()));
        put!(o, "n1", "txsubmission", "RequestTxs", cls(ids.len()), M::RequestTxs(ids));
        let txs = g.vec(|g| EraTxBody(g.u16(), g.bytes()));
        put!(o, "n1", "txsubmission", "ReplyTxs", cls(txs.len()), M::ReplyTxs(txs));
        put!(o, "n1", "txsubmission", "Done", "-", M::Done);
    }
    {
        use n1::keepalive::Message::*;
        put!(o, "n1", "keepalive", "KeepAlive", "-", KeepAlive(g.u16()));
        put!(o, "n1", "keepalive", "ResponseKeepAlive", "-", ResponseKeepAlive(g.u16()));
        put!(o, "n1", "keepalive", "Done", "-", Done);
    }
    {
        use n1::peersharing::Message::*;
        put!(o, "n1", "peersharing", "ShareRequest", "-", ShareRequest(g.u8()));
        for mode in 0..3 {
            let n = if mode == 0 && g.0.chance(1, 3) { 0 } else { 1 + g.0.below(6) as usize };
            let kinds: Vec<bool> = (0..n).map(|_| mode == 1 || (mode == 2 && g.0.bool())).collect();
            let n6 = kinds.iter().filter(|k| **k).count();
            let peers: Vec<_> = kinds.iter().map(|k| peer1(g, *k)).collect();
            put!(o, "n1", "peersharing", "SharePeers", peers_class(n, n6), SharePeers(peers));
        }
        put!(o, "n1", "peersharing", "Done", "-", Done);
    }
    {
        use n1::localstate::{AcquireFailure, Message::*};
        put!(o, "n1", "localstate", "Acquire", "tip", Acquire(None));
        let (p, c) = p1(g);
        put!(o, "n1", "localstate", "Acquire", c, Acquire(Some(p)));
        put!(o, "n1", "localstate", "Failure", "too-old", Failure(AcquireFailure::PointTooOld));
        put!(o, "n1", "localstate", "Failure", "not-on-chain", Failure(AcquireFailure::PointNotOnChain));
        put!(o, "n1", "localstate", "Acquired", "-", Acquired);
        for (q, c) in crate::queries::requests(g) {
            put!(o, "n1", "localstate-query", "Request", &c, q.clone());
            put!(o, "n1", "localstate", "Query", &c, Query(AnyCbor::from_encode(q)));
        }
        put!(o, "n1", "localstate", "Result", "any", Result(g.any_cbor()));
        for (r, c) in crate::queries::results(g) {
            put!(o, "n1", "localstate", "Result", c, Result(r));
        }
        put!(o, "n1", "localstate", "ReAcquire", "tip", ReAcquire(None));
        let (p, c) = p1(g);
        put!(o, "n1", "localstate", "ReAcquire", c, ReAcquire(Some(p)));
        put!(o, "n1", "localstate", "Release", "-", Release);
        put!(o, "n1", "localstate", "Done", "-", Done);
    }
    {
        use n1::localtxsubmission::{EraTx, Message, TxValidationError};
        type M = Message<EraTx, TxValidationError>;
        put!(o, "n1", "localtxsubmission", "SubmitTx", "-", M::SubmitTx(EraTx(g.u16(), g.bytes())));
        put!(o, "n1", "localtxsubmission", "AcceptTx", "-", M::AcceptTx);
        for (r, c) in crate::reject::rejections(g) {
            put!(o, "n1", "localtxsubmission", "RejectTx", &c, M::RejectTx(r));
        }
        put!(o, "n1", "localtxsubmission", "Done", "-", M::Done);
    }
    {
        use n1::localmsgsubmission::{DmqMsg, DmqMsgRejectReason as R, DmqMsgValidationError as E};
        type M = n1::localtxsubmission::Message<DmqMsg, E>;
        put!(o, "n1", "localmsgsubmission", "SubmitTx", "-", M::SubmitTx(dmq(g)));
        put!(o, "n1", "localmsgsubmission", "AcceptTx", "-", M::AcceptTx);
        put!(o, "n1", "localmsgsubmission", "RejectTx", "invalid", M::RejectTx(E(R::Invalid(g.string()))));
        put!(o, "n1", "localmsgsubmission", "RejectTx", "already-received", M::RejectTx(E(R::AlreadyReceived)));
        put!(o, "n1", "localmsgsubmission", "RejectTx", "expired", M::RejectTx(E(R::Expired)));
        put!(o, "n1", "localmsgsubmission", "RejectTx", "other", M::RejectTx(E(R::Other(g.string()))));
        put!(o, "n1", "localmsgsubmission", "Done", "-", M::Done);
    }
    {
        use n1::localmsgnotification::Message::*;
        let cls = |n: usize| if n == 0 { "empty" } else { "list" };
        put!(o, "n1", "localmsgnotification", "RequestMessagesNonBlocking", "-", RequestMessagesNonBlocking);
        let ms: Vec<_> = (0..g.0.below(4)).map(|_| dmq(g)).collect();
        put!(o, "n1", "localmsgnotification", "ReplyMessagesNonBlocking", cls(ms.len()), ReplyMessagesNonBlocking(ms, g.0.bool()));
        put!(o, "n1", "localmsgnotification", "RequestMessagesBlocking", "-", RequestMessagesBlocking);
        let ms: Vec<_> = (0..g.0.below(4)).map(|_| dmq(g)).collect();
        put!(o, "n1", "localmsgnotification", "ReplyMessagesBlocking", cls(ms.len()), ReplyMessagesBlocking(ms));
        put!(o, "n1", "localmsgnotification", "ClientDone", "-", ClientDone);
    }
    {
        use n1::txmonitor::{MempoolSizeAndCapacity, Message::*};
        put!(o, "n1", "txmonitor", "Acquire", "-", Acquire);
        put!(o, "n1", "txmonitor", "AwaitAcquire", "-", AwaitAcquire);
        put!(o, "n1", "txmonitor", "Acquired", "-", Acquired(g.u64()));
        put!(o, "n1", "txmonitor", "RequestHasTx", "-", RequestHasTx(g.string()));
        put!(o, "n1", "txmonitor", "RequestNextTx", "-", RequestNextTx);
        put!(o, "n1", "txmonitor", "RequestSizeAndCapacity", "-", RequestSizeAndCapacity);
        put!(o, "n1", "txmonitor", "ResponseHasTx", "-", ResponseHasTx(g.0.bool()));
        put!(o, "n1", "txmonitor", "ResponseNextTx", "none", ResponseNextTx(None));
        put!(o, "n1", "txmonitor", "ResponseNextTx", "some", ResponseNextTx(Some((g.u8(), TagWrap(Bytes::from(g.bytes()))))));
        let sz = MempoolSizeAndCapacity { capacity_in_bytes: g.u32(), size_in_bytes: g.u32(), number_of_txs: g.u32() };
        put!(o, "n1", "txmonitor", "ResponseSizeAndCapacity", "-", ResponseSizeAndCapacity(sz));
        put!(o, "n1", "txmonitor", "Release", "-", Release);
        put!(o, "n1", "txmonitor", "Done", "-", Done);
    }
}

// ------------------------------------------------------------------ P2P stack
fn p2(g: &mut G) -> (n2::Point, &'static str) {
    match g.0.below(4) {
        0 => (n2::Point::Origin, "origin"),
        1 if g.0.bool() => (n2::Point::Specific(0, g.hash(32)), "slot0"),
        1 => (n2::Point::Specific(g.u64(), g.bytes()), "specific-anylen"),
        _ => (n2::Point::Specific(g.u64(), g.hash(32)), "specific"),
    }
}
fn tip2(g: &mut G) -> n2::chainsync::Tip {
    n2::chainsync::Tip(p2(g).0, g.u64())
}

fn norm_hs2<D: Debug + Clone>(m: &n2::handshake::Message<D>) -> String {
    use n2::handshake::Message::*;
    match m {
        Propose(t) => format!("Propose({:?})", t.values.iter().collect::<BTreeMap<_, _>>()),
        QueryReply(t) => format!("QueryReply({:?})", t.values.iter().collect::<BTreeMap<_, _>>()),
        other => format!("{other:?}"),
    }
}

fn hs2<D>(o: &mut Out, g: &mut G, flavour: &str, mut data: impl FnMut(&mut G) -> D)
where
    D: Debug + Clone + Encode<()> + for<'b> Decode<'b, ()>,
{
    use n2::handshake::{Message, RefuseReason::*, VersionTable};
    let proto = format!("handshake-{flavour}");
    let table = |g: &mut G, data: &mut dyn FnMut(&mut G) -> D| VersionTable {
        values: g.versions().into_iter().map(|v| (v, data(g))).collect::<HashMap<_, _>>(),
    };
    let t = table(g, &mut data);
    let class = format!("table{}", if t.values.is_empty() { "-empty" } else { "" });
    emit(o, "n2", &proto, "Propose", &class, &Message::Propose(t), &norm_hs2);
    emit(o, "n2", &proto, "Accept", "-", &Message::Accept(g.u64(), data(g)), &norm_hs2);
    let (r, c) = match g.0.below(3) {
        0 => (VersionMismatch(g.versions()), "version-mismatch"),
        1 => (HandshakeDecodeError(g.u64(), g.string()), "decode-error"),
        _ => (Refused(g.u64(), g.string()), "refused"),
    };
    emit(o, "n2", &proto, "Refuse", c, &Message::<D>::Refuse(r), &norm_hs2);
    let t = table(g, &mut data);
    emit(o, "n2", &proto, "QueryReply", "table", &Message::QueryReply(t), &norm_hs2);
}

fn chainsync2<C>(o: &mut Out, g: &mut G, flavour: &str, mut content: impl FnMut(&mut G) -> (C, &'static str))
where
    C: Debug + Encode<()> + for<'b> Decode<'b, ()>,
{
    use n2::chainsync::Message;
    let proto = format!("chainsync-{flavour}");
    put!(o, "n2", &proto, "RequestNext", "-", Message::<C>::RequestNext);
    put!(o, "n2", &proto, "AwaitReply", "-", Message::<C>::AwaitReply);
    let (c, class) = content(g);
    put!(o, "n2", &proto, "RollForward", class, Message::RollForward(c, tip2(g)));
    let (p, class) = p2(g);
    put!(o, "n2", &proto, "RollBackward", class, Message::<C>::RollBackward(p, tip2(g)));
    let pts = g.vec(|g| p2(g).0);
    let class = if pts.is_empty() { "empty" } else { "points" };
    put!(o, "n2", &proto, "FindIntersect", class, Message::<C>::FindIntersect(pts));
    let (p, class) = p2(g);
    put!(o, "n2", &proto, "IntersectFound", class, Message::<C>::IntersectFound(p, tip2(g)));
    put!(o, "n2", &proto, "IntersectNotFound", "-", Message::<C>::IntersectNotFound(tip2(g)));
    put!(o, "n2", &proto, "Done", "-", Message::<C>::Done);
}

pub fn stack2(o: &mut Out, g: &mut G) {
    hs2(o, g, "n2n", |g| {
        let ext = g.0.bool();
        n2::handshake::n2n::VersionData::new(g.u64(), g.0.bool(), ext.then(|| g.u8()), ext.then(|| g.0.bool()))
    });
    hs2(o, g, "n2c", |g| n2::handshake::n2c::VersionData::new(g.u64(), if g.0.bool() { Some(g.0.bool()) } else { None }));

    chainsync2(o, g, "header", |g| {
        if g.0.chance(1, 3) {
            (n2::chainsync::HeaderContent { variant: 0, byron_prefix: Some((g.u8(), g.u64())), cbor: g.bytes() }, "byron")
        } else {
            (n2::chainsync::HeaderContent { variant: g.0.range(1, 7) as u8, byron_prefix: None, cbor: g.bytes() }, "shelley")
        }
    });
    chainsync2(o, g, "block", |g| (n2::chainsync::BlockContent(g.bytes()), "block"));
    chainsync2(o, g, "skipped", |_| (n2::chainsync::SkippedContent, "skipped"));
    {
        use n2::blockfetch::Message::*;
        let (a, ca) = p2(g);
        put!(o, "n2", "blockfetch", "RequestRange", ca, RequestRange((a, p2(g).0)));
        put!(o, "n2", "blockfetch", "ClientDone", "-", ClientDone);
        put!(o, "n2", "blockfetch", "StartBatch", "-", StartBatch);
        put!(o, "n2", "blockfetch", "NoBlocks", "-", NoBlocks);
        put!(o, "n2", "blockfetch", "Block", "-", Block(g.bytes()));
        put!(o, "n2", "blockfetch", "BatchDone", "-", BatchDone);
    }
    {
        use n2::txsubmission::{EraTxBody, EraTxId, Message::*, TxIdAndSize};
        let cls = |n: usize| if n == 0 { "empty" } else { "list" };
        put!(o, "n2", "txsubmission", "Init", "-", Init);
        put!(o, "n2", "txsubmission", "RequestTxIds", "-", RequestTxIds(g.0.bool(), g.u16(), g.u16()));
        let ids = g.vec(|g| TxIdAndSize(EraTxId(g.u16(), g.hash(32)), g.u32()));
        put!(o, "n2", "txsubmission", "ReplyTxIds", cls(ids.len()), ReplyTxIds(ids));
        let ids = g.vec(|g| EraTxId(g.u16(), g.bytes()));
        put!(o, "n2", "txsubmission", "RequestTxs", cls(ids.len()), RequestTxs(ids));
        let txs = g.vec(|g| EraTxBody(g.u16(), g.bytes()));
        put!(o, "n2", "txsubmission", "ReplyTxs", cls(txs.len()), ReplyTxs(txs));
        put!(o, "n2", "txsubmission", "Done", "-", Done);
    }
    {
        use n2::keepalive::Message::*;
        put!(o, "n2", "keepalive", "KeepAlive", "-", KeepAlive(g.u16()));
        put!(o, "n2", "keepalive", "ResponseKeepAlive", "-", ResponseKeepAlive(g.u16()));
        put!(o, "n2", "keepalive", "Done", "-", Done);
    }
    {
        use n2::peersharing::{Message::*, PeerAddress::*};
        put!(o, "n2", "peersharing", "ShareRequest", "-", ShareRequest(g.u8()));
        for mode in 0..3 {
            let n = if mode == 0 && g.0.chance(1, 3) { 0 } else { 1 + g.0.below(6) as usize };
            let kinds: Vec<bool> = (0..n).map(|_| mode == 1 || (mode == 2 && g.0.bool())).collect();
            let n6 = kinds.iter().filter(|k| **k).count();
            let peers: Vec<_> = kinds.iter().map(|k| if *k { V6(g.v6(), g.port()) } else { V4(g.v4(), g.port()) }).collect();
            put!(o, "n2", "peersharing", "SharePeers", peers_class(n, n6), SharePeers(peers));
        }
        put!(o, "n2", "peersharing", "Done", "-", Done);
    }
    {
        use n2::leiosnotify::Message::*;
        put!(o, "n2", "leiosnotify", "RequestNext", "-", RequestNext);
        put!(o, "n2", "leiosnotify", "BlockAnnouncement", "-", BlockAnnouncement(g.any_cbor()));
        let (p, c) = p2(g);
        put!(o, "n2", "leiosnotify", "BlockOffer", c, BlockOffer(p, g.u32()));
        let (p, c) = p2(g);
        put!(o, "n2", "leiosnotify", "BlockTxsOffer", c, BlockTxsOffer(p));
        let votes = g.vec(|g| g.any_cbor());
        put!(o, "n2", "leiosnotify", "Votes", if votes.is_empty() { "empty" } else { "list" }, Votes(votes));
        put!(o, "n2", "leiosnotify", "Done", "-", Done);
    }
    {
        use n2::leiosfetch::{Bitmaps, Message::*};
        let bm = |g: &mut G| Bitmaps((0..g.0.below(5)).map(|_| (g.u16(), g.u64())).collect());
        let bcls = |b: &Bitmaps| if b.0.is_empty() { "bitmaps-empty" } else { "bitmaps" };
        let (p, c) = p2(g);
        put!(o, "n2", "leiosfetch", "BlockRequest", c, BlockRequest(p));
        put!(o, "n2", "leiosfetch", "Block", "-", Block(g.any_cbor()));
        let b = bm(g);
        put!(o, "n2", "leiosfetch", "BlockTxsRequest", bcls(&b), BlockTxsRequest(p2(g).0, b));
        let b = bm(g);
        put!(o, "n2", "leiosfetch", "BlockTxs", bcls(&b), BlockTxs { point: p2(g).0, bitmaps: b, txs: g.vec(|g| g.any_cbor()) });
        put!(o, "n2", "leiosfetch", "Done", "-", Done);
    }
}

/// Seed-independent sweep: every structured special value of the address / port / integer domains, in both stacks,
/// one message per value (so that a finding names the value class).
pub fn specials(o: &mut Out) {
    for (k, a) in V6_SPECIAL.iter().enumerate() {
        let port = [0u16, 65535, 3001][k % 3];
        let class = format!("ipv6-special/{}", Ipv6Addr::from(*a));
        put!(o, "n1", "peersharing", "SharePeers", &class, n1::peersharing::Message::SharePeers(vec![n1::peersharing::PeerAddress::V6(Ipv6Addr::from(*a), port as _)]));
        put!(o, "n2", "peersharing", "SharePeers", &class, n2::peersharing::Message::SharePeers(vec![n2::peersharing::PeerAddress::V6(Ipv6Addr::from(*a), port)]));
    }
    for (k, a) in V4_SPECIAL.iter().enumerate() {
        let port = [65535u16, 0, 3001][k % 3];
        let class = format!("ipv4-special/{}", Ipv4Addr::from(*a));
        put!(o, "n1", "peersharing", "SharePeers", &class, n1::peersharing::Message::SharePeers(vec![n1::peersharing::PeerAddress::V4(Ipv4Addr::from(*a), port as _)]));
        put!(o, "n2", "peersharing", "SharePeers", &class, n2::peersharing::Message::SharePeers(vec![n2::peersharing::PeerAddress::V4(Ipv4Addr::from(*a), port)]));
    }
    for v in EDGE {
        // handshake version data with an edge magic, every wire shape (n2c bare magic / [magic, query]; n2n 2 / 4 fields)
        let class = format!("edge-magic/{v}");
        for q in [None, Some(true)] {
            emit(o, "n1", "handshake-n2c", "Accept", &format!("{class}/{}", if q.is_some() { "query" } else { "legacy" }),
                 &n1::handshake::Message::Accept(v, n1::handshake::n2c::VersionData::new(v, q)), &norm_hs1);
            emit(o, "n2", "handshake-n2c", "Accept", &format!("{class}/{}", if q.is_some() { "query" } else { "legacy" }),
                 &n2::handshake::Message::Accept(v, n2::handshake::n2c::VersionData::new(v, q)), &norm_hs2);
            emit(o, "n1", "handshake-n2n", "Accept", &format!("{class}/{}", if q.is_some() { "4-field" } else { "2-field" }),
                 &n1::handshake::Message::Accept(v, n1::handshake::n2n::VersionData::new(v, true, q.map(|_| 1), q)), &norm_hs1);
            emit(o, "n2", "handshake-n2n", "Accept", &format!("{class}/{}", if q.is_some() { "4-field" } else { "2-field" }),
                 &n2::handshake::Message::Accept(v, n2::handshake::n2n::VersionData::new(v, true, q.map(|_| 1), q)), &norm_hs2);
        }
        let class = format!("edge/{v}");
        let h = vec![0xABu8; 32];
        put!(o, "n1", "chainsync-block", "RollBackward", &class,
             n1::chainsync::Message::<n1::chainsync::BlockContent>::RollBackward(n1::Point::Specific(v, h.clone()), n1::chainsync::Tip(n1::Point::Specific(v, h.clone()), v)));
        put!(o, "n2", "chainsync-block", "RollBackward", &class,
             n2::chainsync::Message::<n2::chainsync::BlockContent>::RollBackward(n2::Point::Specific(v, h.clone()), n2::chainsync::Tip(n2::Point::Specific(v, h.clone()), v)));
        put!(o, "n1", "keepalive", "KeepAlive", &class, n1::keepalive::Message::KeepAlive(v.min(65535) as u16));
        put!(o, "n2", "keepalive", "KeepAlive", &class, n2::keepalive::Message::KeepAlive(v.min(65535) as u16));
        put!(o, "n1", "txmonitor", "Acquired", &class, n1::txmonitor::Message::Acquired(v));
        put!(o, "n2", "leiosnotify", "BlockOffer", &class, n2::leiosnotify::Message::BlockOffer(n2::Point::Specific(v, h.clone()), v.min(u32::MAX as u64) as u32));
    }
}

pub fn trace(args: &Args) {
    let mut o = Out { w: Ndjson::create(args.get("out")) };
    let mut g = G(Rng::new(args.seed()), 0);
    let rounds = args.num("rounds", 4);
    for _ in 0..rounds {
        stack1(&mut o, &mut g);
        stack2(&mut o, &mut g);
    }
    specials(&mut o);
    let corpus = crate::reject::corpus(&mut o);
    let n = o.w.finish();
    println!("{}", json!({"events": n, "corpus": corpus}));
}
