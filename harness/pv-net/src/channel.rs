//! End-to-end channel (spec/net/Channel.tla, TraceChannel.tla): the real chunking path.
//!
//!   old stack : ChannelBuffer::send_msg_chunks (message -> <= 65535-byte chunks)
//!               -> two real Plexers over a Unix socket pair -> ChannelBuffer::recv_full_msg
//!   new stack : BearerWriteHalf::write_message (Message::into_chunks) -> socket -> read_full_msgs
//!
//! Several agents send real mini-protocol messages whose encodings are just below / at / above
//! k * MAX_SEGMENT_PAYLOAD_LENGTH (k = 1..3, and more than 3 segments), mixed with ordinary small
//! ones, concurrently on several protocols. Ticket discipline as in mux.rs: the `send` ticket is taken
//! before send_msg_chunks is called, the `recv` ticket after recv_full_msg returned. A message is
//! identified by the digest of its encoding (the received value is re-encoded). TLC decides.
use crate::mux::{jitter, wait_all, Limits, Log};
use crate::reassembly::{digest, gen_any_message, kind_of, Gen, LocalTxMsg};
use pallas_codec::minicbor;
use pallas_codec::utils::{AnyCbor, Bytes, TagWrap};
use pallas_codec::Fragment;
use pallas_network::miniprotocols as old;
use pallas_network::multiplexer::{Bearer, ChannelBuffer, Plexer, MAX_SEGMENT_PAYLOAD_LENGTH};
use pallas_network2::behavior::AnyMessage;
use pallas_network2::protocol as n2;
use pallas_network2::Message as _;
use pv_core::*;
use serde_json::Value;
use std::fmt::Debug;
use std::sync::atomic::{AtomicU64, Ordering};
use std::sync::{Arc, Mutex};
use std::time::Duration;

const SEG: usize = MAX_SEGMENT_PAYLOAD_LENGTH;

/// Message types that can carry an arbitrarily large payload.
trait Big: Gen + Fragment + Debug + Send + Sync + 'static {
    const NAME: &'static str;
    fn with_blob(blob: Vec<u8>) -> Self;
    fn fin() -> Self;
}
impl Big for old::blockfetch::Message {
    const NAME: &'static str = "blockfetch";
    fn with_blob(blob: Vec<u8>) -> Self {
        old::blockfetch::Message::Block { body: blob }
    }
    fn fin() -> Self {
        old::blockfetch::Message::ClientDone
    }
}
impl Big for old::chainsync::Message<old::chainsync::BlockContent> {
    const NAME: &'static str = "chainsync-n2c";
    fn with_blob(blob: Vec<u8>) -> Self {
        use old::chainsync::{BlockContent, Message, Tip};
        Message::RollForward(BlockContent(blob), Tip(old::Point::Specific(7, vec![9; 32]), 1234))
    }
    fn fin() -> Self {
        old::chainsync::Message::Done
    }
}
impl Big for old::txsubmission::Message<old::txsubmission::EraTxId, old::txsubmission::EraTxBody> {
    const NAME: &'static str = "txsubmission";
    fn with_blob(blob: Vec<u8>) -> Self {
        use old::txsubmission::{EraTxBody, Message};
        let cut = blob.len() / 3;
        Message::ReplyTxs(vec![EraTxBody(5, blob[..cut].to_vec()), EraTxBody(6, blob[cut..].to_vec())])
    }
    fn fin() -> Self {
        old::txsubmission::Message::Done
    }
}
impl Big for LocalTxMsg {
    const NAME: &'static str = "localtxsubmission";
    fn with_blob(blob: Vec<u8>) -> Self {
        old::localtxsubmission::Message::SubmitTx(old::localtxsubmission::EraTx(6, blob))
    }
    fn fin() -> Self {
        old::localtxsubmission::Message::Done
    }
}
impl Big for old::localstate::Message {
    const NAME: &'static str = "localstate";
    fn with_blob(blob: Vec<u8>) -> Self {
        // an indefinite array holding one byte string: exercises skip() across segment boundaries
        let mut v = vec![0x9f];
        let n = blob.len() as u64;
        if n < 24 {
            v.push(0x40 | n as u8);
        } else if n < 256 {
            v.extend([0x58, n as u8]);
        } else if n < 65536 {
            v.push(0x59);
            v.extend((n as u16).to_be_bytes());
        } else {
            v.push(0x5a);
            v.extend((n as u32).to_be_bytes());
        }
        v.extend(blob);
        v.push(0xff);
        old::localstate::Message::Result(AnyCbor::from_raw_bytes(v))
    }
    fn fin() -> Self {
        old::localstate::Message::Done
    }
}
impl Big for old::txmonitor::Message {
    const NAME: &'static str = "txmonitor";
    fn with_blob(blob: Vec<u8>) -> Self {
        old::txmonitor::Message::ResponseNextTx(Some((6, TagWrap::new(Bytes::from(blob)))))
    }
    fn fin() -> Self {
        old::txmonitor::Message::Done
    }
}

fn enc<M: Fragment>(m: &M) -> Vec<u8> {
    minicbor::to_vec(m).unwrap_or_else(|e| die(&format!("encode: {e}")))
}

/// A message of type M whose encoding is exactly `target` bytes long (target >= 64).
fn sized<M: Big>(rng: &mut Rng, target: usize) -> M {
    let mut n = target.saturating_sub(40);
    for _ in 0..6 {
        let m = M::with_blob(rng.bytes(n));
        let len = enc(&m).len();
        if len == target {
            return m;
        }
        n = (n as i64 + target as i64 - len as i64).max(0) as usize;
    }
    M::with_blob(rng.bytes(n))
}

/// The messages one sender will send: sizes around the segment boundaries mixed with small ones; FIN last.
fn plan<M: Big>(rng: &mut Rng, quota: usize) -> Vec<M> {
    let fin_id = digest(&enc(&M::fin()));
    let mut v = Vec::new();
    let mut nsized = 0usize;
    while v.len() + 1 < quota {
        let m = match rng.below(10) {
            0..=5 => {
                // the offsets around a segment boundary are walked through in turn: +1, 0, -1, +2, -2
                let k = rng.range(1, 3) as i64;
                let d = [1i64, 0, -1, 2, -2][nsized % 5];
                nsized += 1;
                sized::<M>(rng, (k * SEG as i64 + d) as usize)
            }
            6 => {
                let extra = rng.range(3, 70_000) as usize;
                sized::<M>(rng, 3 * SEG + extra)
            }
            _ => M::gen(rng, 1),
        };
        if digest(&enc(&m)) == fin_id {
            continue;
        }
        v.push(m);
    }
    v.push(M::fin());
    v
}

#[derive(Clone)]
struct Ch {
    side: &'static str,
    proto: u16,
    role: &'static str,
}
impl Ch {
    fn json(&self) -> Value {
        json!({"side": self.side, "proto": self.proto, "role": self.role})
    }
}

struct Shared {
    ticket: Arc<AtomicU64>,
    log: Log,
}
impl Shared {
    fn t(&self) -> u64 {
        self.ticket.fetch_add(1, Ordering::SeqCst)
    }
    fn push(&self, t: u64, v: Value) {
        self.log.lock().unwrap().push((t, v));
    }
}

fn nseg(len: usize) -> usize {
    len.div_ceil(SEG)
}

async fn send_one<M: Big>(cb: &mut ChannelBuffer, m: &M, ch: &Ch, sh: &Shared) -> bool {
    let e = enc(m);
    let t = sh.t(); // BEFORE the call
    match cb.send_msg_chunks(m).await {
        Ok(()) => {
            sh.push(t, json!({"ev": "send", "t": t, "ch": ch.json(), "id": digest(&e), "len": e.len(), "nseg": nseg(e.len()),
                              "mp": M::NAME, "kind": kind_of(&format!("{m:?}"))}));
            true
        }
        Err(err) => {
            sh.push(t, json!({"ev": "send_err", "t": t, "ch": ch.json(), "err": format!("{err:?}").chars().take(120).collect::<String>()}));
            false
        }
    }
}

/// Some(is_fin) after a message was received and logged; None after an error.
/// `impatient_ms` > 0: recv_full_msg is polled under that timeout and dropped / re-issued until it returns, as a
/// client with select! / timeout around it would do - also between two segments of one message.
async fn recv_one<M: Big>(cb: &mut ChannelBuffer, ch: &Ch, sh: &Shared, fin_id: u32, impatient_ms: u64) -> Option<bool> {
    let res = if impatient_ms == 0 {
        cb.recv_full_msg::<M>().await
    } else {
        loop {
            if let Ok(r) = tokio::time::timeout(Duration::from_millis(impatient_ms), cb.recv_full_msg::<M>()).await {
                break r;
            }
        }
    };
    match res {
        Ok(m) => {
            let t = sh.t(); // AFTER the return
            let e = catch(|| minicbor::to_vec(&m));
            let (id, len) = match e {
                Ok(Ok(e)) => (digest(&e) as i64, e.len()),
                _ => (-1, 0),
            };
            sh.push(t, json!({"ev": "recv", "t": t, "ch": ch.json(), "id": id, "len": len}));
            Some(id == fin_id as i64)
        }
        Err(err) => {
            let t = sh.t();
            sh.push(t, json!({"ev": "recv_err", "t": t, "ch": ch.json(), "err": format!("{err:?}").chars().take(160).collect::<String>()}));
            None
        }
    }
}

async fn sender<M: Big>(mut cb: ChannelBuffer, msgs: Vec<M>, ch: Ch, sh: Arc<Shared>, seed: u64) {
    let mut rng = Rng::new(seed);
    for m in &msgs {
        jitter(&mut rng).await;
        if !send_one(&mut cb, m, &ch, &sh).await {
            break;
        }
    }
    // keep the channel alive until the run is torn down
    tokio::time::sleep(Duration::from_secs(3600)).await;
    drop(cb);
}

async fn receiver<M: Big>(mut cb: ChannelBuffer, ch: Ch, sh: Arc<Shared>, seed: u64, slow_ms: u64) {
    let mut rng = Rng::new(seed);
    let fin_id = digest(&enc(&M::fin()));
    let impatient_ms = if rng.bool() { rng.range(1, 3) } else { 0 };
    if slow_ms > 0 {
        tokio::time::sleep(Duration::from_millis(slow_ms)).await;
    }
    loop {
        jitter(&mut rng).await;
        match recv_one::<M>(&mut cb, &ch, &sh, fin_id, impatient_ms).await {
            Some(false) => {}
            _ => break,
        }
    }
}

/// Request / response on one protocol: both directions, strictly alternating (cannot dead-lock).
async fn pingpong<M: Big>(mut cb: ChannelBuffer, msgs: Vec<M>, ch: Ch, sh: Arc<Shared>, first: bool) {
    let fin_id = digest(&enc(&M::fin()));
    let mut it = msgs.iter();
    let mut my_turn = first;
    let mut peer_done = false;
    let mut me_done = false;
    while !(peer_done && me_done) {
        if my_turn && !me_done {
            match it.next() {
                Some(m) => {
                    if !send_one(&mut cb, m, &ch, &sh).await {
                        return;
                    }
                    if digest(&enc(m)) == fin_id {
                        me_done = true;
                    }
                }
                None => me_done = true,
            }
        } else if !peer_done {
            match recv_one::<M>(&mut cb, &ch, &sh, fin_id, if first { 2 } else { 0 }).await {
                Some(fin) => peer_done = fin,
                None => return,
            }
        }
        my_turn = !my_turn;
    }
}

#[derive(Clone, Copy, PartialEq)]
enum Mode {
    AtoB,
    BtoA,
    PingPong,
}

type Handle = tokio::task::JoinHandle<()>;

/// Subscribe both ends of one pair and spawn its tasks (they simply wait until the plexers run).
/// `tasks` collects (handle, wait for it?).
#[allow(clippy::too_many_arguments)]
fn spawn_pair<M: Big>(pa: &mut Plexer, pb: &mut Plexer, proto: u16, client_on_a: bool, mode: Mode, quota: usize, rng: &mut Rng,
                      sh: &Arc<Shared>, tasks: &mut Vec<(Handle, bool)>, chans: &mut Vec<Value>) {
    let (ca, cb_) = if client_on_a { ("c", "s") } else { ("s", "c") };
    let cha = Ch { side: "A", proto, role: ca };
    let chb = Ch { side: "B", proto, role: cb_ };
    chans.push(cha.json());
    chans.push(chb.json());
    let a = ChannelBuffer::new(if client_on_a { pa.subscribe_client(proto) } else { pa.subscribe_server(proto) });
    let b = ChannelBuffer::new(if client_on_a { pb.subscribe_server(proto) } else { pb.subscribe_client(proto) });
    let (s1, s2) = (rng.next_u64(), rng.next_u64());
    let slow = if rng.chance(1, 3) { rng.range(5, 30) } else { 0 };
    match mode {
        Mode::PingPong => {
            let (ma, mb) = (plan::<M>(rng, quota), plan::<M>(rng, quota));
            let (sha, shb) = (sh.clone(), sh.clone());
            tasks.push((tokio::spawn(pingpong::<M>(a, ma, cha, sha, true)), true));
            tasks.push((tokio::spawn(pingpong::<M>(b, mb, chb, shb, false)), true));
        }
        Mode::AtoB | Mode::BtoA => {
            let msgs = plan::<M>(rng, quota);
            let (tx, txch, rx, rxch) = if mode == Mode::AtoB { (a, cha, b, chb) } else { (b, chb, a, cha) };
            let (sh1, sh2) = (sh.clone(), sh.clone());
            tasks.push((tokio::spawn(sender::<M>(tx, msgs, txch, sh1, s1)), false));
            tasks.push((tokio::spawn(receiver::<M>(rx, rxch, sh2, s2, slow)), true));
        }
    }
}

async fn run_plexers(rng: &mut Rng, run: u64, quota: usize, limits: Limits) -> Vec<Value> {
    let (sa, sb) = tokio::net::UnixStream::pair().unwrap_or_else(|e| die(&format!("socketpair: {e}")));
    let mut pa = Plexer::new(Bearer::Unix(sa));
    let mut pb = Plexer::new(Bearer::Unix(sb));
    let sh = Arc::new(Shared { ticket: Arc::new(AtomicU64::new(1)), log: Arc::new(Mutex::new(Vec::new())) });
    let mut pending: Vec<(Handle, bool)> = Vec::new();
    let mut chans = Vec::new();
    // 3..5 pairs over distinct protocols, message type per pair
    let mut types: Vec<usize> = (0..6).collect();
    rng.shuffle(&mut types);
    let npairs = rng.range(3, 5) as usize;
    for (i, ty) in types.into_iter().take(npairs).enumerate() {
        let proto = [2u16, 3, 4, 5, 6, 7, 9][i] + if rng.chance(1, 4) { 0x100 } else { 0 };
        let client_on_a = rng.bool();
        let mode = *rng.pick(&[Mode::AtoB, Mode::BtoA, Mode::PingPong]);
        let q = rng.range((quota as u64 / 2 + 2).min(quota as u64), quota as u64) as usize;
        macro_rules! go {
            ($t:ty) => {
                spawn_pair::<$t>(&mut pa, &mut pb, proto, client_on_a, mode, q, rng, &sh, &mut pending, &mut chans)
            };
        }
        match ty {
            0 => go!(old::blockfetch::Message),
            1 => go!(old::chainsync::Message<old::chainsync::BlockContent>),
            2 => go!(old::txsubmission::Message<old::txsubmission::EraTxId, old::txsubmission::EraTxBody>),
            3 => go!(LocalTxMsg),
            4 => go!(old::localstate::Message),
            _ => go!(old::txmonitor::Message),
        }
    }
    let ra = pa.spawn();
    let rb = pb.spawn();
    let mut all: Vec<Handle> = Vec::new();
    let mut waited: Vec<usize> = Vec::new();
    for (h, wait) in pending {
        if wait {
            waited.push(all.len());
        }
        all.push(h);
    }
    let hs: Vec<&Handle> = waited.iter().map(|i| &all[*i]).collect();
    wait_all(&hs, &sh.log, limits).await;
    let stalled: Vec<usize> = waited.iter().copied().filter(|i| !all[*i].is_finished()).collect();
    for h in &all {
        h.abort();
    }
    ra.abort().await;
    rb.abort().await;
    let t = sh.t();
    sh.push(t, json!({"ev": "quiesce", "t": t, "stalled": stalled}));
    let mut evs = std::mem::take(&mut *sh.log.lock().unwrap());
    evs.sort_by_key(|e| e.0);
    let mut out = vec![json!({"ev": "open", "stack": "plexer", "run": run, "chans": chans})];
    out.extend(evs.into_iter().map(|e| e.1));
    out
}

/// new stack: write_message / read_full_msgs, one writer and one reader per direction, three protocols.
async fn run_bearer2(rng: &mut Rng, run: u64, quota: usize, limits: Limits) -> Vec<Value> {
    use pallas_network2::bearer::Bearer as B2;
    let (sa, sb) = tokio::net::UnixStream::pair().unwrap_or_else(|e| die(&format!("socketpair: {e}")));
    let (ra, wa) = B2::Unix(sa).into_split();
    let (rb, wb) = B2::Unix(sb).into_split();
    let sh = Arc::new(Shared { ticket: Arc::new(AtomicU64::new(1)), log: Arc::new(Mutex::new(Vec::new())) });
    let protos = [n2::blockfetch::CHANNEL_ID, n2::txsubmission::CHANNEL_ID, n2::chainsync::CHANNEL_ID];
    let fin = |c: u16| match c {
        n2::blockfetch::CHANNEL_ID => AnyMessage::BlockFetch(n2::blockfetch::Message::ClientDone),
        n2::txsubmission::CHANNEL_ID => AnyMessage::TxSubmission(n2::txsubmission::Message::Done),
        _ => AnyMessage::ChainSync(n2::chainsync::Message::Done),
    };
    let big = |c: u16, blob: Vec<u8>| match c {
        n2::blockfetch::CHANNEL_ID => AnyMessage::BlockFetch(n2::blockfetch::Message::Block(blob)),
        n2::txsubmission::CHANNEL_ID => AnyMessage::TxSubmission(n2::txsubmission::Message::ReplyTxs(vec![n2::txsubmission::EraTxBody(6, blob)])),
        _ => AnyMessage::ChainSync(n2::chainsync::Message::RollForward(
            n2::chainsync::HeaderContent { variant: 6, byron_prefix: None, cbor: blob },
            n2::chainsync::Tip(n2::Point::Origin, 5),
        )),
    };
    let mut chans = Vec::new();
    let mut tasks: Vec<Handle> = Vec::new();
    for (side, other, mut w, mut r, mode) in [("A", "B", wa, rb, 0u16), ("B", "A", wb, ra, 0x8000u16)] {
        let role = if mode == 0 { "c" } else { "s" };
        let peer_role = if mode == 0 { "s" } else { "c" };
        // plan: interleave the three protocols message by message
        let mut msgs: Vec<AnyMessage> = Vec::new();
        let mut nsized = 0usize;
        for _ in 0..quota {
            let c = *rng.pick(&protos);
            let m = match rng.below(10) {
                0..=5 => {
                    let target = (rng.range(1, 3) as i64 * SEG as i64 + [1i64, 0, -1, 2, -2][nsized % 5]) as usize;
                    nsized += 1;
                    let mut n = target - 40;
                    let mut m = big(c, rng.bytes(n));
                    for _ in 0..6 {
                        let len = m.payload().len();
                        if len == target {
                            break;
                        }
                        n = (n as i64 + target as i64 - len as i64) as usize;
                        m = big(c, rng.bytes(n));
                    }
                    m
                }
                6 => {
                    let extra = rng.below(70_000) as usize;
                    big(c, rng.bytes(3 * SEG + extra))
                }
                _ => gen_any_message(c, rng, 1),
            };
            if m.payload() == fin(c).payload() {
                continue;
            }
            msgs.push(m);
        }
        for c in protos {
            msgs.push(fin(c));
            chans.push(json!({"side": side, "proto": c, "role": role}));
            chans.push(json!({"side": other, "proto": c, "role": peer_role}));
        }
        let shw = sh.clone();
        let mut wr = Rng::new(rng.next_u64());
        tasks.push(tokio::spawn(async move {
            for m in msgs {
                jitter(&mut wr).await;
                let c = m.channel();
                let e = m.payload();
                let dbg = format!("{m:?}");
                let t = shw.t();
                match w.write_message(m, 0, mode).await {
                    Ok(()) => shw.push(t, json!({"ev": "send", "t": t, "ch": {"side": side, "proto": c, "role": role}, "id": digest(&e),
                        "len": e.len(), "nseg": nseg(e.len()), "kind": kind_of(dbg.split_once('(').map(|x| x.1).unwrap_or(&dbg))})),
                    Err(err) => {
                        shw.push(t, json!({"ev": "send_err", "t": t, "err": err.to_string()}));
                        return;
                    }
                }
            }
            tokio::time::sleep(Duration::from_secs(3600)).await;
            drop(w);
        }));
        let shr = sh.clone();
        let fins: Vec<(u16, Vec<u8>)> = protos.iter().map(|c| (*c, fin(*c).payload())).collect();
        tasks.push(tokio::spawn(async move {
            let mut partial = std::collections::HashMap::new();
            let mut seen = 0;
            while seen < fins.len() {
                match r.read_full_msgs::<AnyMessage>(&mut partial).await {
                    Ok(msgs) => {
                        for m in msgs {
                            let t = shr.t();
                            let e = m.payload();
                            shr.push(t, json!({"ev": "recv", "t": t, "ch": {"side": other, "proto": m.channel(), "role": peer_role}, "id": digest(&e), "len": e.len()}));
                            if fins.contains(&(m.channel(), e.clone())) {
                                seen += 1;
                            }
                        }
                    }
                    Err(err) => {
                        let t = shr.t();
                        shr.push(t, json!({"ev": "recv_err", "t": t, "err": err.to_string()}));
                        return;
                    }
                }
            }
        }));
    }
    let hs: Vec<&Handle> = vec![&tasks[1], &tasks[3]];
    wait_all(&hs, &sh.log, limits).await;
    let stalled: Vec<usize> = [1usize, 3].into_iter().filter(|i| !tasks[*i].is_finished()).collect();
    for h in &tasks {
        h.abort();
    }
    let t = sh.t();
    sh.push(t, json!({"ev": "quiesce", "t": t, "stalled": stalled}));
    let mut evs = std::mem::take(&mut *sh.log.lock().unwrap());
    evs.sort_by_key(|e| e.0);
    let mut out = vec![json!({"ev": "open", "stack": "bearer2", "run": run, "chans": chans})];
    out.extend(evs.into_iter().map(|e| e.1));
    out
}

/// new stack through the REAL interface: `TcpInterface` (outbound) or `TcpListenerInterface` (inbound) own
/// the per-peer writer mutex; `dispatch(Send)` only queues a future. Messages (several of them larger than
/// one segment, on the same and on different channels) are dispatched back-to-back (`burst`), with the
/// interface polled now and then (`mixed`), or one at a time waiting for `Sent` (`paced`), towards a slow
/// raw reader (small socket buffers, delayed start) that reassembles with read_full_msgs.
/// `send` ticket: before dispatch(Send); `recv` ticket: after read_full_msgs returned the message.
async fn run_iface(rng: &mut Rng, run: u64, quota: usize, limits: Limits, listener_mode: bool, pattern: &'static str) -> Vec<Value> {
    use futures::{FutureExt, StreamExt};
    use pallas_network2::bearer::Bearer as B2;
    use pallas_network2::interface::{TcpInterface, TcpListenerInterface};
    use pallas_network2::{Interface, InterfaceCommand, InterfaceEvent, PeerId};
    let sh = Arc::new(Shared { ticket: Arc::new(AtomicU64::new(1)), log: Arc::new(Mutex::new(Vec::new())) });
    let protos = [n2::blockfetch::CHANNEL_ID, n2::txsubmission::CHANNEL_ID, n2::chainsync::CHANNEL_ID];
    let big = |c: u16, blob: Vec<u8>| match c {
        n2::blockfetch::CHANNEL_ID => AnyMessage::BlockFetch(n2::blockfetch::Message::Block(blob)),
        n2::txsubmission::CHANNEL_ID => AnyMessage::TxSubmission(n2::txsubmission::Message::ReplyTxs(vec![n2::txsubmission::EraTxBody(6, blob)])),
        _ => AnyMessage::ChainSync(n2::chainsync::Message::RollForward(
            n2::chainsync::HeaderContent { variant: 6, byron_prefix: None, cbor: blob },
            n2::chainsync::Tip(n2::Point::Origin, 5),
        )),
    };
    // plan: runs of 2..4 multi-segment messages on the SAME channel, then another channel, small ones in between
    let mut msgs: Vec<AnyMessage> = Vec::new();
    while msgs.len() < quota {
        let c = *rng.pick(&protos);
        for _ in 0..rng.range(2, 4) {
            let n = rng.range(1, 3) as usize * SEG + rng.range(1, 60_000) as usize;
            msgs.push(big(c, rng.bytes(n)));
        }
        if rng.bool() {
            msgs.push(gen_any_message(*rng.pick(&protos), rng, 1));
        }
    }
    let (srole, rrole) = if listener_mode { ("s", "c") } else { ("c", "s") };
    let mut chans = Vec::new();
    for c in protos {
        chans.push(json!({"side": "A", "proto": c, "role": srole}));
        chans.push(json!({"side": "B", "proto": c, "role": rrole}));
    }
    let expected = Arc::new(AtomicU64::new(u64::MAX));
    let small = 8 * 1024;
    // ---- set up the connection; the raw end is `raw`
    let tool = |e: std::io::Error| -> ! { die(&format!("iface setup: {e}")) };
    let mk_sock = || {
        let s = tokio::net::TcpSocket::new_v4().unwrap_or_else(|e| tool(e));
        s.set_recv_buffer_size(small).unwrap_or_else(|e| tool(e));
        s.set_send_buffer_size(small).unwrap_or_else(|e| tool(e));
        s
    };
    let any: std::net::SocketAddr = "127.0.0.1:0".parse().unwrap();
    let mut stalled: Vec<&str> = Vec::new();
    let raw: tokio::net::TcpStream;
    let mut ini: Option<TcpInterface<AnyMessage>> = None;
    let mut lis: Option<TcpListenerInterface<AnyMessage>> = None;
    let pid: PeerId;
    if listener_mode {
        // the interface accepts (its sockets inherit the small buffers of the listening socket), we connect
        let s = mk_sock();
        s.bind(any).unwrap_or_else(|e| tool(e));
        let l = s.listen(4).unwrap_or_else(|e| tool(e));
        let addr = l.local_addr().unwrap_or_else(|e| tool(e));
        let mut iface = TcpListenerInterface::<AnyMessage>::new(l);
        let client = mk_sock();
        let (r, ev) = tokio::join!(client.connect(addr), tokio::time::timeout(Duration::from_secs(10), iface.next()));
        raw = r.unwrap_or_else(|e| tool(e));
        pid = match ev {
            Ok(Some(InterfaceEvent::Connected(p))) => p,
            other => die(&format!("iface setup: listener did not report a connection: {other:?}")),
        };
        lis = Some(iface);
    } else {
        let s = mk_sock();
        s.bind(any).unwrap_or_else(|e| tool(e));
        let l = s.listen(4).unwrap_or_else(|e| tool(e));
        let addr = l.local_addr().unwrap_or_else(|e| tool(e));
        let mut iface = TcpInterface::<AnyMessage>::new();
        pid = PeerId { host: "127.0.0.1".to_string(), port: addr.port() };
        iface.dispatch(InterfaceCommand::Connect(pid.clone()));
        let (a, ev) = tokio::join!(l.accept(), tokio::time::timeout(Duration::from_secs(10), iface.next()));
        raw = a.unwrap_or_else(|e| tool(e)).0;
        match ev {
            Ok(Some(InterfaceEvent::Connected(_))) => {}
            other => die(&format!("iface setup: no Connected event: {other:?}")),
        }
        ini = Some(iface);
    }
    // ---- slow reader on the raw end
    let (mut r, _keep_w) = B2::Tcp(raw).into_split();
    let (shr, exp) = (sh.clone(), expected.clone());
    let start_delay = rng.range(30, 120);
    let mut rr = Rng::new(rng.next_u64());
    let reader: Handle = tokio::spawn(async move {
        tokio::time::sleep(Duration::from_millis(start_delay)).await;
        let mut partial = std::collections::HashMap::new();
        let mut got = 0u64;
        while got < exp.load(Ordering::SeqCst) {
            if rr.chance(1, 8) {
                tokio::time::sleep(Duration::from_micros(rr.below(1500))).await;
            }
            match r.read_full_msgs::<AnyMessage>(&mut partial).await {
                Ok(ms) => {
                    for m in ms {
                        let t = shr.t();
                        let e = m.payload();
                        shr.push(t, json!({"ev": "recv", "t": t, "ch": {"side": "B", "proto": m.channel(), "role": rrole}, "id": digest(&e), "len": e.len()}));
                        got += 1;
                    }
                }
                Err(err) => {
                    let t = shr.t();
                    shr.push(t, json!({"ev": "recv_err", "t": t, "err": err.to_string()}));
                    return;
                }
            }
        }
    });
    // ---- the driver: dispatch sends, poll the interface for Sent / Error
    let total = msgs.len() as u64;
    let shd = sh.clone();
    let pidd = pid.clone();
    let mut dr = Rng::new(rng.next_u64());
    let driver: Handle = tokio::spawn(async move {
        enum Either {
            I(TcpInterface<AnyMessage>),
            L(TcpListenerInterface<AnyMessage>),
        }
        let mut iface = match (ini, lis) {
            (Some(i), _) => Either::I(i),
            (_, Some(l)) => Either::L(l),
            _ => return,
        };
        macro_rules! with {
            ($i:ident => $e:expr) => {
                match &mut iface {
                    Either::I($i) => $e,
                    Either::L($i) => $e,
                }
            };
        }
        let mut sent_ok = 0u64;
        let handle = |ev: Option<InterfaceEvent<AnyMessage>>, sent_ok: &mut u64| -> bool {
            match ev {
                Some(InterfaceEvent::Sent(_, _)) => {
                    *sent_ok += 1;
                    true
                }
                Some(InterfaceEvent::Error(_, e)) => {
                    let t = shd.t();
                    shd.push(t, json!({"ev": "send_err", "t": t, "err": format!("{e:?}")}));
                    false
                }
                Some(InterfaceEvent::Disconnected(_)) | None => false,
                _ => true,
            }
        };
        let mut dispatched = 0u64;
        for m in msgs {
            let e = m.payload();
            let dbg = format!("{m:?}");
            let c = m.channel();
            let t = shd.t(); // BEFORE dispatch
            shd.push(t, json!({"ev": "send", "t": t, "ch": {"side": "A", "proto": c, "role": srole}, "id": digest(&e), "len": e.len(),
                "nseg": nseg(e.len()), "kind": kind_of(dbg.split_once('(').map(|x| x.1).unwrap_or(&dbg))}));
            with!(i => i.dispatch(InterfaceCommand::Send(pidd.clone(), m)));
            dispatched += 1;
            match pattern {
                "paced" => {
                    while sent_ok < dispatched {
                        let ev = with!(i => i.next().await);
                        if !handle(ev, &mut sent_ok) {
                            return;
                        }
                    }
                }
                "mixed" => {
                    if dr.chance(1, 3) {
                        if let Some(ev) = with!(i => i.next().now_or_never()) {
                            if !handle(ev, &mut sent_ok) {
                                return;
                            }
                        }
                    }
                }
                _ => {}
            }
        }
        expected.store(total, Ordering::SeqCst);
        while sent_ok < total {
            let ev = with!(i => i.next().await);
            if !handle(ev, &mut sent_ok) {
                return;
            }
        }
        // keep the connection open until the reader is done
        tokio::time::sleep(Duration::from_secs(3600)).await;
    });
    let hs: Vec<&Handle> = vec![&reader];
    wait_all(&hs, &sh.log, limits).await;
    if !reader.is_finished() {
        stalled.push("reader");
    }
    reader.abort();
    driver.abort();
    let t = sh.t();
    sh.push(t, json!({"ev": "quiesce", "t": t, "stalled": stalled}));
    let mut evs = std::mem::take(&mut *sh.log.lock().unwrap());
    evs.sort_by_key(|e| e.0);
    let stack = format!("iface-{}-{}", if listener_mode { "listener" } else { "initiator" }, pattern);
    let mut out = vec![json!({"ev": "open", "stack": stack, "run": run, "chans": chans})];
    out.extend(evs.into_iter().map(|e| e.1));
    out
}

pub fn trace(args: &Args) {
    let mut rng = Rng::new(args.seed());
    let runs = args.num("runs", 1);
    let runs2 = args.num("runs2", 1);
    let runs3 = args.num("runs3", 0);
    let quota = args.num("msgs", 12) as usize;
    let limits = Limits { idle: Duration::from_secs(args.num("idle", 15)), deadline: Duration::from_secs(args.num("deadline", 180)) };
    let mut out = Ndjson::create(args.get("out"));
    let rt = tokio::runtime::Builder::new_multi_thread()
        .worker_threads(args.num("threads", 4) as usize)
        .enable_all()
        .build()
        .unwrap_or_else(|e| die(&format!("runtime: {e}")));
    for run in 0..runs {
        for e in rt.block_on(run_plexers(&mut rng, run, quota, limits)) {
            out.ev(e);
        }
    }
    for run in 0..runs2 {
        for e in rt.block_on(run_bearer2(&mut rng, runs + run, quota, limits)) {
            out.ev(e);
        }
    }
    let patterns: Vec<&'static str> = match args.opt("patterns") {
        Some(p) => p.split(',').map(|x| match x {
            "paced" => "paced",
            "mixed" => "mixed",
            _ => "burst",
        }).collect(),
        None => vec!["paced", "burst", "mixed"],
    };
    let imsgs = args.num("imsgs", 24) as usize;
    for run in 0..runs3 {
        let pattern = patterns[run as usize % patterns.len()];
        let listener_mode = (run as usize / patterns.len()) % 2 == 1;
        for e in rt.block_on(run_iface(&mut rng, runs + runs2 + run, imsgs, limits, listener_mode, pattern)) {
            out.ev(e);
        }
    }
    out.finish();
    rt.shutdown_timeout(Duration::from_secs(1));
}
