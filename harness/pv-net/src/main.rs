//! Conformance drivers for the original network stack (pallas-network).
mod channel;
mod mux;
mod reassembly;
mod rollback;

fn main() {
    let args = pv_core::Args::parse();
    match args.cmd.as_str() {
        "rollback-replay" => rollback::replay(&args),
        "rollback-trace" => rollback::trace(&args),
        "mux-trace" => mux::trace(&args),
        "channel-trace" => channel::trace(&args),
        "reassembly-trace" => reassembly::trace(&args),
        other => pv_core::die(&format!("unknown sub-command {other}")),
    }
}
