//! C26 — RollbackBuffer against the chain-suffix model (spec/net/RollbackBuffer.tla).
use pallas_network::miniprotocols::chainsync::{RollbackBuffer, RollbackEffect};
use pallas_network::miniprotocols::Point;
use pv_core::*;

// Point label n (1..) <-> a distinct Point; two labels share a slot on purpose
// so that equality must look at the hash as well.
fn point(n: i64) -> Point {
    Point::Specific((n as u64) / 2, vec![n as u8; 4])
}
fn label(p: &Point) -> i64 {
    match p {
        Point::Origin => 0,
        Point::Specific(_, h) => h[0] as i64,
    }
}
fn project(b: &RollbackBuffer) -> serde_json::Value {
    let buf: Vec<i64> = b.peek().map(label).collect();
    json!({
        "buf": buf,
        "size": b.size(),
        "latest": b.latest().map(label).unwrap_or(0),
        "oldest": b.oldest().map(label).unwrap_or(0),
    })
}
fn merge(mut a: serde_json::Value, b: serde_json::Value) -> serde_json::Value {
    for (k, v) in b.as_object().unwrap() {
        a[k] = v.clone();
    }
    a
}

/// M2: replay TLC behaviours. Each vector is a sequence of
/// {call:{op,..,res/popped}, buf:[..]}; the real buffer must produce the same
/// results and the same buffer after every call (the model is deterministic: a
/// roll-back keeps everything up to the first occurrence of the point).
pub fn replay(args: &Args) {
    let vecs = read_ndjson(args.get("in"));
    let mut out = Ndjson::create(args.get("out"));
    for (i, v) in vecs.iter().enumerate() {
        let mut b = RollbackBuffer::new();
        let mut verdict = json!({"i": i, "ok": true, "steps": jarr(v).len()});
        for (k, step) in jarr(v).iter().enumerate() {
            let call = &step["call"];
            let want_buf: Vec<i64> = jarr(&step["buf"]).iter().map(jint).collect();
            let res = catch(|| match jstr(&call["op"]) {
                "roll_forward" => {
                    b.roll_forward(point(jint(&call["p"])));
                    json!({})
                }
                "roll_back" => {
                    let r = match b.roll_back(&point(jint(&call["p"]))) {
                        RollbackEffect::Handled => "Handled",
                        RollbackEffect::OutOfScope => "OutOfScope",
                    };
                    json!({"res": r})
                }
                "pop_with_depth" => {
                    let popped: Vec<i64> = b.pop_with_depth(jint(&call["d"]) as usize).iter().map(label).collect();
                    json!({"popped": popped})
                }
                other => die(&format!("unknown op {other}")),
            });
            let got = match res {
                Err(p) => {
                    verdict = json!({"i": i, "ok": false, "step": k, "why": "panic", "panic": p, "vector": v});
                    break;
                }
                Ok(g) => g,
            };
            let got_buf: Vec<i64> = b.peek().map(label).collect();
            let mut same = got_buf == want_buf;
            for (key, val) in got.as_object().unwrap() {
                same &= call[key] == *val;
            }
            if !same {
                // the model is deterministic (first occurrence): any difference is a mismatch
                let dup_branch = false;
                if dup_branch {
                    verdict = json!({"i": i, "ok": true, "steps": k, "sibling": true});
                } else {
                    verdict = json!({"i": i, "ok": false, "step": k, "why": "mismatch",
                        "got": merge(got, json!({"buf": got_buf})), "want": step, "vector": v});
                }
                break;
            }
        }
        out.ev(verdict);
    }
    out.finish();
}

/// M3: seeded random runs of the real buffer, logged for TraceRollbackBuffer.
pub fn trace(args: &Args) {
    let mut rng = Rng::new(args.seed());
    let runs = args.num("runs", 10);
    let ops = args.num("ops", 200);
    let npoints = args.num("points", 4);
    let mut out = Ndjson::create(args.get("out"));
    for _ in 0..runs {
        let mut b = RollbackBuffer::new();
        out.ev(json!({"ev": "reset"}));
        for _ in 0..ops {
            let p = rng.range(1, npoints) as i64;
            let r = catch(|| match rng.below(10) {
                0..=4 => {
                    b.roll_forward(point(p));
                    merge(json!({"ev": "roll_forward", "p": p}), project(&b))
                }
                5..=6 => {
                    let r = match b.roll_back(&point(p)) {
                        RollbackEffect::Handled => "Handled",
                        RollbackEffect::OutOfScope => "OutOfScope",
                    };
                    merge(json!({"ev": "roll_back", "p": p, "res": r}), project(&b))
                }
                7..=8 => {
                    let d = rng.below(6);
                    let popped: Vec<i64> = b.pop_with_depth(d as usize).iter().map(label).collect();
                    merge(json!({"ev": "pop_with_depth", "d": d, "popped": popped}), project(&b))
                }
                _ => {
                    let pos = b.position(&point(p)).map(|x| x as i64).unwrap_or(-1);
                    json!({"ev": "position", "p": p, "pos": pos})
                }
            });
            match r {
                Ok(e) => out.ev(e),
                Err(p) => {
                    out.ev(json!({"ev": "panic", "msg": p}));
                    break;
                }
            }
        }
    }
    out.finish();
}
